(* Schema/Sem.v — IMPL-MODEL of the two typed-node engines: the reflection binding
   (node/bindnode: node.go, repr.go, with Go types inferred by infer.go) and the generated code
   (schema/gen/go templates).  Views ([type_view], [repr_view]) mirror the node methods
   (Kind, Length, iterators, AsX), builders ([tbuild], [rbuild]) mirror the assemblers fed with
   the plain call sequence BeginMap/AssembleEntry/.../Finish (what datamodel.Copy and the codecs do).
   Every confirmed deviation of bindnode is a boolean of [quirks]; [pinned] is the unchanged tree,
   [qoff] the specified behaviour.  The generated code is modelled by the same semantics with
   every bindnode quirk masked off ([on]).  Results are Ok | Err class | Panic.
   MODEL file: definitions only. *)
Require Import IP.Base.Bytes IP.DM.Value IP.Schema.Types IP.Schema.View.
Open Scope N_scope.

Inductive engine := Bind | Gen.

Record quirks := {
  q_dup_field : bool;          (* _structAssembler.AssembleValue: a field assembled twice, last wins (type level, map repr) *)
  q_dup_mapkey : bool;         (* _mapAssembler: "TODO: check for duplicates in keysVal" — key appended twice *)
  q_union_two : bool;          (* _unionAssembler: several entries, last wins *)
  q_rename_alias : bool;       (* inboundMappedKey falls back to the key: original name of a renamed field accepted *)
  q_member_alias : bool;       (* inboundMappedType falls back to the key: member type name accepted as discriminant *)
  q_listpairs_dup : bool;      (* listpairs: repeated field accepted, last wins *)
  q_listpairs_short : bool;    (* listpairs: an entry with fewer than two elements is ignored *)
  q_listpairs_unknown_panic : bool; (* listpairs: unknown field name -> _errorAssembler type assertion panic *)
  q_listpairs_iter_index : bool;    (* _listpairsIteratorRepr yields the struct field index *)
  q_enum_name_alias : bool;    (* string enum: member name accepted at representation level *)
  q_enum_type_unchecked : bool;(* type-level enum assembler stores any string *)
  q_kinded_enum_kind : bool;   (* TypeEnum.RepresentationBehavior is always string: int enum in a kinded union *)
  q_kinded_len : bool;         (* _nodeRepr.Length of a kinded union is the member's type-level length *)
  q_nullable_sum_panic : bool; (* kinded/stringprefix union in a nullable slot: reflect panic at repr-level assembly *)
  q_int_narrow : bool;         (* "TODO: check for overflow": ints narrowed into the bound Go integer type *)
  q_union_any : bool;          (* an Any member of a union is wrapped in a typed _node: Kind_Invalid on read *)
  (* confirmed deviations of the GENERATED code (effective for engine Gen only) *)
  qg_tuple_missing : bool;     (* tuple ReprAssembler.Finish has no required-field check: missing fields keep Go zero values *)
  qg_nullable_kinded_null : bool; (* kinded union ReprAssembler.AssignNull refuses null even in a nullable slot *)
  qg_stringprefix_split : bool; (* stringprefix fromString uses SplitN(v, delim, 2); the DSL compiler sets delim = "":
                                  the string is cut after its first character instead of after the prefix *)
  qg_map_kv_dup : bool         (* typed map, key+value path (AssembleKey/AssembleValue): keyFinishTidy has no
                                  repeated-key check (AssembleEntry has); the driver enables this switch for the
                                  key+value route only *)
}.

Definition pinned : quirks :=
  {| q_dup_field := true; q_dup_mapkey := true; q_union_two := true; q_rename_alias := true;
     q_member_alias := true; q_listpairs_dup := true; q_listpairs_short := true;
     q_listpairs_unknown_panic := true; q_listpairs_iter_index := true; q_enum_name_alias := true;
     q_enum_type_unchecked := true; q_kinded_enum_kind := true; q_kinded_len := true;
     q_nullable_sum_panic := true; q_int_narrow := true; q_union_any := true;
     qg_tuple_missing := true; qg_nullable_kinded_null := true; qg_stringprefix_split := true; qg_map_kv_dup := true |}.

Definition qoff : quirks :=
  {| q_dup_field := false; q_dup_mapkey := false; q_union_two := false; q_rename_alias := false;
     q_member_alias := false; q_listpairs_dup := false; q_listpairs_short := false;
     q_listpairs_unknown_panic := false; q_listpairs_iter_index := false; q_enum_name_alias := false;
     q_enum_type_unchecked := false; q_kinded_enum_kind := false; q_kinded_len := false;
     q_nullable_sum_panic := false; q_int_narrow := false; q_union_any := false;
     qg_tuple_missing := false; qg_nullable_kinded_null := false; qg_stringprefix_split := false; qg_map_kv_dup := false |}.

Inductive errc := EKind | ENull | EMissing | EUnknown | EDup | EUnion | EEnum | ELen | ERange | EFuel.

Inductive bres (A : Type) := BOk (a : A) | BErr (c : errc) | BPanic.
Arguments BOk {A} a.
Arguments BErr {A} c.
Arguments BPanic {A}.

Definition bbind {A B} (r : bres A) (f : A -> bres B) : bres B :=
  match r with BOk a => f a | BErr c => BErr c | BPanic => BPanic end.
Definition bmap {A B} (f : A -> B) (r : bres A) : bres B := bbind r (fun a => BOk (f a)).

(* assemblers are driven element by element; the first failure ends the run *)
Fixpoint b_fold {S X} (step : S -> X -> bres S) (st : S) (l : list X) : bres S :=
  match l with
  | [] => BOk st
  | x :: r => bbind (step st x) (fun st' => b_fold step st' r)
  end.

Fixpoint b_mapM {X Y} (f : X -> bres Y) (l : list X) : bres (list Y) :=
  match l with
  | [] => BOk []
  | x :: r => bbind (f x) (fun y => bbind (b_mapM f r) (fun ys => BOk (y :: ys)))
  end.

Fixpoint set_nth {A} (i : nat) (x : A) (l : list A) : list A :=
  match l, i with
  | [], _ => []
  | _ :: r, O => x :: r
  | y :: r, S i' => y :: set_nth i' x r
  end.

(* reflect's String() of the zero reflect.Value, which the int-enum defect surfaces *)
Definition invalid_value : bytes := [60; 105; 110; 118; 97; 108; 105; 100; 32; 86; 97; 108; 117; 101; 62].

Section Engine.
  Variable e : engine.
  Variable q : quirks.

  Definition on (f : quirks -> bool) : bool := match e with Bind => f q | Gen => false end.
  Definition ong (f : quirks -> bool) : bool := match e with Gen => f q | Bind => false end.

  (* ================================================================ builders *)
  Section Build.
    Variable lvl : level.
    (* child assembler: [ptr] = the Go value behind it is a pointer (nullable slot) *)
    Variable rec : ty -> bool -> dm -> bres tv.

    (* AssignNull on a slot: only a nullable one takes it *)
    Definition b_maybe (nul : bool) (t : ty) (d : dm) : bres (maybe tv) :=
      match d with
      | DNull =>
          if nul then
            match lvl, t with
            | LRepr, TUnion UKinded _ => if ong qg_nullable_kinded_null then BErr ENull else BOk MNull
            | _, _ => BOk MNull
            end
          else BErr ENull
      | _ => bmap MVal (rec t nul d)
      end.

    Definition b_int (w : intw) (z : Z) : bres tv :=
      if in_int64 z then
        match w with
        | W64 => BOk (VInt z)
        | W8 => if in_int8 z then BOk (VInt z)
                else if on q_int_narrow then BOk (VInt (wrap_to 8 z)) else BErr ERange
        end
      else if on q_int_narrow
           then BOk (VInt (wrap_to (match w with W64 => 64 | W8 => 8 end) z))
           else BErr ERange.

    (* compatibleKind gate + Set* *)
    Definition b_scalar (t : ty) (d : dm) : bres tv :=
      match t, d with
      | TBool, DBool b => BOk (VBool b)
      | TInt w, DInt z => b_int w z
      | TFloat, DFloat f => BOk (VFloat f)
      | TString, DString s => BOk (VString s)
      | TBytes, DBytes s => BOk (VBytes s)
      | TLink, DLink c => BOk (VLink c)
      | TAny, d => if dm_wf d then BOk (VAny d) else BErr EDup   (* basicnode refuses repeated keys *)
      | _, _ => BErr EKind
      end.

    Definition find_field (key : finfo -> bytes) (fs : list (finfo * ty)) (k : bytes)
      : option (nat * (finfo * ty)) :=
      find_idx (fun f => bytes_eqb (key (fst f)) k) fs.

    (* _structAssembler.AssembleValue on field [hit], then the value *)
    Definition b_field (dupq : bool) (st : list (maybe tv)) (hit : option (nat * (finfo * ty))) (d : dm)
      : bres (list (maybe tv)) :=
      match hit with
      | None => BErr EUnknown
      | Some (i, f) =>
          if negb (is_absent (nth i st MAbsent)) && negb dupq then BErr EDup
          else bbind (b_maybe (f_nul (fst f)) (snd f) d) (fun v => BOk (set_nth i v st))
      end.

    (* _structAssembler.Finish: every non-optional field must have been assembled *)
    Definition b_finish (fs : list (finfo * ty)) (st : list (maybe tv)) : bres tv :=
      if forallb (fun x => f_opt (fst (fst x)) || negb (is_absent (snd x))) (zip fs st)
      then BOk (VStruct st) else BErr EMissing.

    Definition st0 (fs : list (finfo * ty)) : list (maybe tv) := map (fun _ => MAbsent) fs.

    (* the generated tuple assembler: a required field that was never assembled keeps its Go zero
       value (scalars are recorded; a composite zero value is left as an absent slot) *)
    Definition zero_scalar (t : ty) : maybe tv :=
      match t with
      | TBool => MVal (VBool false) | TInt _ => MVal (VInt 0) | TFloat => MVal (VFloat 0)
      | TString => MVal (VString []) | TBytes => MVal (VBytes [])
      | _ => MAbsent
      end.
    Definition b_finish_nocheck (fs : list (finfo * ty)) (st : list (maybe tv)) : bres tv :=
      BOk (VStruct (map (fun x => if is_absent (snd x) && negb (f_opt (fst (fst x)))
                                  then zero_scalar (snd (fst x)) else snd x) (zip fs st))).

    (* inboundMappedKey: serial key -> field; falls back to the key itself *)
    Definition find_serial (fs : list (finfo * ty)) (k : bytes) : option (nat * (finfo * ty)) :=
      match find_field f_key fs k with
      | Some h => Some h
      | None => if on q_rename_alias then find_field f_name fs k else None
      end.

    (* _listStructAssemblerRepr (tuple): positional *)
    Fixpoint b_tuple (fs : list (finfo * ty)) (l : list dm) : bres (list (maybe tv)) :=
      match l with
      | [] => BOk (st0 fs)
      | d :: lr =>
          match fs with
          | [] => BErr ELen
          | f :: fr =>
              bbind (b_maybe (f_nul (fst f)) (snd f) d) (fun v =>
              bbind (b_tuple fr lr) (fun vs => BOk (v :: vs)))
          end
      end.

    (* _listpairsFieldAssemblerRepr / _listpairsFieldListAssemblerRepr: one [name, value] entry *)
    Definition b_pair (fs : list (finfo * ty)) (st : list (maybe tv)) (x : dm) : bres (list (maybe tv)) :=
      match x with
      | DList [] => if on q_listpairs_short then BOk st else BErr ELen
      | DList (DString ks :: rest) =>
          match rest with
          | [] => if on q_listpairs_short then BOk st else BErr ELen
          | d :: rest2 =>
              match find_field f_name fs ks with
              | None => if on q_listpairs_unknown_panic then BPanic else BErr EUnknown
              | Some hit =>
                  bbind (b_field (on q_listpairs_dup) st (Some hit) d) (fun st' =>
                  match rest2 with [] => BOk st' | _ => BErr ELen end)
              end
          end
      | _ => BErr EKind
      end.

    (* stringjoin: strings.Split, one part per field *)
    Fixpoint b_join (fs : list (finfo * ty)) (parts : list bytes) : bres (list (maybe tv)) :=
      match fs, parts with
      | [], [] => BOk []
      | f :: fr, p :: pr =>
          bbind (rec (snd f) false (DString p)) (fun v =>
          bbind (b_join fr pr) (fun vs => BOk (MVal v :: vs)))
      | _, _ => BErr ELen
      end.

    (* _unionAssembler: one entry of the (single-entry) map *)
    Definition b_union_entry (ms : list (minfo * ty)) (p : bytes -> minfo -> bool)
               (st : option (nat * tv)) (kv : bytes * dm) : bres (option (nat * tv)) :=
      match find_idx (fun m => p (fst kv) (fst m)) ms with
      | None => BErr EUnion
      | Some (i, m) =>
          match st with
          | Some _ => if on q_union_two
                      then bbind (rec (snd m) false (snd kv)) (fun v => BOk (Some (i, v)))
                      else BErr EUnion
          | None => bbind (rec (snd m) false (snd kv)) (fun v => BOk (Some (i, v)))
          end
      end.

    Definition b_union_finish (st : option (nat * tv)) : bres tv :=
      match st with Some (i, v) => BOk (VUnion i v) | None => BErr EUnion end.

    Definition p_name (k : bytes) (m : minfo) : bool := bytes_eqb (m_name m) k.
    (* inboundMappedType: discriminant -> member; falls back to the key itself *)
    Definition p_disc (ms : list (minfo * ty)) (k : bytes) (m : minfo) : bool :=
      if existsb (fun m' => bytes_eqb (m_disc (fst m')) k) ms then bytes_eqb (m_disc m) k
      else on q_member_alias && bytes_eqb (m_name m) k.

    (* _mapAssembler: key appended and value stored when the value assembler finishes *)
    Definition b_map_entry (nul : bool) (el : ty) (st : list (bytes * maybe tv)) (kv : bytes * dm)
      : bres (list (bytes * maybe tv)) :=
      if existsb (fun x => bytes_eqb (fst x) (fst kv)) st then
        if on q_dup_mapkey then
          bbind (b_maybe nul el (snd kv)) (fun v =>
          BOk (map (fun x => if bytes_eqb (fst x) (fst kv) then (fst x, v) else x) st ++ [(fst kv, v)]))
        else if ong qg_map_kv_dup then
          bbind (b_maybe nul el (snd kv)) (fun v => BOk (st ++ [(fst kv, v)]))
        else BErr EDup
      else bbind (b_maybe nul el (snd kv)) (fun v => BOk (st ++ [(fst kv, v)])).

    Definition b_step (t : ty) (ptr : bool) (d : dm) : bres tv :=
      match d with DNull => BErr ENull | _ =>
      match t with
      | TList nul el =>
          match d with
          | DList l => bmap VList (b_mapM (b_maybe nul el) l)
          | _ => BErr EKind
          end
      | TMap nul el =>
          match d with
          | DMap m => bmap VMap (b_fold (b_map_entry nul el) [] m)
          | _ => BErr EKind
          end
      | TStruct r fs =>
          match lvl, r, d with
          | LType, _, DMap m =>
              bbind (b_fold (fun st kv => b_field (on q_dup_field) st (find_field f_name fs (fst kv)) (snd kv))
                            (st0 fs) m) (b_finish fs)
          | LRepr, SMap, DMap m =>
              bbind (b_fold (fun st kv => b_field (on q_dup_field) st (find_serial fs (fst kv)) (snd kv))
                            (st0 fs) m) (b_finish fs)
          | LRepr, STuple, DList l =>
              bbind (b_tuple fs l) (if ong qg_tuple_missing then b_finish_nocheck fs else b_finish fs)
          | LRepr, SStringjoin dl, DString s =>
              let parts := split dl s in
              if Nat.eqb (length parts) (length fs) then bmap VStruct (b_join fs parts) else BErr ELen
          | LRepr, SListpairs, DList l => bbind (b_fold (b_pair fs) (st0 fs) l) (b_finish fs)
          | _, _, _ => BErr EKind
          end
      | TUnion r ms =>
          match lvl, r, d with
          | LType, _, DMap m => bbind (b_fold (b_union_entry ms p_name) None m) b_union_finish
          | LRepr, UKeyed, DMap m => bbind (b_fold (b_union_entry ms (p_disc ms)) None m) b_union_finish
          | LRepr, UKinded, x =>
              match find_idx (fun m => kind_eqb (m_kind (fst m)) (kind_of x)) ms with
              | None => BErr EKind
              | Some (i, m) =>
                  if ptr && on q_nullable_sum_panic then BPanic
                  else bmap (VUnion i) (rec (snd m) false x)
              end
          | LRepr, UStringprefix dl, DString s =>
              if ong qg_stringprefix_split && match dl with [] => true | _ => false end then
                (* generated code, delimiter "": strings.SplitN(s, "", 2) = first character (ASCII
                   modelled) and the rest *)
                match s with
                | c :: (_ :: _) as rest =>
                    if c <? 128 then
                      match find_idx (fun m => bytes_eqb (m_disc (fst m)) [c]) ms with
                      | Some (i, m) => bmap (VUnion i) (rec (snd m) false (DString rest))
                      | None => BErr EUnion
                      end
                    else BErr EUnion
                | _ => BErr EUnion
                end
              else
              (* repr.go AssignString: SplitN at the first delimiter and whole-discriminant comparison,
                 or (no delimiter) HasPrefix in member order *)
              match sp_parse dl ms s with
              | None => BErr EUnion
              | Some (i, m, rest) =>
                  if ptr && on q_nullable_sum_panic then BPanic
                  else bmap (VUnion i) (rec (snd m) false (DString rest))
              end
          | _, _, _ => BErr EKind
          end
      | TEnum ir es =>
          match lvl, d with
          | LType, DString s =>
              if on q_enum_type_unchecked || existsb (fun x => bytes_eqb (e_name x) s) es
              then BOk (VEnum s) else BErr EEnum
          | LRepr, DString s =>
              if ir then BErr EKind else
              match find (fun x => bytes_eqb (e_str x) s) es with
              | Some x => BOk (VEnum (e_name x))
              | None =>
                  if on q_enum_name_alias && existsb (fun x => bytes_eqb (e_name x) s) es
                  then BOk (VEnum s) else BErr EEnum
              end
          | LRepr, DInt z =>
              if ir then
                match find (fun x => Z.eqb (e_int x) z) es with
                | Some x => BOk (VEnum (e_name x)) | None => BErr EEnum end
              else BErr EKind
          | _, _ => BErr EKind
          end
      | _ => b_scalar t d
      end end.
  End Build.

  Definition build_f (lvl : level) : nat -> ty -> bool -> dm -> bres tv :=
    fuel_rec (b_step lvl) (fun _ _ _ => BErr EFuel).

  (* ================================================================ views *)
  Section RView.
    Variable rec : ty -> tv -> ov.

    Definition rv_maybe (t : ty) (m : maybe tv) : ov :=
      match m with MAbsent => OAbsent | MNull => OScalar DNull | MVal v => rec t v end.

    (* lengthMinusTrailingAbsents: index after the last field that is not absent *)
    Fixpoint repr_end (vs : list (maybe tv)) : nat :=
      match vs with
      | [] => O
      | v :: r => let k := repr_end r in if Nat.eqb k 0 && is_absent v then O else S k
      end.

    (* lengthMinusAbsents *)
    Definition len_minus_absents (fs : list (finfo * ty)) (vs : list (maybe tv)) : Z :=
      (Z.of_nat (length fs) - Z.of_nat (length (filter is_absent vs)))%Z.

    Definition fields_upto_end (fs : list (finfo * ty)) (vs : list (maybe tv)) :=
      firstn (repr_end vs) (zip fs vs).

    (* buildListpairsField: a basicnode list [name, value]; the value node is kept by reference *)
    Definition pair_view (name : bytes) (o : ov) : ov :=
      OList 2%Z [(0%Z, OScalar (DString name)); (1%Z, o)].

    (* _unionIterator / LookupByString wrap the member in a _node whatever its type: an Any member
       then reports Kind_Invalid (struct fields, list and map values special-case Any) *)
    Definition member_view (t : ty) (v : tv) : ov :=
      match t with TAny => if on q_union_any then OErr false else rec t v | _ => rec t v end.

    Definition rview_step (t : ty) (v : tv) : ov :=
      match t, v with
      | TBool, VBool b => OScalar (DBool b)
      | TInt _, VInt z => OScalar (DInt z)
      | TFloat, VFloat f => OScalar (DFloat f)
      | TString, VString s => OScalar (DString s)
      | TBytes, VBytes s => OScalar (DBytes s)
      | TLink, VLink c => OScalar (DLink c)
      | TAny, VAny d => ov_of_dm d
      | TList _ el, VList l => OList (Z.of_nat (length l)) (indexed 0%Z (map (rv_maybe el) l))
      | TMap _ el, VMap m =>
          OMap (Z.of_nat (length m)) (map (fun kv => (fst kv, rv_maybe el (snd kv))) m)
      | TStruct SMap fs, VStruct vs =>
          (* Length = lengthMinusAbsents; _structIteratorRepr skips absents up to reprEnd *)
          OMap (len_minus_absents fs vs)
               (map (fun x => (f_key (fst (fst x)), rv_maybe (snd (fst x)) (snd x)))
                    (filter (fun x => negb (is_absent (snd x))) (fields_upto_end fs vs)))
      | TStruct STuple fs, VStruct vs =>
          OList (Z.of_nat (repr_end vs))
                (indexed 0%Z (map (fun x => rv_maybe (snd (fst x)) (snd x)) (fields_upto_end fs vs)))
      | TStruct SListpairs fs, VStruct vs =>
          let its := filter (fun ix => negb (is_absent (snd (snd ix))))
                            (indexed 0%Z (fields_upto_end fs vs)) in
          let pairs := map (fun ix => (fst ix, pair_view (f_name (fst (fst (snd ix))))
                                                 (rv_maybe (snd (fst (snd ix))) (snd (snd ix))))) its in
          OList (len_minus_absents fs vs)
                (if on q_listpairs_iter_index then pairs else indexed 0%Z (map snd pairs))
      | TStruct (SStringjoin dl) fs, VStruct vs =>
          match mapM (fun x => str_of_ov (rv_maybe (snd (fst x)) (snd x))) (zip fs vs) with
          | Some parts => OScalar (DString (join dl parts))
          | None => OErr false
          end
      | TUnion r ms, VUnion i v =>
          match nth_error ms i with
          | None => OErr false
          | Some m =>
            let o := member_view (snd m) v in
            match r with
            | UKeyed => OMap 1%Z [(m_disc (fst m), o)]
            | UKinded =>
                match snd m with
                | TEnum true _ =>
                    if on q_kinded_enum_kind then
                      (* Kind() says string; AsString goes to the string-kinded member, which is unset *)
                      match find (fun m' => kind_eqb (m_kind (fst m')) KString) ms with
                      | Some (_, TString) => OScalar (DString invalid_value)
                      | Some (_, TEnum false _) => OErr false   (* "<invalid Value>" is not a member *)
                      | _ => OErr true
                      end
                    else o
                | TStruct sr fs =>
                    if on q_kinded_len then
                      match o with
                      | OMap _ ents => OMap (Z.of_nat (length fs)) ents
                      | OList _ its =>
                          (* a tuple answers LookupByIndex below len(fields) with Absent; listpairs with an error *)
                          OList (Z.of_nat (length fs))
                                (match sr with
                                 | STuple => its ++ map (fun _ => (lookup_only, OAbsent))
                                                        (skipn (length its) fs)
                                 | _ => its
                                 end)
                      | _ => o
                      end
                    else o
                | _ => o
                end
            | UStringprefix dl =>
                match str_of_ov o with
                | Some s => OScalar (DString (m_disc (fst m) ++ dl ++ s))
                | None => OErr false
                end
            end
          end
      | TEnum ir es, VEnum s =>
          match find (fun x => bytes_eqb (e_name x) s) es with
          | None => OErr false
          | Some x => if ir then OScalar (DInt (e_int x)) else OScalar (DString (e_str x))
          end
      | _, _ => OErr false
      end.
  End RView.

  Definition rview_f : nat -> ty -> tv -> ov := fuel_rec rview_step (fun _ _ => OErr false).

  Section TView.
    Variable rec : ty -> tv -> ov.

    Definition tv_maybe (t : ty) (m : maybe tv) : ov :=
      match m with MAbsent => OAbsent | MNull => OScalar DNull | MVal v => rec t v end.

    (* _node: struct Length = number of fields, _structIterator yields every field *)
    Definition tvw_step (t : ty) (v : tv) : ov :=
      match t, v with
      | TBool, VBool b => OScalar (DBool b)
      | TInt _, VInt z => OScalar (DInt z)
      | TFloat, VFloat f => OScalar (DFloat f)
      | TString, VString s => OScalar (DString s)
      | TBytes, VBytes s => OScalar (DBytes s)
      | TLink, VLink c => OScalar (DLink c)
      | TAny, VAny d => ov_of_dm d
      | TList _ el, VList l => OList (Z.of_nat (length l)) (indexed 0%Z (map (tv_maybe el) l))
      | TMap _ el, VMap m =>
          OMap (Z.of_nat (length m)) (map (fun kv => (fst kv, tv_maybe el (snd kv))) m)
      | TStruct _ fs, VStruct vs =>
          OMap (Z.of_nat (length fs))
               (map (fun x => (f_name (fst (fst x)), tv_maybe (snd (fst x)) (snd x))) (zip fs vs))
      | TUnion _ ms, VUnion i v =>
          match nth_error ms i with
          | None => OErr false
          | Some m =>
              OMap 1%Z [(m_name (fst m),
                         match snd m with
                         | TAny => if on q_union_any then OErr false else rec (snd m) v
                         | _ => rec (snd m) v
                         end)]
          end
      | TEnum _ _, VEnum s => OScalar (DString s)
      | _, _ => OErr false
      end.
  End TView.

  Definition tvw_f : nat -> ty -> tv -> ov := fuel_rec tvw_step (fun _ _ => OErr false).

  (* ================================================================ top level *)
  Definition tbuild (t : ty) (d : dm) : bres tv := build_f LType (fuel_of t) t false d.
  Definition rbuild (t : ty) (d : dm) : bres tv := build_f LRepr (fuel_of t) t false d.
  Definition build (lvl : level) (t : ty) (d : dm) : bres tv := build_f lvl (fuel_of t) t false d.
  Definition type_view (t : ty) (v : tv) : ov := tvw_f (fuel_of t) t v.
  Definition repr_view (t : ty) (v : tv) : ov := rview_f (fuel_of t) t v.
  (* the representation as data: what datamodel.Copy of Representation() yields *)
  Definition repr (t : ty) (v : tv) : option dm := ov_to_dm (repr_view t v).

  (* what a client observes of a build: outcome and, on success, both views *)
  Definition observe (lvl : level) (t : ty) (d : dm) : bres (ov * ov) :=
    bmap (fun v => (type_view t v, repr_view t v)) (build lvl t d).
End Engine.

(* outcomes compared up to the error class *)
Definition bres_sim {A} (a b : bres A) : Prop :=
  match a, b with
  | BOk x, BOk y => x = y
  | BErr _, BErr _ => True
  | BPanic, BPanic => True
  | _, _ => False
  end.
