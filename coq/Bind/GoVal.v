(* Bind/GoVal.v — Go types ("shapes") and Go values as bindnode sees them through reflection,
   and the fragment of IPLD schema types that Go values are bound to.  MODEL file: definitions only.

   A shape is what reflect.Type tells bindnode: kind, element types, struct field names and the
   type's Name() (used by inferSchema for the schema type name; "" for unnamed types such as
   reflect.StructOf results and []T).  A Go value [gv] is the content of a reflect.Value of that
   shape; which nil a [GNil] is (pointer, slice, map, interface) is decided by the shape, exactly as
   reflect decides by val.Kind(). *)
Require Import IP.Base.Bytes IP.DM.Value.
Open Scope N_scope.

(* Go integer kinds (reflect.Int8 .. reflect.Uint); int and uint are 64 bits wide on the platform
   the check runs on, but remain distinct kinds: bindnode treats reflect.Uint64 specially. *)
Inductive ikind := I8 | I16 | I32 | I64 | IInt | U8 | U16 | U32 | U64 | UInt.

Definition ik_unsigned (k : ikind) : bool :=
  match k with U8 | U16 | U32 | U64 | UInt => true | _ => false end.
Definition ik_bits (k : ikind) : Z :=
  match k with I8 | U8 => 8 | I16 | U16 => 16 | I32 | U32 => 32 | _ => 64 end%Z.
Definition ik_lo (k : ikind) : Z := if ik_unsigned k then 0%Z else (- 2 ^ (ik_bits k - 1))%Z.
Definition ik_hi (k : ikind) : Z :=   (* exclusive *)
  if ik_unsigned k then (2 ^ ik_bits k)%Z else (2 ^ (ik_bits k - 1))%Z.
Definition ik_in (k : ikind) (z : Z) : bool := (ik_lo k <=? z)%Z && (z <? ik_hi k)%Z.
(* Go's conversion T(x) of a 64-bit integer to a narrower integer type: keep the low bits *)
Definition ik_narrow (k : ikind) (z : Z) : Z :=
  if ik_unsigned k then (z mod 2 ^ ik_bits k)%Z
  else ((z + 2 ^ (ik_bits k - 1)) mod 2 ^ ik_bits k - 2 ^ (ik_bits k - 1))%Z.

(* the three Go types verifyCompatibility accepts for a schema Link *)
Inductive lkind := LIface | LCidLink | LCid.

Inductive shape :=
| SBool
| SInt (k : ikind)
| SFloat (single : bool)             (* float32 when [single] *)
| SString
| SBytes                             (* []byte *)
| SLink (k : lkind)
| SNode                              (* datamodel.Node *)
| SPtr (s : shape)
| SSlice (name : bytes) (s : shape)  (* []T, or a named slice type *)
| SStruct (name : bytes) (fields : list (bytes * shape))
| SGoMap (k v : shape).              (* native Go map[K]V *)

Inductive gv :=
| GBool (b : bool)
| GInt (z : Z)
| GFloat (bits : N)                  (* binary64 pattern of the (widened) value *)
| GString (s : bytes)
| GBytes (s : bytes)                 (* non-empty; the empty and the nil []byte are both GNil *)
| GLink (c : bytes)                  (* binary CID *)
| GNode (d : dm)                     (* a datamodel.Node held in an interface, by content *)
| GNil
| GPtr (v : gv)
| GSlice (l : list gv)
| GStruct (fs : list gv)
| GGoMap (m : list (gv * gv)).       (* association list, keys unique *)

(* ---- schema types (the fragment bindnode binds) ---------------------------------------- *)

Inductive srepr := SRMap | SRTuple.
Inductive urepr := URKeyed | URKinded | URStringprefix.   (* stringprefix: with the empty delimiter (all the schema DSL produces) *)
Inductive erepr := ERString | ERInt.

(* struct field: name, representation key (rename; = name when not renamed), type, optional, nullable.
   union member: discriminant (keyed) and member type; the member's type name is the type-level key.
   enum member: name, string representation, int representation. *)
Inductive sty :=
| TBool | TInt | TFloat | TString | TBytes | TLink | TAny
| TList (name : bytes) (elem : sty) (nullable : bool)
| TMap (name : bytes) (key val : sty) (nullable : bool)
| TStruct (name : bytes) (fields : list (bytes * bytes * sty * bool * bool)) (r : srepr)
| TUnion (name : bytes) (members : list (bytes * sty)) (r : urepr)
| TEnum (name : bytes) (members : list (bytes * bytes * Z)) (r : erepr).

Definition fld := (bytes * bytes * sty * bool * bool)%type.
Definition f_name (f : fld) : bytes := match f with (n, _, _, _, _) => n end.
Definition f_rkey (f : fld) : bytes := match f with (_, k, _, _, _) => k end.
Definition f_type (f : fld) : sty := match f with (_, _, t, _, _) => t end.
Definition f_opt (f : fld) : bool := match f with (_, _, _, o, _) => o end.
Definition f_nul (f : fld) : bool := match f with (_, _, _, _, n) => n end.

Section sty_ind2.
  Variable P : sty -> Prop.
  Hypothesis Hb : P TBool.
  Hypothesis Hi : P TInt.
  Hypothesis Hf : P TFloat.
  Hypothesis Hs : P TString.
  Hypothesis Hy : P TBytes.
  Hypothesis Hk : P TLink.
  Hypothesis Ha : P TAny.
  Hypothesis Hl : forall n e nl, P e -> P (TList n e nl).
  Hypothesis Hm : forall n k v nl, P k -> P v -> P (TMap n k v nl).
  Hypothesis Hst : forall n fs r, Forall (fun f => P (f_type f)) fs -> P (TStruct n fs r).
  Hypothesis Hu : forall n ms r, Forall (fun m => P (snd m)) ms -> P (TUnion n ms r).
  Hypothesis He : forall n ms r, P (TEnum n ms r).
  Fixpoint sty_ind2 (t : sty) : P t :=
    match t with
    | TBool => Hb | TInt => Hi | TFloat => Hf | TString => Hs | TBytes => Hy | TLink => Hk | TAny => Ha
    | TList n e nl => Hl n e nl (sty_ind2 e)
    | TMap n k v nl => Hm n k v nl (sty_ind2 k) (sty_ind2 v)
    | TStruct n fs r => Hst n fs r ((fix go (fs : list fld) : Forall (fun f => P (f_type f)) fs :=
        match fs with
        | [] => Forall_nil _
        | (a, b, t, o, nl) :: rest => Forall_cons (a, b, t, o, nl) (sty_ind2 t) (go rest)
        end) fs)
    | TUnion n ms r => Hu n ms r ((fix go (ms : list (bytes * sty)) : Forall (fun m => P (snd m)) ms :=
        match ms with
        | [] => Forall_nil _
        | (a, t) :: rest => Forall_cons (a, t) (sty_ind2 t) (go rest)
        end) ms)
    | TEnum n ms r => He n ms r
    end.
End sty_ind2.

(* ASCII helpers for the few literal names bindnode itself produces *)
Definition str_Bool : bytes := [66;111;111;108].
Definition str_Int : bytes := [73;110;116].
Definition str_Float : bytes := [70;108;111;97;116].
Definition str_String : bytes := [83;116;114;105;110;103].
Definition str_Bytes : bytes := [66;121;116;101;115].
Definition str_Link : bytes := [76;105;110;107].
Definition str_Any : bytes := [65;110;121].
Definition str_List_ : bytes := [76;105;115;116;95].          (* "List_" *)
Definition str_Keys : bytes := [75;101;121;115].
Definition str_Values : bytes := [86;97;108;117;101;115].

(* schema.Type.Name() *)
Definition sty_name (t : sty) : bytes :=
  match t with
  | TBool => str_Bool | TInt => str_Int | TFloat => str_Float | TString => str_String
  | TBytes => str_Bytes | TLink => str_Link | TAny => str_Any
  | TList n _ _ => n | TMap n _ _ _ => n | TStruct n _ _ => n | TUnion n _ _ => n | TEnum n _ _ => n
  end.

(* reflect.Kind.String() of the integer kinds, for reflect.Value.String() on a non-string:
   "<int8 Value>" *)
Definition ik_name (k : ikind) : bytes :=
  match k with
  | I8 => [105;110;116;56] | I16 => [105;110;116;49;54] | I32 => [105;110;116;51;50]
  | I64 => [105;110;116;54;52] | IInt => [105;110;116]
  | U8 => [117;105;110;116;56] | U16 => [117;105;110;116;49;54] | U32 => [117;105;110;116;51;50]
  | U64 => [117;105;110;116;54;52] | UInt => [117;105;110;116]
  end.
Definition reflect_nonstring (k : ikind) : bytes :=
  [60] ++ ik_name k ++ [32;86;97;108;117;101;62].          (* "<" kind " Value>" *)

(* ---- outcomes ---------------------------------------------------------------------------- *)

(* how a call into bindnode can fail; the harness maps Go errors/panics onto the same enum *)
Inductive berr :=
| PDup        (* panic: duplicate type name (TypeSystem.Accumulate) *)
| PInfer      (* panic: unable to infer / anonymous composite / cyclic *)
| PCompat     (* panic: schema type is not compatible with Go type *)
| PReflect    (* any other panic: reflect on an invalid value, nil interface conversion, ... *)
| XWrongKind  (* datamodel.ErrWrongKind *)
| XMissing    (* schema.ErrMissingRequiredField *)
| XInvalidKey (* unknown struct field / union member *)
| XNegUint    (* cannot assign negative integer to unsigned *)
| XOverflow   (* integer overflow reading a uint > MaxInt64 through AsInt *)
| XUnion      (* union has no member / not exactly one entry *)
| XRange      (* repaired behaviour only: value does not fit the Go integer type *)
| XOther.

Definition bres := res berr.

(* decidable equality of shapes and Go values, for the drivers and for well-formedness *)
Definition ikind_eqb (a b : ikind) : bool :=
  match a, b with
  | I8, I8 | I16, I16 | I32, I32 | I64, I64 | IInt, IInt
  | U8, U8 | U16, U16 | U32, U32 | U64, U64 | UInt, UInt => true
  | _, _ => false
  end.

Fixpoint gv_eqb (a b : gv) {struct a} : bool :=
  match a, b with
  | GBool x, GBool y => Bool.eqb x y
  | GInt x, GInt y => Z.eqb x y
  | GFloat x, GFloat y => N.eqb x y
  | GString x, GString y => bytes_eqb x y
  | GBytes x, GBytes y => bytes_eqb x y
  | GLink x, GLink y => bytes_eqb x y
  | GNode x, GNode y => dm_eqb x y
  | GNil, GNil => true
  | GPtr x, GPtr y => gv_eqb x y
  | GSlice x, GSlice y =>
      (fix go (x y : list gv) : bool :=
         match x, y with
         | [], [] => true
         | a :: x', b :: y' => gv_eqb a b && go x' y'
         | _, _ => false
         end) x y
  | GStruct x, GStruct y =>
      (fix go (x y : list gv) : bool :=
         match x, y with
         | [], [] => true
         | a :: x', b :: y' => gv_eqb a b && go x' y'
         | _, _ => false
         end) x y
  | GGoMap x, GGoMap y =>
      (fix go (x y : list (gv * gv)) : bool :=
         match x, y with
         | [], [] => true
         | (k, a) :: x', (k', b) :: y' => gv_eqb k k' && gv_eqb a b && go x' y'
         | _, _ => false
         end) x y
  | _, _ => false
  end.

(* Go map lookup / update on the association-list model (keys compared as Go compares map keys:
   by value; only string and integer keys occur) *)
Fixpoint gomap_get (k : gv) (m : list (gv * gv)) : option gv :=
  match m with
  | [] => None
  | (k', v) :: r => if gv_eqb k k' then Some v else gomap_get k r
  end.
Fixpoint gomap_set (k v : gv) (m : list (gv * gv)) : list (gv * gv) :=
  match m with
  | [] => [(k, v)]
  | (k', v') :: r => if gv_eqb k k' then (k, v) :: r else (k', v') :: gomap_set k v r
  end.

(* reflect.Zero(shape): the zero value the builder starts from *)
Fixpoint zero_of (s : shape) : gv :=
  match s with
  | SBool => GBool false
  | SInt _ => GInt 0
  | SFloat _ => GFloat 0
  | SString => GString []
  | SBytes => GNil
  | SLink LIface => GNil
  | SLink _ => GLink []                 (* cid.Undef *)
  | SNode => GNil
  | SPtr _ => GNil
  | SSlice _ _ => GNil
  | SStruct _ fs => GStruct (map (fun f => zero_of (snd f)) fs)
  | SGoMap _ _ => GNil
  end.

(* reflect's notion of a nilable kind, and whether it is a pointer: ptrOrNilable in infer.go *)
Definition shape_is_ptr (s : shape) : bool := match s with SPtr _ => true | _ => false end.
Definition shape_nilable (s : shape) : bool :=
  match s with
  | SPtr _ | SSlice _ _ | SBytes | SGoMap _ _ | SNode | SLink LIface => true
  | _ => false
  end.
