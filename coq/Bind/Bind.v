(* Bind/Bind.v — executable model of node/bindnode (api.go, infer.go, node.go, repr.go) and of the
   codecHelpers Marshal/Unmarshal path, over the shapes and values of Bind/GoVal.v.
   MODEL file: definitions only.

     verify_compat   verifyCompatibility (true = accepted, false = panics)
     infer_schema    inferSchema, threading the process-global defaultTypeSystem (names registered)
     infer_gotype    inferGoType
     view            what lib.Dump reads from Wrap(&v, t) (level LType) or its Representation() (LRepr)
     asm             what lib.Assemble writes through Prototype(..).NewBuilder() (LType) or the
                     representation builder (LRepr), starting from the zero value
     step / run      histories of Wrap / Prototype+build / Marshal / Unmarshal calls over the registry

   Confirmed defects of the pinned tree are modelled as they are; four of them are switches of the
   [quirks] record so that the repaired behaviour is obtained by flipping them. *)
Require Import IP.Base.Bytes IP.DM.Value IP.Bind.GoVal.
Open Scope N_scope.

Record quirks := {
  q_reuse_registered : bool;  (* inferSchema reuses an already registered name instead of panicking *)
  q_range_check : bool;       (* AssignInt / assignUInt refuse values that do not fit the Go type *)
  q_uint_kind : bool;         (* newNode treats reflect.Uint like reflect.Uint64 (values >= 2^63 readable) *)
  q_ptr_uint : bool;          (* AssignInt / assignUInt look at the kind behind a pointer, not at the pointer *)
  q_union_ptr : bool          (* kinded / stringprefix union assemblers go through createNonPtrVal (pointer slots work) *)
}.

Definition pinned : quirks :=
  {| q_reuse_registered := false; q_range_check := false; q_uint_kind := false; q_ptr_uint := false; q_union_ptr := false |}.
Definition repaired : quirks :=
  {| q_reuse_registered := true; q_range_check := true; q_uint_kind := true; q_ptr_uint := true; q_union_ptr := true |}.

Inductive level := LType | LRepr.

(* ---- small helpers -------------------------------------------------------------------------- *)

Definition mapM {A B} (f : A -> bres B) : list A -> bres (list B) :=
  fix go (l : list A) : bres (list B) :=
  match l with
  | [] => Ok []
  | x :: r => do y <- f x; do ys <- go r; Ok (y :: ys)
  end.

Fixpoint set_nth {A} (n : nat) (x : A) (l : list A) : list A :=
  match l, n with
  | [], _ => []
  | _ :: r, O => x :: r
  | y :: r, S n' => y :: set_nth n' x r
  end.

Definition nth_gv (n : nat) (l : list gv) : gv := nth n l GNil.

(* strings.Title on an identifier: upper-case the first ASCII letter *)
Definition title (s : bytes) : bytes :=
  match s with
  | c :: r => (if (97 <=? c) && (c <=? 122) then c - 32 else c) :: r
  | [] => []
  end.
Definition is_letter (c : N) : bool :=
  ((65 <=? c) && (c <=? 90)) || ((97 <=? c) && (c <=? 122)) || (c =? 95).
Definition is_digit (c : N) : bool := (48 <=? c) && (c <=? 57).
Definition is_ident (s : bytes) : bool :=
  match s with
  | c :: r => is_letter c && forallb (fun x => is_letter x || is_digit x) r
  | [] => false
  end.

(* ---- verifyCompatibility (infer.go) --------------------------------------------------------- *)

Definition deref1 (s : shape) : shape := match s with SPtr s1 => s1 | _ => s end.

(* "if ptr, nilable := ptrOrNilable(kind); !nilable { panic } else if ptr { goType = goType.Elem() }" *)
Definition nilable_elem (s : shape) : option shape :=
  match s with
  | SPtr s1 => Some s1
  | _ => if shape_nilable s then Some s else None
  end.

Definition vc_fields (vc : fld -> shape -> bool) : list fld -> list (bytes * shape) -> bool :=
  fix go (fs : list fld) (ss : list (bytes * shape)) {struct fs} : bool :=
  match fs, ss with
  | [], [] => true
  | f :: fs', (_, s) :: ss' =>
      (match f_opt f, f_nul f with
       | true, true => match s with SPtr (SPtr s2) => vc f s2 | _ => false end
       | true, false | false, true =>
           match nilable_elem s with Some s1 => vc f s1 | None => false end
       | false, false => vc f s
       end) && go fs' ss'
  | _, _ => false
  end.

Definition vc_members (vc : bytes * sty -> shape -> bool) : list (bytes * sty) -> list (bytes * shape) -> bool :=
  fix go (ms : list (bytes * sty)) (ss : list (bytes * shape)) {struct ms} : bool :=
  match ms, ss with
  | [], [] => true
  | m :: ms', (_, s) :: ss' =>
      (match nilable_elem s with Some s1 => vc m s1 | None => false end) && go ms' ss'
  | _, _ => false
  end.

Fixpoint verify_compat (t : sty) (s0 : shape) {struct t} : bool :=
  let s := deref1 s0 in
  match t with
  | TBool => match s with SBool => true | _ => false end
  | TInt => match s with SInt _ => true | _ => false end
  | TFloat => match s with SFloat _ => true | _ => false end
  | TString => match s with SString => true | _ => false end
  | TBytes => match s with SBytes => true | _ => false end
  | TLink => match s with SLink _ => true | _ => false end
  | TAny => match s with SNode => true | _ => false end
  | TEnum _ _ r =>
      match s, r with
      | SString, _ => true
      | SInt _, ERInt => true
      | _, _ => false
      end
  | TList _ e nl =>
      let elem := match s with SSlice _ es => Some es | SBytes => Some (SInt U8) | _ => None end in
      match elem with
      | None => false
      | Some es =>
          if nl then match nilable_elem es with Some es1 => verify_compat e es1 | None => false end
          else verify_compat e es
      end
  | TMap _ k v nl =>
      match s with
      | SStruct _ [(_, fk); (_, SGoMap mk mv)] =>
          (match fk with
           | SSlice _ ks => verify_compat k ks
           | SBytes => verify_compat k (SInt U8)
           | _ => false
           end)
          && verify_compat k mk
          && (if nl then match nilable_elem mv with Some mv1 => verify_compat v mv1 | None => false end
              else verify_compat v mv)
      | _ => false
      end
  | TStruct _ fs _ =>
      match s with SStruct _ ss => vc_fields (fun f => verify_compat (f_type f)) fs ss | _ => false end
  | TUnion _ ms _ =>
      match s with SStruct _ ss => vc_members (fun m => verify_compat (snd m)) ms ss | _ => false end
  end.

(* ---- inferGoType (infer.go) ----------------------------------------------------------------- *)

Definition wrap_ptr (b : bool) (s : shape) : shape := if b then SPtr s else s.

Definition ig_fields (ig : fld -> bres shape) : list fld -> bres (list (bytes * shape)) :=
  fix go (fs : list fld) : bres (list (bytes * shape)) :=
  match fs with
  | [] => Ok []
  | f :: fs' =>
      do s <- ig f;
      (* fieldNameFromSchema runs after the field's type was inferred *)
      if negb (is_ident (title (f_name f))) then Err PReflect else
      do r <- go fs';
      Ok ((title (f_name f), wrap_ptr (f_opt f) (wrap_ptr (f_nul f) s)) :: r)
  end.

Definition ig_members (ig : bytes * sty -> bres shape) : list (bytes * sty) -> bres (list (bytes * shape)) :=
  fix go (ms : list (bytes * sty)) : bres (list (bytes * shape)) :=
  match ms with
  | [] => Ok []
  | m :: ms' =>
      do s <- ig m;
      if negb (is_ident (title (sty_name (snd m)))) then Err PReflect else
      do r <- go ms';
      Ok ((title (sty_name (snd m)), SPtr s) :: r)
  end.

Fixpoint infer_gotype (t : sty) {struct t} : bres shape :=
  match t with
  | TBool => Ok SBool
  | TInt => Ok (SInt IInt)
  | TFloat => Ok (SFloat false)
  | TString => Ok SString
  | TBytes => Ok SBytes
  | TLink => Ok (SLink LIface)
  | TAny => Ok SNode
  | TEnum _ _ _ => Ok SString
  | TList _ e nl => do es <- infer_gotype e; Ok (SSlice [] (wrap_ptr nl es))
  | TMap _ k v nl =>
      do ks <- infer_gotype k;
      do vs <- infer_gotype v;
      Ok (SStruct [] [(str_Keys, SSlice [] ks); (str_Values, SGoMap ks (wrap_ptr nl vs))])
  | TStruct _ fs _ => do ss <- ig_fields (fun f => infer_gotype (f_type f)) fs; Ok (SStruct [] ss)
  | TUnion _ ms _ => do ss <- ig_members (fun m => infer_gotype (snd m)) ms; Ok (SStruct [] ss)
  end.

(* ---- inferSchema (infer.go) over the global registry ---------------------------------------- *)

(* defaultTypeSystem: the names Accumulate has seen, in order; init() registers the seven prims *)
Definition registry := list bytes.
Definition registry0 : registry := [str_Bool; str_Int; str_Float; str_String; str_Bytes; str_Link; str_Any].

Fixpoint reg_mem (n : bytes) (r : registry) : bool :=
  match r with [] => false | x :: r' => bytes_eqb n x || reg_mem n r' end.

(* TypeSystem.Accumulate: panics on a duplicate name (the registry is unchanged then) *)
Definition accumulate (q : quirks) (n : bytes) (r : registry) : registry * bres unit :=
  if reg_mem n r then (r, if q_reuse_registered q then Ok tt else Err PDup)
  else (r ++ [n], Ok tt).

(* the registry survives a panic: partial registrations of nested types persist *)
Definition is_fields (is : bytes * shape -> registry -> registry * bres sty)
  : list (bytes * shape) -> registry -> registry * bres (list fld) :=
  fix go (ss : list (bytes * shape)) (r : registry) {struct ss} : registry * bres (list fld) :=
  match ss with
  | [] => (r, Ok [])
  | (n, s) :: ss' =>
      match is (n, s) r with
      | (r1, Err e) => (r1, Err e)
      | (r1, Ok t) =>
          match go ss' r1 with
          | (r2, Err e) => (r2, Err e)
          | (r2, Ok fs) => (r2, Ok ((n, n, t, false, false) :: fs))
          end
      end
  end.

Fixpoint infer_schema (q : quirks) (s : shape) (r : registry) {struct s} : registry * bres sty :=
  match s with
  | SBool => (r, Ok TBool)
  | SInt I64 => (r, Ok TInt)
  | SInt _ => (r, Err PInfer)
  | SFloat false => (r, Ok TFloat)
  | SFloat true => (r, Err PInfer)
  | SString => (r, Ok TString)
  | SBytes => (r, Ok TBytes)
  | SLink _ => (r, Ok TLink)
  | SNode => (r, Ok TAny)
  | SPtr _ => (r, Err PInfer)
  | SGoMap _ _ => (r, Err PInfer)
  | SStruct name ss =>
      match is_fields (fun ns => infer_schema q (snd ns)) ss r with
      | (r1, Err e) => (r1, Err e)
      | (r1, Ok fs) =>
          match name with
          | [] => (r1, Err PInfer)                       (* "TODO: anonymous composite types" *)
          | _ =>
              match accumulate q name r1 with
              | (r2, Err e) => (r2, Err e)
              | (r2, Ok _) => (r2, Ok (TStruct name fs SRMap))
              end
          end
      end
  | SSlice name es =>
      let nl := shape_is_ptr es in
      match infer_schema q es r with
      | (r1, Err e) => (r1, Err e)
      | (r1, Ok et) =>
          let n := match name with [] => str_List_ ++ sty_name et | _ => name end in
          match accumulate q n r1 with
          | (r2, Err e) => (r2, Err e)
          | (r2, Ok _) => (r2, Ok (TList n et nl))
          end
      end
  end.

(* ---- reading: the node view (node.go / repr.go as walked by lib.Dump) ----------------------- *)

(* nonPtrVal: one level of pointer is followed; a nil pointer gives the invalid reflect.Value, on
   which every accessor panics *)
Definition nonptr (s : shape) (g : gv) : bres (shape * gv) :=
  match s with
  | SPtr s1 => match g with GPtr v => Ok (s1, v) | _ => Err PReflect end
  | _ => Ok (s, g)
  end.

(* val.IsNil(): panics on a kind that cannot be nil *)
Definition is_nil (s : shape) (g : gv) : bres bool :=
  if shape_nilable s then Ok (match g with GNil => true | _ => false end) else Err PReflect.

(* "if val.Kind() == reflect.Ptr { val = val.Elem() }" on a non-nil value *)
Definition elem_if_ptr (s : shape) (g : gv) : shape * gv :=
  match s, g with
  | SPtr s1, GPtr v => (s1, v)
  | _, _ => (s, g)
  end.

(* val.Elem() as used for nullable list elements / map values: panics unless pointer (or interface) *)
Definition elem_strict (s : shape) (g : gv) : bres (shape * gv) :=
  match s, g with
  | SPtr s1, GPtr v => Ok (s1, v)
  | SNode, GNode _ => Ok (s, g)       (* Elem() of a non-nil interface value: the dynamic value *)
  | SLink LIface, GLink _ => Ok (s, g)
  | _, _ => Err PReflect
  end.

(* "nonPtrVal(val).Interface().(datamodel.Node)" *)
Definition any_node (s : shape) (g : gv) : bres dm :=
  do sg <- nonptr s g;
  match snd sg with GNode d => Ok d | _ => Err PReflect end.

Definition is_any (t : sty) : bool := match t with TAny => true | _ => false end.

Fixpoint enum_by_name (n : bytes) (ms : list (bytes * bytes * Z)) : option (bytes * Z) :=
  match ms with
  | [] => None
  | (m, sr, ir) :: r => if bytes_eqb n m then Some (sr, ir) else enum_by_name n r
  end.
Fixpoint enum_by_int (i : Z) (ms : list (bytes * bytes * Z)) : option bytes :=
  match ms with
  | [] => None
  | (m, _, ir) :: r => if Z.eqb i ir then Some m else enum_by_int i r
  end.
Fixpoint enum_by_repr (s : bytes) (ms : list (bytes * bytes * Z)) : option bytes :=
  match ms with
  | [] => None
  | (m, sr, _) :: r => if bytes_eqb s sr then Some m else enum_by_repr s r
  end.

(* unionMember: index and content of the first non-nil field; every field must be a pointer *)
Fixpoint union_member (ss : list (bytes * shape)) (gs : list gv) (i : nat) : bres (option (nat * shape * gv)) :=
  match ss, gs with
  | (_, SPtr s1) :: ss', g :: gs' =>
      match g with
      | GPtr v => Ok (Some (i, s1, v))
      | _ => union_member ss' gs' (S i)
      end
  | (_, _) :: _, _ :: _ => Err PReflect      (* "found unexpected non-pointer in a union field" *)
  | _, _ => Ok None
  end.

Section View.
  Variable q : quirks.
  Variable lv : level.

  (* AsInt / AsUint on a Go integer, as lib.Dump reads it *)
  Definition view_int (k : ikind) (z : Z) : bres dm :=
    match k with
    | U64 => Ok (DInt z)                               (* _uintNode: AsUint *)
    | UInt => if q_uint_kind q then Ok (DInt z)
              else if (z <? two63z)%Z then Ok (DInt z) else Err XOverflow
    | _ => Ok (DInt z)
    end.

  Definition view_enum (ms : list (bytes * bytes * Z)) (r : erepr) (s : shape) (g : gv) : bres dm :=
    match lv with
    | LType =>
        (* _node.AsString: nonPtrVal(val).String(); reflect renders a non-string as "<kind Value>" *)
        match s, g with
        | SString, GString x => Ok (DString x)
        | SInt k, GInt _ => Ok (DString (reflect_nonstring k))
        | _, _ => Err PReflect
        end
    | LRepr =>
        match r, s, g with
        | ERString, SString, GString x =>
            match enum_by_name x ms with Some (sr, _) => Ok (DString sr) | None => Err XOther end
        | ERInt, SString, GString x =>
            match enum_by_name x ms with Some (_, ir) => Ok (DInt ir) | None => Err XOther end
        | ERInt, SInt _, GInt z =>
            match enum_by_int z ms with Some _ => Ok (DInt z) | None => Err XOther end
        | _, _, _ => Err PReflect
        end
    end.

  (* a child position (list element, map value, struct field after the optional step): nullable
     handling, Any short-cut, then the child's own view.  [strict] selects val.Elem() (lists, maps)
     versus "deref if pointer" (struct fields). *)
  Definition view_child (view : shape -> gv -> bres dm) (strict : bool)
             (any : bool) (nl : bool) (s : shape) (g : gv) : bres dm :=
    if nl then
      do n <- is_nil s g;
      if n then Ok DNull else
      do sg <- (if strict then elem_strict s g else Ok (elem_if_ptr s g));
      if any then any_node (fst sg) (snd sg) else view (fst sg) (snd sg)
    else
      if any then any_node s g else view s g.

  (* struct fields, in declaration order; absent optional fields are skipped (the dumper skips
     values whose IsAbsent() is true).  Result: (field, value) list. *)
  Definition view_fields (view : fld -> shape -> gv -> bres dm)
    : list fld -> list (bytes * shape) -> list gv -> bres (list (fld * dm)) :=
    fix go (fs : list fld) (ss : list (bytes * shape)) (gs : list gv) {struct fs} : bres (list (fld * dm)) :=
    match fs, ss, gs with
    | [], _, _ => Ok []
    | f :: fs', (_, s) :: ss', g :: gs' =>
        do here <-
          (if f_opt f then
             do n <- is_nil s g;
             if n then Ok None else
             let sg := elem_if_ptr s g in
             do d <- view_child (view f) false (is_any (f_type f)) (f_nul f) (fst sg) (snd sg); Ok (Some d)
           else
             do d <- view_child (view f) false (is_any (f_type f)) (f_nul f) s g; Ok (Some d));
        do rest <- go fs' ss' gs';
        Ok (match here with Some d => (f, d) :: rest | None => rest end)
    | _, _, _ => Err PReflect
    end.

  (* the union's single entry *)
  Definition with_nth {A R} (body : A -> R) (none : R) : list A -> nat -> R :=
    fix go (l : list A) (i : nat) : R :=
    match l, i with
    | [], _ => none
    | m :: _, O => body m
    | _ :: r, S i' => go r i'
    end.

  (* tuple representation: trailing absent fields are cut, an absent field elsewhere shows as the
     Absent node, which reads as kind Null *)
  Definition view_tuple (view : fld -> shape -> gv -> bres dm)
    : list fld -> list (bytes * shape) -> list gv -> bres (list dm) :=
    fix go (fs : list fld) (ss : list (bytes * shape)) (gs : list gv) {struct fs} : bres (list dm) :=
    match fs, ss, gs with
    | [], _, _ => Ok []
    | f :: fs', (_, s) :: ss', g :: gs' =>
        do here <-
          (if f_opt f then
             do n <- is_nil s g;
             if n then Ok None else
             let sg := elem_if_ptr s g in
             do d <- view_child (view f) false (is_any (f_type f)) (f_nul f) (fst sg) (snd sg); Ok (Some d)
           else
             do d <- view_child (view f) false (is_any (f_type f)) (f_nul f) s g; Ok (Some d));
        do rest <- go fs' ss' gs';
        Ok (match here, rest with
            | Some d, _ => d :: rest
            | None, [] => []
            | None, _ => DNull :: rest
            end)
    | _, _, _ => Err PReflect
    end.

  Fixpoint view (t : sty) (s0 : shape) (g0 : gv) {struct t} : bres dm :=
    do sg <- nonptr s0 g0;
    let s := fst sg in
    let g := snd sg in
    match t with
    | TBool => match g with GBool b => Ok (DBool b) | _ => Err PReflect end
    | TInt =>
        match s, g with
        | SInt k, GInt z => view_int k z
        | _, _ => Err PReflect
        end
    | TFloat => match g with GFloat b => Ok (DFloat b) | _ => Err PReflect end
    | TString => match g with GString x => Ok (DString x) | _ => Err PReflect end
    | TBytes => match g with GBytes x => Ok (DBytes x) | GNil => Ok (DBytes []) | _ => Err PReflect end
    | TLink => match g with GLink c => Ok (DLink c) | GNil => Err XOther | _ => Err PReflect end
    | TAny => Err XOther                       (* a bare Any node has no kind; never produced by a walk *)
    | TEnum _ ms r => view_enum ms r s g
    | TList _ e nl =>
        match s, g with
        | SSlice _ es, GSlice l => do ds <- mapM (view_child (view e) true (is_any e) nl es) l; Ok (DList ds)
        | SSlice _ _, GNil => Ok (DList [])
        | _, _ => Err PReflect
        end
    | TMap _ kt vt nl =>
        match s, g with
        | SStruct _ [(_, SSlice _ ks); (_, SGoMap _ vs)], GStruct [gk; gm] =>
            let keys := match gk with GSlice l => l | _ => [] end in
            let m := match gm with GGoMap m => m | _ => [] end in
            do es <- mapM (fun k =>
                             do kd <- view kt ks k;
                             match kd with
                             | DString kb =>
                                 match gomap_get k m with
                                 | None => Err PReflect        (* MapIndex: invalid value *)
                                 | Some v => do vd <- view_child (view vt) true (is_any vt) nl vs v; Ok (kb, vd)
                                 end
                             | _ => Err XOther                 (* dumper: key is not a string *)
                             end) keys;
            Ok (DMap es)
        | _, _ => Err PReflect
        end
    | TStruct _ fs r =>
        match s, g with
        | SStruct _ ss, GStruct gs =>
            match lv, r with
            | LRepr, SRTuple => do ds <- view_tuple (fun f => view (f_type f)) fs ss gs; Ok (DList ds)
            | LRepr, SRMap =>
                do es <- view_fields (fun f => view (f_type f)) fs ss gs; Ok (DMap (map (fun e => (f_rkey (fst e), snd e)) es))
            | LType, _ =>
                do es <- view_fields (fun f => view (f_type f)) fs ss gs; Ok (DMap (map (fun e => (f_name (fst e), snd e)) es))
            end
        | _, _ => Err PReflect
        end
    | TUnion _ ms r =>
        match s, g with
        | SStruct _ ss, GStruct gs =>
            do m <- union_member ss gs O;
            match m with
            | None => match lv, r with
                      | LRepr, URKinded | LRepr, URStringprefix => Err PReflect
                      | _, _ => Err XUnion
                      end
            | Some (i, ms1, mv) =>
                with_nth
                  (fun m : bytes * sty =>
                     do d <- view (snd m) ms1 mv;
                     match lv, r with
                     | LRepr, URKinded => Ok d
                     | LRepr, URKeyed => Ok (DMap [(fst m, d)])
                     | LRepr, URStringprefix =>
                         (* discriminant ++ the member's own string representation *)
                         match d with DString x => Ok (DString (fst m ++ x)) | _ => Err XWrongKind end
                     | LType, _ => Ok (DMap [(sty_name (snd m), d)])
                     end)
                  (Err PReflect) ms i
            end
        | _, _ => Err PReflect
        end
    end.
End View.

(* ---- writing: the assembler (node.go / repr.go as driven by lib.Assemble) -------------------- *)

(* data model kind names as they appear in a kinded union's table *)
Definition kind_name (d : dm) : bytes :=
  match d with
  | DNull => [110;117;108;108]
  | DBool _ => [98;111;111;108]
  | DInt _ => [105;110;116]
  | DFloat _ => [102;108;111;97;116]
  | DString _ => [115;116;114;105;110;103]
  | DBytes _ => [98;121;116;101;115]
  | DLink _ => [108;105;110;107]
  | DList _ => [108;105;115;116]
  | DMap _ => [109;97;112]
  end.

(* createNonPtrVal + Set: a pointer location gets a fresh allocation holding the new content *)
Definition put (s : shape) (x : gv) : gv := match s with SPtr _ => GPtr x | _ => x end.
(* the content createNonPtrVal exposes for in-place building (structs, slices): existing content of
   a non-pointer location, a fresh zero behind a pointer *)
Definition inner (s : shape) (cur : gv) : shape * gv :=
  match s with SPtr s1 => (s1, zero_of s1) | _ => (s, cur) end.

Fixpoint find_field (k : bytes) (fs : list fld) (i : nat) : option (nat * fld) :=
  match fs with
  | [] => None
  | f :: r => if bytes_eqb k (f_name f) then Some (i, f) else find_field k r (S i)
  end.
Fixpoint find_rkey (k : bytes) (fs : list fld) : option bytes :=
  match fs with
  | [] => None
  | f :: r => if bytes_eqb k (f_rkey f) then Some (f_name f) else find_rkey k r
  end.
Fixpoint find_member_by_name (k : bytes) (ms : list (bytes * sty)) (i : nat) : option (nat * sty) :=
  match ms with
  | [] => None
  | (_, t) :: r => if bytes_eqb k (sty_name t) then Some (i, t) else find_member_by_name k r (S i)
  end.
Fixpoint find_member_by_disc (k : bytes) (ms : list (bytes * sty)) (i : nat) : option (nat * sty) :=
  match ms with
  | [] => None
  | (d, t) :: r => if bytes_eqb k d then Some (i, t) else find_member_by_disc k r (S i)
  end.

Definition nth_shape (i : nat) (ss : list (bytes * shape)) : shape := snd (nth i ss ([], SBool)).

(* unionSetMember: zero the struct, set the one pointer *)
Definition union_set (ss : list (bytes * shape)) (i : nat) (v : gv) : gv :=
  GStruct (set_nth i (GPtr v) (map (fun _ => GNil) ss)).

Fixpoint missing_required (fs : list fld) (done : list bool) : bool :=
  match fs, done with
  | f :: fs', b :: done' => (negb (f_opt f) && negb b) || missing_required fs' done'
  | _, _ => false
  end.

Section Asm.
  Variable q : quirks.
  Variable lv : level.
  Variable narrow32 : N -> N.      (* float64 -> float32 -> float64 on bit patterns (Go's float32(x)) *)

  (* AssignInt (z < 2^63) / assignUInt (z >= 2^63) into a Go integer location.  [s] is the shape of
     w.val itself: kindUint[w.val.Kind()] looks at the pointer kind when the location is a pointer,
     so a *uintN location takes the SetInt branch, which panics in reflect. *)
  Definition asm_int (s : shape) (z : Z) : bres gv :=
    let target := deref1 s in
    match target with
    | SInt k =>
        let big := (two63z <=? z)%Z in
        let is_u := if q_ptr_uint q then ik_unsigned k
                    else match s with SInt k' => ik_unsigned k' | _ => false end in
        if is_u then
          if (z <? 0)%Z then Err XNegUint
          else if q_range_check q && negb (ik_in k z) then Err XRange
          else Ok (put s (GInt (ik_narrow k z)))
        else
          if ik_unsigned k then Err PReflect       (* SetInt on a uint behind a pointer *)
          else if q_range_check q && negb (ik_in k z) then Err XRange
          else Ok (put s (GInt (ik_narrow k (if big then z - two64z else z))))
    | _ => Err PReflect
    end.

  Definition asm_scalar (t : sty) (s : shape) (d : dm) : bres gv :=
    match t, d with
    | TAny, _ => Ok (put s (GNode d))
    | TBool, DBool b => Ok (put s (GBool b))
    | TInt, DInt z => asm_int s z
    | TFloat, DFloat b =>
        match deref1 s with
        | SFloat true => Ok (put s (GFloat (narrow32 b)))
        | _ => Ok (put s (GFloat b))
        end
    | TString, DString x => Ok (put s (GString x))
    | TBytes, DBytes x => Ok (put s (match x with [] => GNil | _ => GBytes x end))
    | TLink, DLink c => Ok (put s (GLink c))
    | _, _ => Err XWrongKind
    end.

  (* enum assignment *)
  Definition asm_enum (ms : list (bytes * bytes * Z)) (r : erepr) (s : shape) (d : dm) : bres gv :=
    let set_string (m : bytes) : bres gv :=
      match deref1 s with SString => Ok (put s (GString m)) | _ => Err PReflect end in
    match lv, r, d with
    | LType, _, DString x => set_string x                  (* no membership check at type level *)
    | LType, _, _ => Err XWrongKind
    | LRepr, ERString, DString x =>
        match enum_by_repr x ms with
        | Some m => set_string m
        | None => match enum_by_name x ms with Some _ => set_string x | None => Err XOther end
        end
    | LRepr, ERString, _ => Err XWrongKind
    | LRepr, ERInt, DInt z =>
        if (two63z <=? z)%Z then Err XOther else
        match enum_by_int z ms with
        | None => Err XOther
        | Some m =>
            match deref1 s with
            | SString => Ok (put s (GString m))
            | SInt k => if ik_unsigned k && (z <? 0)%Z then Err XOther else Ok (put s (GInt (ik_narrow k z)))
            | _ => Err XOther
            end
        end
    | LRepr, ERInt, _ => Err XWrongKind
    end.

  (* list elements appended to the existing slice content *)
  Definition asm_elems (f : dm -> bres gv) : list dm -> bres (list gv) := mapM f.

  (* one struct entry: (field index, schema field) already resolved; [asm_val] assembles the value
     into a location of the given shape and current content *)
  Definition asm_field (asmv : shape -> gv -> bool -> dm -> bres gv)
             (f : fld) (fs_shape : shape) (cur : gv) (v : dm) : bres gv :=
    if f_opt f then
      match fs_shape with
      | SPtr s1 => do x <- asmv s1 (zero_of s1) (f_nul f) v; Ok (GPtr x)
      | _ => asmv fs_shape (zero_of fs_shape) (f_nul f) v
      end
    else asmv fs_shape cur (f_nul f) v.

  (* with_field k fs body: resolve a type-level field name *)
  Definition with_field {R} (k : bytes) (body : nat -> fld -> R) (none : R) : list fld -> nat -> R :=
    fix go (fs : list fld) (i : nat) : R :=
    match fs with
    | [] => none
    | f :: r => if bytes_eqb k (f_name f) then body i f else go r (S i)
    end.

  Definition with_member {R} (byname : bool) (k : bytes) (body : nat -> bytes * sty -> R) (none : R)
    : list (bytes * sty) -> nat -> R :=
    fix go (ms : list (bytes * sty)) (i : nat) : R :=
    match ms with
    | [] => none
    | m :: r =>
        if bytes_eqb k (if byname then sty_name (snd m) else fst m) then body i m
        else go r (S i)
    end.

  Fixpoint has_prefix (p s : bytes) : bool :=
    match p, s with
    | [], _ => true
    | a :: p', b :: s' => (a =? b) && has_prefix p' s'
    | _ :: _, [] => false
    end.

  Definition with_prefix {R} (x : bytes) (body : nat -> bytes * sty -> R) (none : R)
    : list (bytes * sty) -> nat -> R :=
    fix go (ms : list (bytes * sty)) (i : nat) : R :=
    match ms with
    | [] => none
    | m :: r => if has_prefix (fst m) x then body i m else go r (S i)
    end.

  (* struct entries over (content, done flags) *)
  Definition asm_entries (one : bytes -> dm -> list gv -> list bool -> bres (list gv * list bool))
    : list (bytes * dm) -> list gv -> list bool -> bres (list gv * list bool) :=
    fix go (m : list (bytes * dm)) (gs : list gv) (done : list bool) : bres (list gv * list bool) :=
    match m with
    | [] => Ok (gs, done)
    | (k, v) :: r => do st <- one k v gs done; go r (fst st) (snd st)
    end.

  (* tuple: the i-th list element goes to the i-th field *)
  Definition asm_tuple (asmv : fld -> shape -> gv -> bool -> dm -> bres gv)
    : list fld -> list (bytes * shape) -> list gv -> list dm -> bres (list gv * list bool) :=
    fix go (fs : list fld) (ss : list (bytes * shape)) (gs : list gv) (l : list dm) {struct fs}
    : bres (list gv * list bool) :=
    match l with
    | [] => Ok (gs, map (fun _ => false) fs)
    | x :: l' =>
        match fs, ss, gs with
        | f :: fs', (_, s) :: ss', g :: gs' =>
            do g1 <- asm_field (asmv f) f s g x;
            do rest <- go fs' ss' gs' l';
            Ok (g1 :: fst rest, true :: snd rest)
        | _, _, _ => Err XOther                              (* more elements than fields *)
        end
    end.

  (* map entries: Keys append, Values[k] = v *)
  Definition asm_map_entries (one : bytes -> dm -> bres (gv * gv))
    : list (bytes * dm) -> list gv -> list (gv * gv) -> bres (list gv * list (gv * gv)) :=
    fix go (m : list (bytes * dm)) (keys : list gv) (vals : list (gv * gv)) : bres (list gv * list (gv * gv)) :=
    match m with
    | [] => Ok (keys, vals)
    | (k, v) :: r =>
        do kv <- one k v;
        go r (keys ++ [fst kv]) (gomap_set (fst kv) (snd kv) vals)
    end.

  (* union entries: each entry replaces the member; the last one wins *)
  Definition asm_union_entries (one : bytes -> dm -> bres gv)
    : list (bytes * dm) -> option gv -> bres (option gv) :=
    fix go (m : list (bytes * dm)) (cur : option gv) : bres (option gv) :=
    match m with
    | [] => Ok cur
    | (k, v) :: r => do g <- one k v; go r (Some g)
    end.

  Fixpoint asm (t : sty) (s : shape) (cur : gv) (nullable : bool) (d : dm) {struct t} : bres gv :=
    match d with
    | DNull =>
        (* AssignNull is never dispatched through a kinded union *)
        if nullable then Ok (zero_of s) else Err XWrongKind
    | _ =>
    match t with
    | TBool | TInt | TFloat | TString | TBytes | TLink | TAny => asm_scalar t s d
    | TEnum _ ms r => asm_enum ms r s d
    | TList _ e nl =>
        match d with
        | DList l =>
            let sc := inner s cur in
            match fst sc with
            | SSlice _ es =>
                do gs <- asm_elems (asm e es (zero_of es) nl) l;
                let old := match snd sc with GSlice o => o | _ => [] end in
                Ok (put s (match old ++ gs with [] => snd sc | all => GSlice all end))
            | _ => Err PReflect
            end
        | _ => Err XWrongKind
        end
    | TMap _ kt vt nl =>
        match d with
        | DMap m =>
            let sc := inner s cur in
            match fst sc, snd sc with
            | SStruct _ [(_, SSlice _ ks); (_, SGoMap mk mv)], GStruct [gk; gm] =>
                let keys0 := match gk with GSlice l => l | _ => [] end in
                let vals0 := match gm with GGoMap x => x | _ => [] end in
                do kv <- asm_map_entries
                           (fun k v =>
                              do kg <- asm kt mk (zero_of mk) false (DString k);
                              do vg <- asm vt mv (zero_of mv) nl v;
                              Ok (kg, vg)) m keys0 vals0;
                Ok (put s (GStruct [match fst kv with [] => gk | ks' => GSlice ks' end; GGoMap (snd kv)]))
            | _, _ => Err PReflect
            end
        | _ => Err XWrongKind
        end
    | TStruct _ fs r =>
        let sc := inner s cur in
        match fst sc, snd sc with
        | SStruct _ ss, GStruct gs0 =>
            let finish (st : list gv * list bool) : bres gv :=
              if missing_required fs (snd st) then Err XMissing else Ok (put s (GStruct (fst st))) in
            let done0 := map (fun _ => false) fs in
            let by_name (k : bytes) (v : dm) (gs : list gv) (done : list bool) :=
              with_field k
                (fun i f =>
                   do g1 <- asm_field (asm (f_type f)) f (nth_shape i ss) (nth_gv i gs) v;
                   Ok (set_nth i g1 gs, set_nth i true done))
                (Err XInvalidKey) fs O in
            match lv, r, d with
            | LRepr, SRTuple, DList l => do st <- asm_tuple (fun f => asm (f_type f)) fs ss gs0 l; finish st
            | LRepr, SRTuple, _ => Err XWrongKind
            | LRepr, SRMap, DMap m =>
                do st <- asm_entries
                           (fun k v gs done =>
                              by_name (match find_rkey k fs with Some n => n | None => k end) v gs done)
                           m gs0 done0;
                finish st
            | LType, _, DMap m => do st <- asm_entries by_name m gs0 done0; finish st
            | _, _, _ => Err XWrongKind
            end
        | _, _ => Err PReflect
        end
    | TUnion _ ms r =>
        let sc := inner s cur in
        match fst sc with
        | SStruct _ ss =>
            let member (byname : bool) (k : bytes) (v : dm) : bres gv :=
              with_member byname k
                (fun i m =>
                   match nth_shape i ss with
                   | SPtr ms1 => do x <- asm (snd m) ms1 (zero_of ms1) false v; Ok (union_set ss i x)
                   | _ => Err PReflect
                   end)
                (Err XUnion) ms O in
            match lv, r, d with
            | LRepr, URKinded, _ =>
                (* asKinded: the member whose declared kind is the kind of the data; on the pinned tree
                   it indexes w.val.Field(idx) without createNonPtrVal, so a pointer location panics *)
                if shape_is_ptr s && negb (q_union_ptr q) then Err PReflect else
                with_member false (kind_name d)
                  (fun i m =>
                     match nth_shape i ss with
                     | SPtr ms1 => do x <- asm (snd m) ms1 (zero_of ms1) false d; Ok (put s (union_set ss i x))
                     | _ => Err PReflect
                     end)
                  (Err XWrongKind) ms O
            | LRepr, URStringprefix, DString x =>
                (* the first member whose discriminant is a prefix of the string gets the remainder *)
                if shape_is_ptr s && negb (q_union_ptr q) then Err PReflect else
                with_prefix x
                  (fun i m =>
                     match nth_shape i ss with
                     | SPtr ms1 =>
                         do g <- asm (snd m) ms1 (zero_of ms1) false (DString (skipn (length (fst m)) x));
                         Ok (put s (union_set ss i g))
                     | _ => Err PReflect
                     end)
                  (Err XOther) ms O
            | LRepr, URStringprefix, DMap _ => Err XOther      (* "bindnode AssembleKey / Finish TODO" *)
            | LRepr, URKeyed, DMap m =>
                do o <- asm_union_entries
                          (fun k v =>
                             match find_member_by_disc k ms O with
                             | Some _ => member false k v
                             | None => member true k v          (* the type name is accepted too *)
                             end) m None;
                match o with Some g => Ok (put s g) | None => Err XUnion end
            | LType, _, DMap m =>
                do o <- asm_union_entries (member true) m None;
                match o with Some g => Ok (put s g) | None => Err XUnion end
            | _, _, _ => Err XWrongKind
            end
        | _ => Err PReflect
        end
    end
    end.
End Asm.

(* ---- the API calls over the registry -------------------------------------------------------- *)

(* the schema argument of Wrap / Prototype / Marshal / Unmarshal: explicit, or nil (inferred) *)
Inductive schema_arg := Explicit (t : sty) | Inferred.

(* resolve the schema for a Go type: verifyCompatibility or inferSchema; root must not be a pointer *)
Definition resolve (q : quirks) (a : schema_arg) (s : shape) (r : registry) : registry * bres sty :=
  match s with
  | SPtr _ => (r, Err PReflect)
  | _ =>
      match a with
      | Explicit t => (r, if verify_compat t s then Ok t else Err PCompat)
      | Inferred => infer_schema q s r
      end
  end.

Inductive call :=
| CWrap (a : schema_arg) (s : shape) (g : gv)                   (* Wrap(&v, t): observe both views *)
| CBuild (a : schema_arg) (lv : level) (s : shape) (d : dm)                  (* Prototype(nil pointer of type T, t), build d, Unwrap *)
| CMarshal (a : schema_arg) (s : shape) (g : gv)                (* ipld.Marshal: the representation handed to the encoder *)
| CUnmarshal (a : schema_arg) (s : shape) (d : dm)              (* ipld.Unmarshal of the encoding of d into a fresh value *)
| CBuildGo (t : sty) (d : dm).                                  (* Prototype(nil, t): Go type inferred from the schema, build d *)

Inductive outcome :=
| OView (ty rp : bres dm)       (* type-level and representation-level view *)
| OValue (g : bres gv)          (* the Go value produced *)
| ORepr (d : bres dm)
| OFail (e : berr).             (* the call itself panicked / failed before producing a node *)

Section Step.
  Variable q : quirks.
  Variable narrow32 : N -> N.

  Definition step (r : registry) (c : call) : registry * outcome :=
    match c with
    | CWrap a s g =>
        match resolve q a s r with
        | (r1, Err e) => (r1, OFail e)
        | (r1, Ok t) => (r1, OView (view q LType t s g) (view q LRepr t s g))
        end
    | CBuild a lv s d =>
        match resolve q a s r with
        | (r1, Err e) => (r1, OFail e)
        | (r1, Ok t) => (r1, OValue (asm q lv narrow32 t s (zero_of s) false d))
        end
    | CBuildGo t d =>
        match infer_gotype t with
        | Err e => (r, OFail e)
        | Ok s => (r, OValue (asm q LType narrow32 t s (zero_of s) false d))
        end
    | CMarshal a s g =>
        match resolve q a s r with
        | (r1, Err e) => (r1, OFail e)
        | (r1, Ok t) => (r1, ORepr (view q LRepr t s g))
        end
    | CUnmarshal a s d =>
        (* Prototype(bind, typ) ... decode ... Wrap(bind, typ): the schema is resolved twice *)
        match resolve q a s r with
        | (r1, Err e) => (r1, OFail e)
        | (r1, Ok t) =>
            match asm q LRepr narrow32 t s (zero_of s) false d with
            | Err e => (r1, OValue (Err e))          (* decode error: returned before the re-Wrap *)
            | Ok g =>
                match resolve q a s r1 with
                | (r2, Err e) => (r2, OFail e)
                | (r2, Ok _) => (r2, OValue (Ok g))
                end
            end
        end
    end.

  Fixpoint run (r : registry) (cs : list call) : list outcome :=
    match cs with
    | [] => []
    | c :: cs' => let ro := step r c in snd ro :: run (fst ro) cs'
    end.
End Step.
