(* Bind/Spec.v — the specification side of C19: what a Go value *means* as data of a schema type
   ([denote], total, shape-free, no error paths), which (schema type, Go type) pairs are inside the
   supported binding vocabulary ([bindable], a strengthening of verifyCompatibility that leaves out
   the pairs on which the pinned code is known to misbehave), which Go values are well formed
   ([gv_ok]) and which data trees a type can hold ([fits]).  MODEL file: definitions only. *)
Require Import IP.Base.Bytes IP.DM.Value IP.Bind.GoVal IP.Bind.Bind.
Open Scope N_scope.

Definition unptr (g : gv) : gv := match g with GPtr v => v | _ => g end.

Section Denote.
  Variable lv : level.

  (* a position that may be null: nil means null, otherwise one pointer level is dropped *)
  Definition den_child (den : gv -> dm) (nl : bool) (g : gv) : dm :=
    if nl then match g with GNil => DNull | _ => den (unptr g) end else den g.

  (* struct field: None = absent *)
  Definition den_field (den : gv -> dm) (opt nl : bool) (g : gv) : option dm :=
    if opt then match g with GNil => None | _ => Some (den_child den nl (unptr g)) end
    else Some (den_child den nl g).

  Definition den_fields (den : fld -> gv -> dm) : list fld -> list gv -> list (fld * dm) :=
    fix go (fs : list fld) (gs : list gv) : list (fld * dm) :=
    match fs, gs with
    | f :: fs', g :: gs' =>
        match den_field (den f) (f_opt f) (f_nul f) g with
        | Some d => (f, d) :: go fs' gs'
        | None => go fs' gs'
        end
    | _, _ => []
    end.

  (* tuple: trailing absents are cut (an absent elsewhere has no tuple form; it shows as null) *)
  Definition den_tuple (den : fld -> gv -> dm) : list fld -> list gv -> list dm :=
    fix go (fs : list fld) (gs : list gv) : list dm :=
    match fs, gs with
    | f :: fs', g :: gs' =>
        match den_field (den f) (f_opt f) (f_nul f) g, go fs' gs' with
        | Some d, rest => d :: rest
        | None, [] => []
        | None, rest => DNull :: rest
        end
    | _, _ => []
    end.

  Definition den_union (den : bytes * sty -> gv -> dm) (wrapm : bytes * sty -> dm -> dm)
    : list (bytes * sty) -> list gv -> dm :=
    fix go (ms : list (bytes * sty)) (gs : list gv) : dm :=
    match ms, gs with
    | m :: ms', g :: gs' =>
        match g with
        | GPtr v => wrapm m (den m v)
        | _ => go ms' gs'
        end
    | _, _ => DNull
    end.

  Definition den_enum (ms : list (bytes * bytes * Z)) (r : erepr) (g : gv) : dm :=
    let name := match g with
                | GString x => Some x
                | GInt z => enum_by_int z ms
                | _ => None
                end in
    match name with
    | None => DNull
    | Some n =>
        match lv, r with
        | LType, _ => DString n
        | LRepr, ERString => match enum_by_name n ms with Some (sr, _) => DString sr | None => DNull end
        | LRepr, ERInt => match enum_by_name n ms with Some (_, ir) => DInt ir | None => DNull end
        end
    end.

  Fixpoint denote (t : sty) (g0 : gv) {struct t} : dm :=
    let g := unptr g0 in
    match t with
    | TBool => match g with GBool b => DBool b | _ => DNull end
    | TInt => match g with GInt z => DInt z | _ => DNull end
    | TFloat => match g with GFloat b => DFloat b | _ => DNull end
    | TString => match g with GString x => DString x | _ => DNull end
    | TBytes => match g with GBytes x => DBytes x | GNil => DBytes [] | _ => DNull end
    | TLink => match g with GLink c => DLink c | _ => DNull end
    | TAny => match g with GNode d => d | _ => DNull end
    | TEnum _ ms r => den_enum ms r g
    | TList _ e nl =>
        match g with
        | GSlice l => DList (map (den_child (denote e) nl) l)
        | _ => DList []
        end
    | TMap _ kt vt nl =>
        match g with
        | GStruct [gk; gm] =>
            let keys := match gk with GSlice l => l | _ => [] end in
            let m := match gm with GGoMap m => m | _ => [] end in
            DMap (map (fun k =>
                         (match denote kt k with DString b => b | _ => [] end,
                          match gomap_get k m with
                          | Some v => den_child (denote vt) nl v
                          | None => DNull
                          end)) keys)
        | _ => DMap []
        end
    | TStruct _ fs r =>
        match g with
        | GStruct gs =>
            match lv, r with
            | LRepr, SRTuple => DList (den_tuple (fun f => denote (f_type f)) fs gs)
            | LRepr, SRMap =>
                DMap (map (fun e => (f_rkey (fst e), snd e)) (den_fields (fun f => denote (f_type f)) fs gs))
            | LType, _ =>
                DMap (map (fun e => (f_name (fst e), snd e)) (den_fields (fun f => denote (f_type f)) fs gs))
            end
        | _ => DNull
        end
    | TUnion _ ms r =>
        match g with
        | GStruct gs =>
            den_union (fun m => denote (snd m))
                      (fun m d => match lv, r with
                                  | LRepr, URKinded => d
                                  | LRepr, URKeyed => DMap [(fst m, d)]
                                  | LRepr, URStringprefix => match d with DString x => DString (fst m ++ x) | _ => DNull end
                                  | LType, _ => DMap [(sty_name (snd m), d)]
                                  end) ms gs
        | _ => DNull
        end
    end.
End Denote.

(* ---- the supported vocabulary -------------------------------------------------------------- *)

Definition is_kinded (t : sty) : bool := match t with TUnion _ _ URKinded => true | _ => false end.
Definition is_unsigned_shape (s : shape) : bool :=
  match s with SInt k => ik_unsigned k | _ => false end.

(* a location of shape [s] holding a (non-null, non-absent) value of type [t]: [s] is either the Go
   type that holds t directly or one pointer to it.  Behind a pointer the pinned code cannot hold
   unsigned integers (SetInt on a uint) nor kinded unions (Field on a pointer). *)
Definition loc_ok (direct : sty -> shape -> bool) (t : sty) (s : shape) : bool :=
  match s with
  | SPtr s1 => direct t s1 && negb (is_unsigned_shape s1) && negb (is_kinded t)
  | _ => direct t s
  end.

(* a nullable position: the Go type must be a pointer, or an interface (Any / Link) whose nil is null *)
Definition nullable_ok (direct : sty -> shape -> bool) (t : sty) (s : shape) : bool :=
  match s with
  | SPtr s1 => direct t s1 && negb (is_unsigned_shape s1) && negb (is_kinded t)
  | SNode | SLink LIface => direct t s
  | _ => false
  end.

Definition field_ok (direct : sty -> shape -> bool) (t : sty) (opt nl : bool) (s : shape) : bool :=
  match opt, nl with
  | false, false => loc_ok direct t s
  | false, true => nullable_ok direct t s
  | true, false =>
      match s with
      | SPtr s1 => direct t s1          (* the assembler dereferences first: any content is fine *)
      | SNode | SLink LIface => direct t s
      | _ => false
      end
  | true, true => match s with SPtr s1 => nullable_ok direct t s1 && shape_is_ptr s1 | _ => false end
  end.

Fixpoint names_nodup (l : list bytes) : bool :=
  match l with
  | [] => true
  | x :: r => negb (existsb (bytes_eqb x) r) && names_nodup r
  end.

Definition fields_bindable (direct : fld -> shape -> bool) : list fld -> list (bytes * shape) -> bool :=
  fix go (fs : list fld) (ss : list (bytes * shape)) : bool :=
  match fs, ss with
  | [], [] => true
  | f :: fs', (_, s) :: ss' =>
      field_ok (fun _ => direct f) (f_type f) (f_opt f) (f_nul f) s && go fs' ss'
  | _, _ => false
  end.

Definition members_bindable (direct : bytes * sty -> shape -> bool) : list (bytes * sty) -> list (bytes * shape) -> bool :=
  fix go (ms : list (bytes * sty)) (ss : list (bytes * shape)) : bool :=
  match ms, ss with
  | [], [] => true
  | m :: ms', (_, SPtr s) :: ss' => direct m s && negb (is_any (snd m)) && go ms' ss'
  | _, _ => false
  end.

(* the data model kind every representation-level value of a type has (None: it varies).  A kinded
   union is well formed when each member is declared under the kind its values really have. *)
Definition repr_kind (t : sty) : option bytes :=
  match t with
  | TBool => Some (kind_name (DBool true))
  | TInt => Some (kind_name (DInt 0))
  | TFloat => Some (kind_name (DFloat 0))
  | TString => Some (kind_name (DString []))
  | TBytes => Some (kind_name (DBytes []))
  | TLink => Some (kind_name (DLink []))
  | TAny => None
  | TList _ _ _ => Some (kind_name (DList []))
  | TMap _ _ _ _ => Some (kind_name (DMap []))
  | TStruct _ _ SRMap => Some (kind_name (DMap []))
  | TStruct _ _ SRTuple => Some (kind_name (DList []))
  | TUnion _ _ URKeyed => Some (kind_name (DMap []))
  | TUnion _ _ URKinded => None
  | TUnion _ _ URStringprefix => Some (kind_name (DString []))
  | TEnum _ _ ERString => Some (kind_name (DString []))
  | TEnum _ _ ERInt => Some (kind_name (DInt 0))
  end.
Definition kinded_wf (ms : list (bytes * sty)) : bool :=
  forallb (fun m => match repr_kind (snd m) with Some k => bytes_eqb (fst m) k | None => false end) ms.

(* [bindable t s]: s (not a pointer) holds t directly *)
Fixpoint bindable (t : sty) (s : shape) {struct t} : bool :=
  match t with
  | TBool => match s with SBool => true | _ => false end
  | TInt => match s with SInt _ => true | _ => false end
  | TFloat => match s with SFloat _ => true | _ => false end
  | TString => match s with SString => true | _ => false end
  | TBytes => match s with SBytes => true | _ => false end
  | TLink => match s with SLink _ => true | _ => false end
  | TAny => match s with SNode => true | _ => false end
  | TEnum _ ms _ =>
      (* enums are bound to Go strings; Go integers are accepted by verifyCompatibility for int
         representations but are unreadable at type level (see C19_refuted_int_enum) *)
      match s with
      | SString => names_nodup (map (fun m => fst (fst m)) ms) && forallb (fun m => (snd m <? two63z)%Z) ms
      | _ => false
      end
  | TList _ e nl =>
      match s with
      | SSlice _ es => if nl then nullable_ok (fun _ => bindable e) e es else loc_ok (fun _ => bindable e) e es
      | _ => false
      end
  | TMap _ kt vt nl =>
      match s with
      | SStruct _ [(_, SSlice _ SString); (_, SGoMap SString mv)] =>
          (match kt with TString => true | _ => false end)
          && (if nl then nullable_ok (fun _ => bindable vt) vt mv else loc_ok (fun _ => bindable vt) vt mv)
      | _ => false
      end
  | TStruct _ fs r =>
      match s with
      | SStruct _ ss =>
          fields_bindable (fun f => bindable (f_type f)) fs ss
          && names_nodup (map f_name fs) && names_nodup (map f_rkey fs)
          && match r with SRMap => true | SRTuple => forallb (fun f => negb (f_opt f)) fs end
      | _ => false
      end
  | TUnion _ ms r =>
      match s with
      | SStruct _ ss =>
          members_bindable (fun m => bindable (snd m)) ms ss
          && names_nodup (map (fun m => sty_name (snd m)) ms) && names_nodup (map fst ms)
          && match r with
             | URKinded => kinded_wf ms
             | URKeyed => true
             | URStringprefix => false       (* modelled and tied by the correspondence run; outside the theorems *)
             end
      | _ => false
      end
  end.

(* a Go integer of kind k holding z: in the kind's range; a Go uint (not uint64) above int64 is
   unreadable on the pinned tree *)
Definition int_ok (q : quirks) (k : ikind) (z : Z) : bool :=
  ik_in k z && match k with UInt => q_uint_kind q || (z <? two63z)%Z | _ => true end.

(* ---- well-formed Go values ------------------------------------------------------------------ *)

Section Ok.
  Variable q : quirks.
  Variable narrow32 : N -> N.

  (* content of a location [s] (possibly a pointer, which must then be non-nil) *)
  Definition ok_loc (ok : shape -> gv -> bool) (s : shape) (g : gv) : bool :=
    match s, g with
    | SPtr s1, GPtr v => ok s1 v
    | SPtr _, _ => false
    | _, _ => ok s g
    end.
  Definition ok_child (ok : shape -> gv -> bool) (nl : bool) (s : shape) (g : gv) : bool :=
    if nl then match g with GNil => true | _ => ok_loc ok s g end else ok_loc ok s g.
  Definition ok_field (ok : shape -> gv -> bool) (opt nl : bool) (s : shape) (g : gv) : bool :=
    if opt then
      match g with
      | GNil => true
      | _ => match s, g with
             | SPtr s1, GPtr v => ok_child ok nl s1 v
             | SPtr _, _ => false
             | _, _ => ok_child ok nl s g
             end
      end
    else ok_child ok nl s g.

  Definition ok_fields (ok : fld -> shape -> gv -> bool) : list fld -> list (bytes * shape) -> list gv -> bool :=
    fix go (fs : list fld) (ss : list (bytes * shape)) (gs : list gv) : bool :=
    match fs, ss, gs with
    | [], [], [] => true
    | f :: fs', (_, s) :: ss', g :: gs' => ok_field (ok f) (f_opt f) (f_nul f) s g && go fs' ss' gs'
    | _, _, _ => false
    end.

  (* exactly one member set *)
  Definition ok_members (ok : bytes * sty -> shape -> gv -> bool)
    : list (bytes * sty) -> list (bytes * shape) -> list gv -> bool -> bool :=
    fix go (ms : list (bytes * sty)) (ss : list (bytes * shape)) (gs : list gv) (seen : bool) : bool :=
    match ms, ss, gs with
    | [], [], [] => seen
    | m :: ms', (_, SPtr s) :: ss', g :: gs' =>
        match g with
        | GNil => go ms' ss' gs' seen
        | GPtr v => negb seen && ok m s v && go ms' ss' gs' true
        | _ => false
        end
    | _, _, _ => false
    end.

  Fixpoint gv_nodup (l : list gv) : bool :=
    match l with
    | [] => true
    | x :: r => negb (existsb (gv_eqb x) r) && gv_nodup r
    end.

  Fixpoint gv_ok (t : sty) (s : shape) (g : gv) {struct t} : bool :=
    match t with
    | TBool => match g with GBool _ => true | _ => false end
    | TInt =>
        match s, g with
        | SInt k, GInt z => int_ok q k z
        | _, _ => false
        end
    | TFloat =>
        match s, g with
        | SFloat true, GFloat b => N.eqb (narrow32 b) b
        | SFloat false, GFloat _ => true
        | _, _ => false
        end
    | TString => match g with GString _ => true | _ => false end
    | TBytes => match g with GBytes _ | GNil => true | _ => false end
    | TLink => match g with GLink _ => true | _ => false end
    | TAny => match g with GNode DNull => false | GNode _ => true | _ => false end
    | TEnum _ ms _ =>
        match s, g with
        | SString, GString x => match enum_by_name x ms with Some _ => true | None => false end
        | SInt k, GInt z => ik_in k z && match enum_by_int z ms with Some _ => true | None => false end
        | _, _ => false
        end
    | TList _ e nl =>
        match s, g with
        | SSlice _ es, GSlice l => forallb (ok_child (gv_ok e) nl es) l
        | SSlice _ _, GNil => true
        | _, _ => false
        end
    | TMap _ kt vt nl =>
        match s, g with
        | SStruct _ [(_, SSlice _ ks); (_, SGoMap _ mv)], GStruct [gk; gm] =>
            let keys := match gk with GSlice l => l | _ => [] end in
            let m := match gm with GGoMap m => m | _ => [] end in
            (match gk with GSlice _ | GNil => true | _ => false end)
            && (match gm with GGoMap _ | GNil => true | _ => false end)
            && gv_nodup keys
            && forallb (fun k => match k with GString _ => true | _ => false end) keys
            && forallb (fun k => match gomap_get k m with
                                 | Some v => ok_child (gv_ok vt) nl mv v
                                 | None => false
                                 end) keys
        | _, _ => false
        end
    | TStruct _ fs _ =>
        match s, g with
        | SStruct _ ss, GStruct gs => ok_fields (fun f => gv_ok (f_type f)) fs ss gs
        | _, _ => false
        end
    | TUnion _ ms _ =>
        match s, g with
        | SStruct _ ss, GStruct gs => ok_members (fun m => gv_ok (snd m)) ms ss gs false
        | _, _ => false
        end
    end.
End Ok.

(* ---- data a type can hold ------------------------------------------------------------------- *)

Section Fits.
  Variable q : quirks.
  Variable lv : level.
  Variable narrow32 : N -> N.

  Definition fits_child (fits : shape -> dm -> bool) (nl : bool) (s : shape) (d : dm) : bool :=
    match d with
    | DNull => nl
    | _ => fits (deref1 s) d
    end.

  (* struct entries: exactly the non-absent fields, in field order *)
  Definition fits_fields (fits : fld -> shape -> dm -> bool) (key : fld -> bytes)
    : list fld -> list (bytes * shape) -> list (bytes * dm) -> bool :=
    fix go (fs : list fld) (ss : list (bytes * shape)) (m : list (bytes * dm)) : bool :=
    match fs, ss with
    | [], [] => match m with [] => true | _ => false end
    | f :: fs', (_, s) :: ss' =>
        let s1 := if f_opt f then deref1 s else s in
        match m with
        | (k, v) :: m' =>
            if bytes_eqb k (key f)
            then fits_child (fits f) (f_nul f) s1 v && go fs' ss' m'
            else f_opt f && go fs' ss' m
        | [] => f_opt f && go fs' ss' m
        end
    | _, _ => false
    end.

  Definition fits_tuple (fits : fld -> shape -> dm -> bool)
    : list fld -> list (bytes * shape) -> list dm -> bool :=
    fix go (fs : list fld) (ss : list (bytes * shape)) (l : list dm) : bool :=
    match fs, ss, l with
    | [], [], [] => true
    | f :: fs', (_, s) :: ss', v :: l' => fits_child (fits f) (f_nul f) s v && go fs' ss' l'
    | _, _, _ => false
    end.

  Fixpoint fits (t : sty) (s : shape) (d : dm) {struct t} : bool :=
    match t with
    | TBool => match d with DBool _ => true | _ => false end
    | TInt => match s, d with SInt k, DInt z => int_ok q k z | _, _ => false end
    | TFloat =>
        match s, d with
        | SFloat true, DFloat b => N.eqb (narrow32 b) b
        | SFloat false, DFloat _ => true
        | _, _ => false
        end
    | TString => match d with DString _ => true | _ => false end
    | TBytes => match d with DBytes _ => true | _ => false end
    | TLink => match d with DLink _ => true | _ => false end
    | TAny => match d with DNull => false | _ => true end
    | TEnum _ ms r =>
        match lv, r, d with
        | LType, _, DString x => match enum_by_name x ms with Some _ => true | None => false end
        | LRepr, ERString, DString x => match enum_by_repr x ms with Some _ => true | None => false end
        | LRepr, ERInt, DInt z =>
            (z <? two63z)%Z && match enum_by_int z ms with Some _ => true | None => false end
        | _, _, _ => false
        end
    | TList _ e nl =>
        match s, d with
        | SSlice _ es, DList l => forallb (fits_child (fits e) nl es) l
        | _, _ => false
        end
    | TMap _ kt vt nl =>
        match s, d with
        | SStruct _ [_; (_, SGoMap _ mv)], DMap m =>
            names_nodup (map fst m) && forallb (fun kv => fits_child (fits vt) nl mv (snd kv)) m
        | _, _ => false
        end
    | TStruct _ fs r =>
        match s with
        | SStruct _ ss =>
            match lv, r, d with
            | LRepr, SRTuple, DList l => fits_tuple (fun f => fits (f_type f)) fs ss l
            | LRepr, SRMap, DMap m => fits_fields (fun f => fits (f_type f)) f_rkey fs ss m
            | LType, _, DMap m => fits_fields (fun f => fits (f_type f)) f_name fs ss m
            | _, _, _ => false
            end
        | _ => false
        end
    | TUnion _ ms r =>
        match s with
        | SStruct _ ss =>
            match lv, r, d with
            | LRepr, URKinded, _ =>
                match d with
                | DNull => false
                | _ =>
                    with_member false (kind_name d)
                      (fun i m => fits (snd m) (deref1 (nth_shape i ss)) d) false ms O
                end
            | LRepr, URStringprefix, DString x =>
                with_prefix x (fun i m => fits (snd m) (deref1 (nth_shape i ss)) (DString (skipn (length (fst m)) x))) false ms O
            | LRepr, URKeyed, DMap [(k, v)] =>
                with_member false k (fun i m => fits_child (fits (snd m)) false (nth_shape i ss) v) false ms O
            | LType, _, DMap [(k, v)] =>
                with_member true k (fun i m => fits_child (fits (snd m)) false (nth_shape i ss) v) false ms O
            | _, _, _ => false
            end
        | _ => false
        end
    end.
End Fits.
