(* Store/Storage.v — executable model of storage/memstore/memstore.go, linking/cid/memorystorage.go
   and the feature-detection fall-backs of storage/funcs.go.  MODEL file: definitions only.

   Go slices are modelled as *buffer ids* into a heap of byte strings, so that aliasing is explicit:
     memstore.Put   copies the caller's slice into a fresh buffer (first write wins);
     memstore.Get   returns a fresh copy; memstore.Peek returns THE STORED buffer;
     memstore.GetStream reads the stored buffer (the harness drains the reader at once);
     cidlink.Memory keys by the multihash of the CID (documented design), copies what is written
     into a bytes.Buffer and overwrites on commit (last write wins);
     storage.PutStream / PutVec on a store without those features buffer and call Put;
     storage.Peek on a store without Peek calls Get.
   The caller's view is a list of *handles* (the slices the caller holds): its own buffers, the
   results of Get and of Peek.  [OMut h c] is "the caller overwrites the bytes of the slice it holds
   as handle h".  The abstract SPEC ([spec_step]) is a finite map key -> bytes plus handle values. *)
Require Import IP.Base.Bytes IP.Codec.Cid.
Open Scope N_scope.

Notation key := (list N) (only parsing).

Inductive errno :=
  | ENOENT | ENOTDIR | EISDIR | EEXIST | ENOTEMPTY | ENAMETOOLONG | EINVAL   (* as the kernel / package os report *)
  | EXDEV           (* rename across file systems: refused, without effect (C18, staging on another file system) *)
  | EIO | ENOSPC | EACCES                                                    (* injected faults (C18) *)
  | E404            (* memstore's fmt.Errorf("404"), cidlink.Memory's os.ErrNotExist *)
  | EBADLINK        (* cidlink.Memory: "incompatible link type" *)
  | EUSED           (* storage.PutStream fall-back: "WriteCommitter already used" *)
  | EEMPTYKEY       (* repaired fsstore only: commit("") reports that nothing was committed *)
  | EOTHER.

Inductive op :=
  | ONew (c : bytes)                    (* the caller allocates a slice with content c *)
  | OMut (h : nat) (c : bytes)          (* the caller does copy(slice h, c) *)
  | OPut (k : key) (h : nat)            (* storage.Put(store, k, slice h) *)
  | OPutStream (k : key) (hs : list nat)(* storage.PutStream; Write(slice h) for h in hs; commit(k) *)
  | OPutVec (k : key) (hs : list nat)   (* storage.PutVec(store, k, [slices hs]) *)
  | OGet (k : key)                      (* storage.Get: a new handle on success *)
  | OGetStream (k : key)                (* storage.GetStream, drained immediately *)
  | OPeek (k : key)                     (* storage.Peek: a new handle on success *)
  | OHas (k : key)
  (* a stream kept open across other operations: w, commit := storage.PutStream(store) ... *)
  | OOpen                               (* a new stream; streams are numbered in the order they are opened *)
  | OWrite (sid : nat) (h : nat)        (* w.Write(slice h) on stream sid *)
  | OCommit (sid : nat) (k : key).      (* commit(k) of stream sid *)

Inductive obs :=
  | OUnit | OOk | OErr (e : errno) | OBytes (c : bytes) | OStreamErr (e : errno)
  | OBool (b : bool) | OUnsupported | OBadHandle | OPanic.

Fixpoint lookup {V} (k : key) (l : list (key * V)) : option V :=
  match l with
  | [] => None
  | (k', v) :: r => if bytes_eqb k k' then Some v else lookup k r
  end.

Fixpoint upd {A} (l : list A) (i : nat) (x : A) : list A :=
  match l, i with
  | [], _ => []
  | _ :: r, O => x :: r
  | y :: r, S j => y :: upd r j x
  end.

(* Go's copy(dst, src): the first min(len) bytes of dst are overwritten, the length stays *)
Definition go_copy (dst src : bytes) : bytes := firstn (length dst) src ++ skipn (length src) dst.

(* contents of a list of handles, in order; None if a handle does not exist *)
Fixpoint gather {A} (f : nat -> option A) (hs : list nat) : option (list A) :=
  match hs with
  | [] => Some []
  | h :: r => match f h, gather f r with Some c, Some cs => Some (c :: cs) | _, _ => None end
  end.

(* ------------------------------------------------------------------ the in-memory stores *)

Record mcfg := {
  mc_proj : key -> option key; (* the map key actually used (Memory: multihash of the CID) *)
  mc_overwrite : bool;         (* Memory: commit assigns unconditionally; memstore: first put wins *)
  mc_storage_api : bool        (* memstore: Has/Peek/GetStream/PutVec reachable through package storage;
                                  Memory: only OpenWrite (put, put-stream) and OpenRead (get) *)
}.

(* go-cid Cid.Hash(): the whole string for CIDv0, else what follows the version and codec varints *)
Definition cid_hash (c : bytes) : option bytes :=
  match c with
  | 18 :: 32 :: _ =>
      if lenN c =? 34 then Some c
      else match uvarint c with
           | Some (_, r1) => match uvarint r1 with Some (_, r2) => Some r2 | None => None end
           | None => None
           end
  | _ => match uvarint c with
         | Some (_, r1) => match uvarint r1 with Some (_, r2) => Some r2 | None => None end
         | None => None
         end
  end.

Definition memstore_cfg : mcfg := {| mc_proj := @Some key; mc_overwrite := false; mc_storage_api := true |}.
Definition memory_cfg : mcfg := {| mc_proj := cid_hash; mc_overwrite := true; mc_storage_api := false |}.

Record mem := {
  m_heap : list bytes;         (* buffer id = index *)
  m_bag : list (key * nat);    (* Bag map[string][]byte: key -> id of the stored buffer *)
  m_hnd : list nat;            (* the caller's handles -> buffer ids *)
  m_str : list (bytes * bool)  (* open streams: the private bytes.Buffer (Write copies into it), and
                                  whether the fall-back's commit function was used *)
}.
Definition mem_empty : mem := {| m_heap := []; m_bag := []; m_hnd := []; m_str := [] |}.

Definition hget (m : mem) (id : nat) : bytes := nth id (m_heap m) [].
Definition handle_buf (m : mem) (h : nat) : option bytes :=
  match nth_error (m_hnd m) h with Some id => Some (hget m id) | None => None end.

(* make([]byte, len); copy *)
Definition alloc (m : mem) (c : bytes) : mem * nat :=
  ({| m_heap := m_heap m ++ [c]; m_bag := m_bag m; m_hnd := m_hnd m; m_str := m_str m |}, length (m_heap m)).
Definition add_handle (m : mem) (id : nat) : mem :=
  {| m_heap := m_heap m; m_bag := m_bag m; m_hnd := m_hnd m ++ [id]; m_str := m_str m |}.
Definition bind_key (m : mem) (k : key) (id : nat) : mem :=
  {| m_heap := m_heap m; m_bag := (k, id) :: m_bag m; m_hnd := m_hnd m; m_str := m_str m |}.
Definition set_str (m : mem) (l : list (bytes * bool)) : mem :=
  {| m_heap := m_heap m; m_bag := m_bag m; m_hnd := m_hnd m; m_str := l |}.

Definition mem_put (cfg : mcfg) (m : mem) (k : key) (c : bytes) : mem * obs :=
  match mc_proj cfg k with
  | None => (m, OPanic)
  | Some pk =>
    match lookup pk (m_bag m) with
    | Some _ =>
        if mc_overwrite cfg then let '(m1, id) := alloc m c in (bind_key m1 pk id, OOk)
        else (m, OOk)
    | None => let '(m1, id) := alloc m c in (bind_key m1 pk id, OOk)
    end
  end.

Definition mem_find (cfg : mcfg) (m : mem) (k : key) : option (option nat) :=
  match mc_proj cfg k with
  | None => None
  | Some pk => Some (lookup pk (m_bag m))
  end.

Definition mem_step (cfg : mcfg) (m : mem) (o : op) : mem * obs :=
  match o with
  | ONew c => let '(m1, id) := alloc m c in (add_handle m1 id, OUnit)
  | OMut h c =>
      match nth_error (m_hnd m) h with
      | Some id => ({| m_heap := upd (m_heap m) id (go_copy (hget m id) c); m_bag := m_bag m; m_hnd := m_hnd m;
                       m_str := m_str m |}, OUnit)
      | None => (m, OBadHandle)
      end
  | OPut k h =>
      match handle_buf m h with
      | Some c => mem_put cfg m k c
      | None => (m, OBadHandle)
      end
  | OPutStream k hs =>
      (* funcs.go PutStream fall-back / Memory.OpenWrite: a bytes.Buffer collects copies of the chunks *)
      match gather (handle_buf m) hs with
      | Some cs => mem_put cfg m k (concat cs)
      | None => (m, OBadHandle)
      end
  | OPutVec k hs =>
      if mc_storage_api cfg then
        match gather (handle_buf m) hs with
        | Some cs => mem_put cfg m k (concat cs)
        | None => (m, OBadHandle)
        end
      else (m, OUnsupported)
  | OGet k =>
      match mem_find cfg m k with
      | None => (m, OPanic)
      | Some None => (m, OErr E404)
      | Some (Some id) =>
          let c := hget m id in
          let '(m1, id') := alloc m c in (add_handle m1 id', OBytes c)
      end
  | OGetStream k =>
      if mc_storage_api cfg then
        match mem_find cfg m k with
        | None => (m, OPanic)
        | Some None => (m, OErr E404)
        | Some (Some id) => (m, OBytes (hget m id))
        end
      else (m, OUnsupported)
  | OPeek k =>
      if mc_storage_api cfg then
        match mem_find cfg m k with
        | None => (m, OPanic)
        | Some None => (m, OErr E404)
        | Some (Some id) => (add_handle m id, OBytes (hget m id))   (* the stored slice itself *)
        end
      else (m, OUnsupported)
  | OHas k =>
      if mc_storage_api cfg then
        match mem_find cfg m k with
        | None => (m, OPanic)
        | Some None => (m, OBool false)
        | Some (Some _) => (m, OBool true)
        end
      else (m, OUnsupported)
  | OOpen => (set_str m (m_str m ++ [([], false)]), OOk)
  | OWrite sid h =>
      match nth_error (m_str m) sid, handle_buf m h with
      | Some (c, u), Some b => (set_str m (upd (m_str m) sid (c ++ b, u)), OOk)
      | _, _ => (m, OBadHandle)
      end
  | OCommit sid k =>
      match nth_error (m_str m) sid with
      | None => (m, OBadHandle)
      | Some (c, u) =>
          if mc_storage_api cfg && u then (m, OErr EUSED)      (* funcs.go: "WriteCommitter already used" *)
          else mem_put cfg (set_str m (upd (m_str m) sid (c, true))) k c
      end
  end.

Fixpoint mem_run (cfg : mcfg) (m : mem) (ops : list op) : list obs :=
  match ops with
  | [] => []
  | o :: r => let '(m1, ob) := mem_step cfg m o in ob :: mem_run cfg m1 r
  end.

(* ------------------------------------------------------------------ the specification *)

(* A finite map from (projected) keys to contents, and the VALUES of the caller's slices.
   [borrowed] marks slices obtained from Peek: the API forbids writing to them. *)
Record spec := {
  s_map : list (key * bytes);
  s_hnd : list (bytes * bool);
  s_str : list (bytes * bool)    (* open streams: what was written so far, and whether it was committed *)
}.
Definition spec_empty : spec := {| s_map := []; s_hnd := []; s_str := [] |}.

Definition s_handle (s : spec) (h : nat) : option bytes :=
  match nth_error (s_hnd s) h with Some (c, _) => Some c | None => None end.
Definition s_add (s : spec) (c : bytes) (borrowed : bool) : spec :=
  {| s_map := s_map s; s_hnd := s_hnd s ++ [(c, borrowed)]; s_str := s_str s |}.
Definition s_put (s : spec) (pk : key) (c : bytes) : spec :=
  match lookup pk (s_map s) with
  | Some _ => s
  | None => {| s_map := (pk, c) :: s_map s; s_hnd := s_hnd s; s_str := s_str s |}
  end.
Definition s_set_str (s : spec) (l : list (bytes * bool)) : spec :=
  {| s_map := s_map s; s_hnd := s_hnd s; s_str := l |}.

(* [full]: the store is reachable through package storage (has / peek / get-stream / put-vec) *)
Definition spec_step (proj : key -> option key) (full : bool) (s : spec) (o : op) : spec * obs :=
  match o with
  | ONew c => (s_add s c false, OUnit)
  | OMut h c =>
      match nth_error (s_hnd s) h with
      | Some (old, b) => ({| s_map := s_map s; s_hnd := upd (s_hnd s) h (go_copy old c, b); s_str := s_str s |}, OUnit)
      | None => (s, OBadHandle)
      end
  | OPut k h =>
      match s_handle s h, proj k with
      | None, _ => (s, OBadHandle)
      | Some c, Some pk => (s_put s pk c, OOk)
      | Some _, None => (s, OPanic)
      end
  | OPutStream k hs =>
      match gather (s_handle s) hs, proj k with
      | None, _ => (s, OBadHandle)
      | Some cs, Some pk => (s_put s pk (concat cs), OOk)
      | Some _, None => (s, OPanic)
      end
  | OPutVec k hs =>
      if full then
        match gather (s_handle s) hs, proj k with
        | None, _ => (s, OBadHandle)
        | Some cs, Some pk => (s_put s pk (concat cs), OOk)
        | Some _, None => (s, OPanic)
        end
      else (s, OUnsupported)
  | OGet k =>
      match proj k with
      | None => (s, OPanic)
      | Some pk => match lookup pk (s_map s) with
                   | Some c => (s_add s c false, OBytes c)
                   | None => (s, OErr E404)
                   end
      end
  | OGetStream k =>
      if full then
        match proj k with
        | None => (s, OPanic)
        | Some pk => match lookup pk (s_map s) with
                     | Some c => (s, OBytes c)
                     | None => (s, OErr E404)
                     end
        end
      else (s, OUnsupported)
  | OPeek k =>
      if full then
        match proj k with
        | None => (s, OPanic)
        | Some pk => match lookup pk (s_map s) with
                     | Some c => (s_add s c true, OBytes c)
                     | None => (s, OErr E404)
                     end
        end
      else (s, OUnsupported)
  | OHas k =>
      if full then
        match proj k with
        | None => (s, OPanic)
        | Some pk => match lookup pk (s_map s) with
                     | Some _ => (s, OBool true)
                     | None => (s, OBool false)
                     end
        end
      else (s, OUnsupported)
  | OOpen => (s_set_str s (s_str s ++ [([], false)]), OOk)
  | OWrite sid h =>
      match nth_error (s_str s) sid, s_handle s h with
      | Some (c, u), Some b => (s_set_str s (upd (s_str s) sid (c ++ b, u)), OOk)
      | _, _ => (s, OBadHandle)
      end
  | OCommit sid k =>
      match nth_error (s_str s) sid with
      | None => (s, OBadHandle)
      | Some (c, u) =>
          if full && u then (s, OErr EUSED)
          else match proj k with
               | Some pk => (s_put (s_set_str s (upd (s_str s) sid (c, true))) pk c, OOk)
               | None => (s, OPanic)
               end
      end
  end.

Fixpoint spec_run (proj : key -> option key) (full : bool) (s : spec) (ops : list op) : list obs :=
  match ops with
  | [] => []
  | o :: r => let '(s1, ob) := spec_step proj full s o in ob :: spec_run proj full s1 r
  end.

(* The quantifier of C17: handles exist, keys are usable, each (projected) key is only ever given
   one content, and the caller never writes to a slice it got from Peek. *)
Definition put_consistent (s : spec) (pk : key) (c : bytes) : bool :=
  match lookup pk (s_map s) with Some c' => bytes_eqb c c' | None => true end.

Definition op_ok (proj : key -> option key) (s : spec) (o : op) : bool :=
  match o with
  | ONew _ => true
  | OMut h _ => match nth_error (s_hnd s) h with Some (_, b) => negb b | None => false end
  | OPut k h =>
      match s_handle s h, proj k with Some c, Some pk => put_consistent s pk c | _, _ => false end
  | OPutStream k hs | OPutVec k hs =>
      match gather (s_handle s) hs, proj k with
      | Some cs, Some pk => put_consistent s pk (concat cs)
      | _, _ => false
      end
  | OGet k | OGetStream k | OPeek k | OHas k => match proj k with Some _ => true | None => false end
  | OOpen => true
  (* a stream is written and committed by its one owner, committed once, and not written afterwards *)
  | OWrite sid h =>
      match nth_error (s_str s) sid, s_handle s h with Some (_, u), Some _ => negb u | _, _ => false end
  | OCommit sid k =>
      match nth_error (s_str s) sid, proj k with
      | Some (c, u), Some pk => negb u && put_consistent s pk c
      | _, _ => false
      end
  end.

Fixpoint hist_ok (proj : key -> option key) (full : bool) (s : spec) (ops : list op) : bool :=
  match ops with
  | [] => true
  | o :: r => op_ok proj s o && hist_ok proj full (fst (spec_step proj full s o)) r
  end.

(* longest prefix of a history that satisfies the quantifier (used by the run-time oracle) *)
Fixpoint ok_prefix (proj : key -> option key) (full : bool) (s : spec) (ops : list op) : list op :=
  match ops with
  | [] => []
  | o :: r => if op_ok proj s o then o :: ok_prefix proj full (fst (spec_step proj full s o)) r else []
  end.
