(* Store/FsStore.v — executable model of storage/fsstore/fsstore.go over a small POSIX file system.
   MODEL file: definitions only.

   * a file system is a finite map  path -> File content | Dir  (paths = lists of components,
     absolute from the model root "/"), with the kernel's path resolution (ENOENT / ENOTDIR /
     ENAMETOOLONG for a component above 255 bytes) and package os' refusal of NUL (EINVAL);
   * filepath.Join / Clean are modelled on components ([join_clean]): elements are split at '/',
     "" and "." vanish, ".." removes the component before it (at the root: vanishes);
   * pathForKey = Join(base :: shard(key)) — the escaping function is stored and NEVER applied in
     the pinned code (quirk [q_no_escape]); the three sharding functions are the definitions that
     gotrans regenerates from storage/sharding/sharding.go on every run (Gen/FromGo.v);
   * Put / PutStream / commit / move / haveDir are ONE state machine ([wpc], [w_next], [w_step])
     that issues one system call per step; the sequential store runs it to completion
     ([w_run]); Store/FsCrash.v interleaves several of them, cuts them and injects failures.
     package os' Rename first Lstats the new name and reports EEXIST when it is a directory —
     which move() then takes for "content already there" and reports success. *)
Require Import IP.Base.Bytes IP.Base.GoSem IP.Gen.FromGo IP.Store.Storage.
Open Scope N_scope.

Notation comp := (list N) (only parsing).
Notation path := (list (list N)) (only parsing).

Inductive node := File (c : bytes) | Dir.
Definition fs := list (path * node).

Fixpoint path_eqb (a b : path) : bool :=
  match a, b with
  | [], [] => true
  | x :: a', y :: b' => bytes_eqb x y && path_eqb a' b'
  | _, _ => false
  end.

Fixpoint assoc_path (f : fs) (p : path) : option node :=
  match f with
  | [] => None
  | (q, n) :: r => if path_eqb q p then Some n else assoc_path r p
  end.
(* the root always exists *)
Definition fs_lookup (f : fs) (p : path) : option node :=
  match p with [] => Some Dir | _ => assoc_path f p end.
Definition fs_remove (f : fs) (p : path) : fs := filter (fun e => negb (path_eqb (fst e) p)) f.
Definition fs_set (f : fs) (p : path) (n : node) : fs := (p, n) :: fs_remove f p.

(* ------------------------------------------------------------------ filepath.Join / Clean *)

Definition c_slash : N := 47.
Definition c_dot : N := 46.

Fixpoint split_slash (s : bytes) : list bytes :=
  match s with
  | [] => [[]]
  | b :: r =>
      if b =? c_slash then [] :: split_slash r
      else match split_slash r with
           | c :: cs => (b :: c) :: cs
           | [] => [[b]]
           end
  end.

Definition is_dot (c : comp) : bool := bytes_eqb c [c_dot].
Definition is_dotdot (c : comp) : bool := bytes_eqb c [c_dot; c_dot].
Definition is_empty (c : comp) : bool := match c with [] => true | _ => false end.

(* Clean of a rooted path, on components; [stack] is the cleaned prefix, innermost first *)
Fixpoint clean_go (stack : list comp) (cs : list comp) : list comp :=
  match cs with
  | [] => rev stack
  | c :: r =>
      if is_empty c || is_dot c then clean_go stack r
      else if is_dotdot c then clean_go (tl stack) r
      else clean_go (c :: stack) r
  end.

(* filepath.Join(base, elems...) for an absolute, clean base *)
Definition join_clean (base : path) (elems : list bytes) : path :=
  clean_go (rev base) (flat_map split_slash elems).

Definition dirname (p : path) : path := removelast p.

(* ------------------------------------------------------------------ system calls *)

Inductive sysc :=
  | SStat (p : path)            (* os.Stat *)
  | SLstat (p : path)           (* os.Lstat (inside os.Rename) *)
  | SOpenRd (p : path)          (* os.OpenFile(p, O_RDONLY) *)
  | SCreat (p : path)           (* os.OpenFile(p, O_CREATE|O_EXCL|O_WRONLY) *)
  | SWrite (p : path) (c : bytes) (* write on the descriptor obtained by SCreat p *)
  | SClose (p : path)
  | SRename (p q : path)        (* renameat *)
  | SMkdir (p : path)
  | SUnlink (p : path).

Inductive rv := RVUnit | RVNode (n : node).
Definition ev := (sysc * res errno rv)%type.

Definition name_max : N := 255.

Definition has_nul (p : path) : bool := existsb (existsb (N.eqb 0)) p.

(* every component of [rest] is entered as a directory, starting below [pre] *)
Fixpoint walk_from (f : fs) (pre : path) (rest : path) : res errno unit :=
  match rest with
  | [] => Ok tt
  | c :: r =>
      if name_max <? lenN c then Err ENAMETOOLONG else
      match fs_lookup f (pre ++ [c]) with
      | None => Err ENOENT
      | Some (File _) => Err ENOTDIR
      | Some Dir => walk_from f (pre ++ [c]) r
      end
  end.

Definition last_comp (p : path) : comp := last p [].

(* resolve the directory that holds p, then look p up *)
Definition resolve (f : fs) (p : path) : res errno (option node) :=
  if has_nul p then Err EINVAL else
  match p with
  | [] => Ok (Some Dir)
  | _ =>
    match walk_from f [] (dirname p) with
    | Err e => Err e
    | Ok _ => if name_max <? lenN (last_comp p) then Err ENAMETOOLONG else Ok (fs_lookup f p)
    end
  end.

Definition sys_exec (f : fs) (s : sysc) : fs * res errno rv :=
  match s with
  | SStat p | SLstat p | SOpenRd p =>
      match resolve f p with
      | Err e => (f, Err e)
      | Ok None => (f, Err ENOENT)
      | Ok (Some n) => (f, Ok (RVNode n))
      end
  | SCreat p =>
      match resolve f p with
      | Err e => (f, Err e)
      | Ok (Some _) => (f, Err EEXIST)
      | Ok None => (fs_set f p (File []), Ok RVUnit)
      end
  | SWrite p c =>
      match fs_lookup f p with
      | Some (File old) => (fs_set f p (File (old ++ c)), Ok RVUnit)
      | _ => (f, Err EOTHER)
      end
  | SClose _ => (f, Ok RVUnit)
  | SRename p q =>
      match resolve f p with
      | Err e => (f, Err e)
      | Ok None => (f, Err ENOENT)
      | Ok (Some Dir) => (f, Err EOTHER)
      | Ok (Some (File c)) =>
          match resolve f q with
          | Err e => (f, Err e)
          | Ok (Some Dir) => (f, Err EISDIR)
          | Ok _ => (fs_set (fs_remove f p) q (File c), Ok RVUnit)
          end
      end
  | SMkdir p =>
      match resolve f p with
      | Err e => (f, Err e)
      | Ok (Some _) => (f, Err EEXIST)
      | Ok None => (fs_set f p Dir, Ok RVUnit)
      end
  | SUnlink p =>
      match resolve f p with
      | Err e => (f, Err e)
      | Ok None => (f, Err ENOENT)
      | Ok (Some Dir) => (f, Err EISDIR)
      | Ok (Some (File _)) => (fs_remove f p, Ok RVUnit)
      end
  end.

(* ------------------------------------------------------------------ configuration *)

Inductive shardfn := R133 | R122 | R12.
Definition shard_apply (s : shardfn) (k : bytes) : option (list bytes) :=
  match s with
  | R133 => go_Shard_r133 k
  | R122 => go_Shard_r122 k
  | R12 => go_Shard_r12 k
  end.

Record fscfg := {
  f_base : path;                 (* absolute, clean *)
  f_shard : shardfn;
  f_esc : bytes -> bytes;        (* the escapingFunc handed to Init *)
  q_no_escape : bool;            (* DEFECT of the pinned tree: pathForKey ignores escapingFunc *)
  q_empty_ok : bool;             (* DEFECT of the pinned tree: commit("") (= abort) reports success,
                                    and the empty key is looked up like any other *)
  q_mkdir_exist_fails : bool     (* pinned tree: haveDir returns os.Mkdir's EEXIST, so the loser of two first
                                    writers racing for one shard directory fails its Put *)
}.

(* base32, RFC 4648 alphabet, no padding: fsstore.b32enc *)
Definition b32char (v : N) : N := if v <? 26 then 65 + v else 24 + v.
Definition b32_group (b0 b1 b2 b3 b4 : N) : bytes :=
  let x := (((b0 * 256 + b1) * 256 + b2) * 256 + b3) * 256 + b4 in
  map b32char [ (x / 34359738368) mod 32; (x / 1073741824) mod 32; (x / 33554432) mod 32;
                (x / 1048576) mod 32; (x / 32768) mod 32; (x / 1024) mod 32; (x / 32) mod 32; x mod 32 ].
Fixpoint b32enc (s : bytes) : bytes :=
  match s with
  | [] => []
  | [b0] => firstn 2 (b32_group b0 0 0 0 0)
  | [b0; b1] => firstn 4 (b32_group b0 b1 0 0 0)
  | [b0; b1; b2] => firstn 5 (b32_group b0 b1 b2 0 0)
  | [b0; b1; b2; b3] => firstn 7 (b32_group b0 b1 b2 b3 0)
  | b0 :: b1 :: b2 :: b3 :: b4 :: r => b32_group b0 b1 b2 b3 b4 ++ b32enc r
  end.

Definition enc_key (cfg : fscfg) (k : key) : bytes := if q_no_escape cfg then k else f_esc cfg k.

(* None = the sharding function panics (proved impossible) *)
Definition path_for_key (cfg : fscfg) (k : key) : option path :=
  match shard_apply (f_shard cfg) (enc_key cfg k) with
  | None => None
  | Some cs => Some (join_clean (f_base cfg) cs)
  end.

Definition temp_name : comp := [46; 116; 101; 109; 112].   (* ".temp" *)
Definition staging_dir (base : path) : path := base ++ [temp_name].
Definition stage_path (base : path) (name : comp) : path := base ++ [temp_name; name].

(* ------------------------------------------------------------------ the writer machine *)

Inductive wkind := WPut | WVec.
  (* Put: a failed Write makes Put call wrCommitter("") (close, remove) and return the write error;
     PutVec / a direct PutStream user: the write error is returned and the staging file stays *)

Record wenv := {
  we_base : path;
  we_names : nat -> comp;       (* the random staging names, in the order they are drawn *)
  we_dest : option path;        (* None: commit("") *)
  we_kind : wkind;
  we_empty_ok : bool;
  we_exist_fails : bool
}.

Inductive wpc :=
  | WCreate (try : nat) (chunks : list bytes)
  | WWrite (st : path) (chunks : list bytes)        (* chunks <> [] *)
  | WClose (st : path) (after : option errno)       (* Some e: inside wrCommitter("") after Write failed with e *)
  | WAbort (st : path) (after : option errno)       (* os.Remove(stagepath) of commit("") *)
  | WLstatNew (st : path) (second : bool)           (* os.Rename: Lstat(newname) *)
  | WLstatOld (st : path) (second : bool)           (* os.Rename: newname is a directory: Lstat(oldname) *)
  | WRename (st : path) (second : bool)
  | WDirDown (st : path) (p : path) (stack : list path)   (* haveDir(p): first os.Mkdir(p) *)
  | WDirUp (st : path) (p : path) (stack : list path)     (* haveDir(p): os.Mkdir(p) after the parent was made *)
  | WExist (st : path)                              (* move: os.IsExist(err): os.Remove(stagepath) *)
  | WDone (r : res errno unit).

Definition after_create (st : path) (chunks : list bytes) : wpc :=
  match chunks with [] => WClose st None | _ => WWrite st chunks end.

Definition w_dest (env : wenv) : path := match we_dest env with Some d => d | None => [] end.

Definition w_next (env : wenv) (pc : wpc) : option sysc :=
  match pc with
  | WCreate try _ => Some (SCreat (stage_path (we_base env) (we_names env try)))
  | WWrite st (c :: _) => Some (SWrite st c)
  | WWrite st [] => Some (SWrite st [])
  | WClose st _ => Some (SClose st)
  | WAbort st _ => Some (SUnlink st)
  | WLstatNew _ _ => Some (SLstat (w_dest env))
  | WLstatOld st _ => Some (SLstat st)
  | WRename st _ => Some (SRename st (w_dest env))
  | WDirDown _ p _ | WDirUp _ p _ => Some (SMkdir p)
  | WExist st => Some (SUnlink st)
  | WDone _ => None
  end.

Definition is_exist (e : errno) : bool := match e with EEXIST | ENOTEMPTY => true | _ => false end.
Definition is_enoent (e : errno) : bool := match e with ENOENT => true | _ => false end.

Definition strip (r : res errno rv) : res errno unit :=
  match r with Ok _ => Ok tt | Err e => Err e end.

(* move(): what happens with the error of the first / second os.Rename *)
Definition after_rename (env : wenv) (st : path) (second : bool) (r : res errno unit) : wpc :=
  match r with
  | Err e =>
      if negb second && is_enoent e then WDirDown st (dirname (w_dest env)) []
      else if is_exist e then WExist st
      else WDone (Err e)
  | Ok _ => WDone (Ok tt)
  end.

(* the error of os.Mkdir as haveDir passes it on: on the pinned tree unchanged; repaired: "it exists"
   is what haveDir wanted *)
Definition mkdir_res (env : wenv) (r : res errno unit) : res errno unit :=
  match r with
  | Err EEXIST => if we_exist_fails env then r else Ok tt
  | _ => r
  end.

(* a haveDir frame returns r to the frame below it (or to move) *)
Definition have_ret (st : path) (r : res errno unit) (stack : list path) : wpc :=
  match r with
  | Err e => WDone (Err e)
  | Ok _ => match stack with
            | [] => WLstatNew st true
            | q :: s' => WDirUp st q s'
            end
  end.

Definition w_step (env : wenv) (pc : wpc) (r : res errno rv) : wpc :=
  match pc with
  | WCreate try chunks =>
      match r with
      | Ok _ => after_create (stage_path (we_base env) (we_names env try)) chunks
      | Err EEXIST => WCreate (S try) chunks
      | Err e => WDone (Err e)
      end
  | WWrite st chunks =>
      match r with
      | Ok _ => match tl chunks with [] => WClose st None | rest => WWrite st rest end
      | Err e => match we_kind env with WPut => WClose st (Some e) | WVec => WDone (Err e) end
      end
  | WClose st after =>
      match r, after with
      | Err e, None => WDone (Err e)
      | Err _, Some e0 => WDone (Err e0)
      | Ok _, Some e0 => WAbort st (Some e0)
      | Ok _, None => match we_dest env with None => WAbort st None | Some _ => WLstatNew st false end
      end
  | WAbort st after =>
      match after with
      | Some e0 => WDone (Err e0)
      | None => match r with
                | Ok _ => if we_empty_ok env then WDone (Ok tt) else WDone (Err EEMPTYKEY)
                | Err e => WDone (Err e)
                end
      end
  | WLstatNew st second =>
      match r with
      | Ok (RVNode Dir) => WLstatOld st second
      | _ => WRename st second
      end
  | WLstatOld st second =>
      match r with
      | Err e => after_rename env st second (Err e)
      | Ok _ => after_rename env st second (Err EEXIST)
      end
  | WRename st second => after_rename env st second (strip r)
  | WDirDown st p stack =>
      match r with
      | Err ENOENT => WDirDown st (dirname p) (p :: stack)
      | _ => have_ret st (mkdir_res env (strip r)) stack
      end
  | WDirUp st p stack => have_ret st (mkdir_res env (strip r)) stack
  | WExist st => WDone (strip r)
  | WDone x => WDone x
  end.

(* run one writer alone until it is done; the log is newest-first *)
Fixpoint w_run (fuel : nat) (env : wenv) (f : fs) (pc : wpc) (log : list ev)
  : fs * res errno unit * list ev :=
  match fuel with
  | O => (f, Err EOTHER, log)
  | S n =>
    match w_next env pc with
    | None => (f, match pc with WDone r => r | _ => Err EOTHER end, log)
    | Some s =>
        let '(f1, r) := sys_exec f s in
        w_run n env f1 (w_step env pc r) ((s, r) :: log)
    end
  end.

Definition w_fuel (env : wenv) (chunks : list bytes) : nat :=
  length chunks + 2 * length (w_dest env) + 12.

(* ------------------------------------------------------------------ the store, sequentially *)

Fixpoint pos_name (p : positive) : bytes :=
  match p with xH => [49] | xO q => 48 :: pos_name q | xI q => 49 :: pos_name q end.
(* the model's staging names: '#' and a binary counter (the real ones are 16 random hex digits) *)
Definition stage_name (n : N) : comp := 35 :: match n with N0 => [48] | Npos p => pos_name p end.

Record fstate := {
  fs_fs : fs;
  fs_hnd : list bytes;      (* the caller's slices, as values: the kernel copies what is written *)
  fs_ctr : N;               (* staging names used so far *)
  fs_str : list (option path) (* streams opened with PutStream and kept open: Some = its staging file
                                 (descriptor open); None = closed (committed / aborted / never opened) *)
}.

Definition do_sys (f : fs) (s : sysc) (log : list ev) : fs * res errno rv * list ev :=
  let '(f1, r) := sys_exec f s in (f1, r, (s, r) :: log).

Definition obs_of_res (r : res errno unit) : obs := match r with Ok _ => OOk | Err e => OErr e end.

(* PutStream; Write each chunk; commit(k) *)
Definition fs_put (cfg : fscfg) (st : fstate) (kind : wkind) (k : key) (chunks : list bytes)
  : fstate * obs * list ev :=
  let dest := match k with
              | [] => Some None
              | _ => match path_for_key cfg k with Some d => Some (Some d) | None => None end
              end in
  match dest with
  | None => (* sharding panicked: after the staging file was created, written and closed *)
      (st, OPanic, [])
  | Some d =>
      let ctr := fs_ctr st in
      let env := {| we_base := f_base cfg;
                    we_names := fun i => stage_name (ctr + N.of_nat i);
                    we_dest := d; we_kind := kind; we_empty_ok := q_empty_ok cfg;
                    we_exist_fails := q_mkdir_exist_fails cfg |} in
      let '(f1, r, log) := w_run (w_fuel env chunks) env (fs_fs st) (WCreate 0 chunks) [] in
      ({| fs_fs := f1; fs_hnd := fs_hnd st; fs_ctr := ctr + 1; fs_str := fs_str st |}, obs_of_res r, rev log)
  end.

Definition empty_key_guard (cfg : fscfg) (k : key) : bool :=
  negb (q_empty_ok cfg) && is_empty k.

(* GetStream = os.OpenFile(pathForKey(key), O_RDONLY); the reader is drained by the caller *)
Definition fs_open (cfg : fscfg) (f : fs) (k : key) : option (res errno node * list ev) :=
  if empty_key_guard cfg k then Some (Err E404, []) else   (* repaired tree: os.ErrNotExist, no system call *)
  match path_for_key cfg k with
  | None => None
  | Some p =>
      let '(_, r, log) := do_sys f (SOpenRd p) [] in
      match r with
      | Ok (RVNode n) => Some (Ok n, rev ((SClose p, Ok RVUnit) :: log))
      | Ok RVUnit => Some (Err EOTHER, rev log)
      | Err e => Some (Err e, rev log)
      end
  end.

Definition fs_has (cfg : fscfg) (f : fs) (k : key) : obs * list ev :=
  if empty_key_guard cfg k then (OBool false, []) else
  match path_for_key cfg k with
  | None => (OPanic, [])
  | Some p =>
      let '(_, r, log) := do_sys f (SStat p) [] in
      (match r with
       | Ok _ => OBool true
       | Err ENOENT => OBool false
       | Err e => OErr e
       end, rev log)
  end.

Definition fs_handle (st : fstate) (h : nat) : option bytes := nth_error (fs_hnd st) h.
Definition fs_add_handle (st : fstate) (c : bytes) : fstate :=
  {| fs_fs := fs_fs st; fs_hnd := fs_hnd st ++ [c]; fs_ctr := fs_ctr st; fs_str := fs_str st |}.

Definition fs_step (cfg : fscfg) (st : fstate) (o : op) : fstate * obs * list ev :=
  match o with
  | ONew c => (fs_add_handle st c, OUnit, [])
  | OMut h c =>
      match fs_handle st h with
      | Some old => ({| fs_fs := fs_fs st; fs_hnd := upd (fs_hnd st) h (go_copy old c); fs_ctr := fs_ctr st;
                        fs_str := fs_str st |}, OUnit, [])
      | None => (st, OBadHandle, [])
      end
  | OPut k h =>
      match fs_handle st h with
      | Some c => fs_put cfg st WPut k [c]
      | None => (st, OBadHandle, [])
      end
  | OPutStream k hs | OPutVec k hs =>
      match gather (fs_handle st) hs with
      | Some cs => fs_put cfg st WVec k cs
      | None => (st, OBadHandle, [])
      end
  | OGet k | OPeek k =>       (* no Peek on fsstore: storage.Peek falls back to Get *)
      match fs_open cfg (fs_fs st) k with
      | None => (st, OPanic, [])
      | Some (Ok (File c), log) => (fs_add_handle st c, OBytes c, log)
      | Some (Ok Dir, log) => (st, OErr EISDIR, log)      (* io.ReadAll on a directory *)
      | Some (Err e, log) => (st, OErr e, log)
      end
  | OGetStream k =>
      match fs_open cfg (fs_fs st) k with
      | None => (st, OPanic, [])
      | Some (Ok (File c), log) => (st, OBytes c, log)
      | Some (Ok Dir, log) => (st, OStreamErr EISDIR, log)
      | Some (Err e, log) => (st, OErr e, log)
      end
  | OHas k => let '(ob, log) := fs_has cfg (fs_fs st) k in (st, ob, log)
  | OOpen =>
      (* PutStream: the staging file is created now and stays open *)
      let sp := stage_path (f_base cfg) (stage_name (fs_ctr st)) in
      let '(f1, r, log) := do_sys (fs_fs st) (SCreat sp) [] in
      ({| fs_fs := f1; fs_hnd := fs_hnd st; fs_ctr := fs_ctr st + 1;
          fs_str := fs_str st ++ [match r with Ok _ => Some sp | Err _ => None end] |},
       match r with Ok _ => OOk | Err e => OErr e end, rev log)
  | OWrite sid h =>
      match nth_error (fs_str st) sid, fs_handle st h with
      | Some (Some sp), Some c =>
          let '(f1, r, log) := do_sys (fs_fs st) (SWrite sp c) [] in
          ({| fs_fs := f1; fs_hnd := fs_hnd st; fs_ctr := fs_ctr st; fs_str := fs_str st |},
           match r with Ok _ => OOk | Err e => OErr e end, rev log)
      | Some None, Some _ => (st, OErr EOTHER, [])        (* "file already closed" *)
      | _, _ => (st, OBadHandle, [])
      end
  | OCommit sid k =>
      match nth_error (fs_str st) sid with
      | None => (st, OBadHandle, [])
      | Some None => (st, OErr EOTHER, [])                 (* Close of a closed file *)
      | Some (Some sp) =>
          let dest := match k with
                      | [] => Some None
                      | _ => match path_for_key cfg k with Some d => Some (Some d) | None => None end
                      end in
          match dest with
          | None => (st, OPanic, [])
          | Some d =>
              (* (the staging file exists already: no name is drawn any more; [we_names] is only read by WCreate) *)
              let env := {| we_base := f_base cfg; we_names := fun _ => last_comp sp;
                            we_dest := d; we_kind := WVec; we_empty_ok := q_empty_ok cfg;
                            we_exist_fails := q_mkdir_exist_fails cfg |} in
              let '(f1, r, log) := w_run (w_fuel env []) env (fs_fs st) (WClose sp None) [] in
              ({| fs_fs := f1; fs_hnd := fs_hnd st; fs_ctr := fs_ctr st; fs_str := upd (fs_str st) sid None |},
               obs_of_res r, rev log)
          end
      end
  end.

(* observations and, after every operation, the whole file system *)
Fixpoint fs_run (cfg : fscfg) (st : fstate) (ops : list op) : list (obs * fs * list ev) :=
  match ops with
  | [] => []
  | o :: r => let '(st1, ob, log) := fs_step cfg st o in (ob, fs_fs st1, log) :: fs_run cfg st1 r
  end.

(* Init / CheckAndMakeBasepath on an existing tree *)
Definition fs_init (cfg : fscfg) (f : fs) : fs * res errno unit :=
  match sys_exec f (SStat (f_base cfg)) with
  | (_, Ok (RVNode Dir)) =>
      match sys_exec f (SMkdir (staging_dir (f_base cfg))) with
      | (f1, Ok _) => (f1, Ok tt)
      | (_, Err EEXIST) =>
          match sys_exec f (SStat (staging_dir (f_base cfg))) with
          | (_, Ok (RVNode Dir)) => (f, Ok tt)
          | (_, Ok _) => (f, Err ENOTDIR)
          | (_, Err e) => (f, Err e)
          end
      | (_, Err e) => (f, Err e)
      end
  | (_, Ok _) => (f, Err ENOTDIR)
  | (_, Err e) => (f, Err e)
  end.

(* every prefix of p as a directory: MkdirAll(p) on the empty file system *)
Fixpoint dirs_of (pre : path) (p : path) : fs :=
  match p with
  | [] => []
  | c :: r => (pre ++ [c], Dir) :: dirs_of (pre ++ [c]) r
  end.
Definition fs_fresh (cfg : fscfg) : fs := fst (fs_init cfg (dirs_of [] (f_base cfg))).

Definition fstate0 (cfg : fscfg) : fstate := {| fs_fs := fs_fresh cfg; fs_hnd := []; fs_ctr := 0; fs_str := [] |}.

Definition pinned_cfg (base : path) (sh : shardfn) : fscfg :=
  {| f_base := base; f_shard := sh; f_esc := b32enc; q_no_escape := true; q_empty_ok := true;
     q_mkdir_exist_fails := true |}.
Definition repaired_cfg (base : path) (sh : shardfn) : fscfg :=
  {| f_base := base; f_shard := sh; f_esc := b32enc; q_no_escape := false; q_empty_ok := false;
     q_mkdir_exist_fails := false |}.
