(* Store/FsCrash.v — concurrent writers, crashes and failing system calls (C18).
   MODEL file: definitions only.

   A writer is the machine of Store/FsStore.v ([wpc]; one system call per step) for one
   Put / PutVec / PutStream-and-commit.  An execution is a finite list of scheduler events:
     [SStep i]        writer i performs its next system call, atomically, on the shared file system;
     [SFail i e n]    writer i's next system call fails with e and has NO effect — except a write,
                      which may first have appended the first n bytes of its chunk (short write).
   The list may stop anywhere: every prefix of an execution is an execution, which is the crash
   (kill -9 / power cut of the process, abandoned or cancelled stream) of the property text.
   Readers take no step of their own: a reader that opens a key at some instant sees the node
   that is there at that instant, so "every reachable state is absent-or-complete" is the reader's
   guarantee.

   POSIX facts built into [sys_exec] (and listed as TRUSTED): renameat is atomic and replaces the
   destination; O_CREAT|O_EXCL fails when the name exists; a file created under <base>/.temp is
   visible under no other name until it is renamed; an open descriptor keeps referring to the
   inode it was opened on. *)
Require Import IP.Base.Bytes IP.Store.Storage IP.Store.FsStore.
Open Scope N_scope.

Record writer := {
  w_env : wenv;
  w_key : key;                  (* ghost: what this writer is committing ... *)
  w_chunks : list bytes;        (* ... and the content, as the chunks it writes *)
  w_pc : wpc
}.

Definition w_content (w : writer) : bytes := concat (w_chunks w).

(* a writer at its first instruction, for key k <> "" *)
Definition mk_writer (cfg : fscfg) (names : nat -> comp) (kind : wkind) (k : key) (chunks : list bytes)
  : option writer :=
  match path_for_key cfg k with
  | None => None
  | Some d =>
      Some {| w_env := {| we_base := f_base cfg; we_names := names; we_dest := Some d;
                          we_kind := kind; we_empty_ok := q_empty_ok cfg;
                          we_exist_fails := q_mkdir_exist_fails cfg |};
              w_key := k; w_chunks := chunks; w_pc := WCreate 0 chunks |}
  end.

(* commit(""): the abort of a stream *)
Definition mk_aborter (cfg : fscfg) (names : nat -> comp) (chunks : list bytes) : writer :=
  {| w_env := {| we_base := f_base cfg; we_names := names; we_dest := None;
                 we_kind := WVec; we_empty_ok := q_empty_ok cfg;
                 we_exist_fails := q_mkdir_exist_fails cfg |};
     w_key := []; w_chunks := chunks; w_pc := WCreate 0 chunks |}.

Inductive sev :=
  | SStep (i : nat)
  | SFail (i : nat) (e : errno) (part : nat).

Definition set_pc (w : writer) (pc : wpc) : writer :=
  {| w_env := w_env w; w_key := w_key w; w_chunks := w_chunks w; w_pc := pc |}.

(* what a failing system call may still have done *)
Definition fail_effect (f : fs) (s : sysc) (part : nat) : fs :=
  match s with
  | SWrite p c => fst (sys_exec f (SWrite p (firstn part c)))
  | _ => f
  end.

Definition exec_ev (f : fs) (ws : list writer) (e : sev) : fs * list writer :=
  match e with
  | SStep i =>
      match nth_error ws i with
      | None => (f, ws)
      | Some w =>
          match w_next (w_env w) (w_pc w) with
          | None => (f, ws)
          | Some s =>
              let '(f1, r) := sys_exec f s in
              (f1, upd ws i (set_pc w (w_step (w_env w) (w_pc w) r)))
          end
      end
  | SFail i err part =>
      match nth_error ws i with
      | None => (f, ws)
      | Some w =>
          match w_next (w_env w) (w_pc w) with
          | None => (f, ws)
          | Some s => (fail_effect f s part, upd ws i (set_pc w (w_step (w_env w) (w_pc w) (Err err))))
          end
      end
  end.

Fixpoint exec (f : fs) (ws : list writer) (sched : list sev) : fs * list writer :=
  match sched with
  | [] => (f, ws)
  | e :: r => let '(f1, ws1) := exec_ev f ws e in exec f1 ws1 r
  end.

(* ---- single-writer fault scenarios, as replayed against the real binary by the C18 harness ---- *)

Inductive fault :=
  | FNone                       (* run to completion *)
  | FKill (at_ : nat)           (* the process dies before its [at_]-th system call (0-based) *)
  | FErr (at_ : nat) (e : errno). (* that call fails with e *)

(* [xdev]: the staging directory lies on another file system than the shard directories (a symlink
   or a mount).  Nothing changes for create / write / close / unlink; a rename that would otherwise
   succeed is refused by the kernel with EXDEV and has no effect — an instance of "this step fails"
   ([SFail]), so the theorems cover it. *)
Definition sys_exec_x (xdev : bool) (f : fs) (s : sysc) : fs * res errno rv :=
  let '(f1, r) := sys_exec f s in
  if xdev then
    match s, r with
    | SRename _ _, Ok _ => (f, Err EXDEV)
    | _, _ => (f1, r)
    end
  else (f1, r).

(* run one writer alone under a fault; returns the trace (oldest first) as well *)
Fixpoint run_fault (xdev : bool) (fuel : nat) (n : nat) (flt : fault) (env : wenv) (f : fs) (pc : wpc) (log : list ev)
  : fs * wpc * list ev :=
  match fuel with
  | O => (f, pc, rev log)
  | S fu =>
    match w_next env pc with
    | None => (f, pc, rev log)
    | Some s =>
        match flt with
        | FKill k => if Nat.eqb k n then (f, pc, rev log)
                     else let '(f1, r) := sys_exec_x xdev f s in
                          run_fault xdev fu (S n) flt env f1 (w_step env pc r) ((s, r) :: log)
        | FErr k e => if Nat.eqb k n
                      then run_fault xdev fu (S n) flt env f (w_step env pc (Err e)) ((s, Err e) :: log)
                      else let '(f1, r) := sys_exec_x xdev f s in
                           run_fault xdev fu (S n) flt env f1 (w_step env pc r) ((s, r) :: log)
        | FNone => let '(f1, r) := sys_exec_x xdev f s in
                   run_fault xdev fu (S n) flt env f1 (w_step env pc r) ((s, r) :: log)
        end
    end
  end.
