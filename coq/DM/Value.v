(* DM/Value.v — the IPLD data model as an inductive type. MODEL file. *)
Require Import IP.Base.Bytes.
Open Scope N_scope.

(* Floats are IEEE-754 binary64 bit patterns (N < 2^64).
   Links are the binary form of a CID (Link.Binary()).
   Ints range over [-2^63, 2^64): values above int64 are what UintNode holds. *)
Inductive dm :=
| DNull
| DBool (b : bool)
| DInt (z : Z)
| DFloat (bits : N)
| DString (s : bytes)
| DBytes (s : bytes)
| DLink (c : bytes)
| DList (l : list dm)
| DMap (m : list (bytes * dm)).

Section dm_ind2.
  Variable P : dm -> Prop.
  Hypothesis Hn : P DNull.
  Hypothesis Hb : forall b, P (DBool b).
  Hypothesis Hi : forall z, P (DInt z).
  Hypothesis Hf : forall f, P (DFloat f).
  Hypothesis Hs : forall s, P (DString s).
  Hypothesis Hy : forall s, P (DBytes s).
  Hypothesis Hk : forall c, P (DLink c).
  Hypothesis Hl : forall l, Forall P l -> P (DList l).
  Hypothesis Hm : forall m, Forall (fun kv => P (snd kv)) m -> P (DMap m).
  Fixpoint dm_ind2 (v : dm) : P v :=
    match v with
    | DNull => Hn | DBool b => Hb b | DInt z => Hi z | DFloat f => Hf f
    | DString s => Hs s | DBytes s => Hy s | DLink c => Hk c
    | DList l => Hl l ((fix go (l : list dm) : Forall P l :=
        match l with [] => Forall_nil _ | x :: r => Forall_cons _ (dm_ind2 x) (go r) end) l)
    | DMap m => Hm m ((fix go (m : list (bytes * dm)) : Forall (fun kv => P (snd kv)) m :=
        match m with [] => Forall_nil _ | kv :: r => Forall_cons _ (dm_ind2 (snd kv)) (go r) end) m)
    end.
End dm_ind2.

(* float bit predicates *)
Definition f64_exp (b : N) : N := (b / 4503599627370496) mod 2048.
Definition f64_man (b : N) : N := b mod 4503599627370496.
Definition f64_is_nan (b : N) : bool := (f64_exp b =? 2047) && negb (f64_man b =? 0).
Definition f64_is_inf (b : N) : bool := (f64_exp b =? 2047) && (f64_man b =? 0).
Definition f64_finite (b : N) : bool := negb (f64_exp b =? 2047).

(* structural equality (decidable) — float bits compared exactly *)
Fixpoint dm_eqb (a b : dm) {struct a} : bool :=
  match a, b with
  | DNull, DNull => true
  | DBool x, DBool y => Bool.eqb x y
  | DInt x, DInt y => Z.eqb x y
  | DFloat x, DFloat y => N.eqb x y
  | DString x, DString y => bytes_eqb x y
  | DBytes x, DBytes y => bytes_eqb x y
  | DLink x, DLink y => bytes_eqb x y
  | DList x, DList y =>
      (fix go (x y : list dm) : bool :=
         match x, y with
         | [], [] => true
         | a :: x', b :: y' => dm_eqb a b && go x' y'
         | _, _ => false
         end) x y
  | DMap x, DMap y =>
      (fix go (x y : list (bytes * dm)) : bool :=
         match x, y with
         | [], [] => true
         | (k, a) :: x', (k', b) :: y' => bytes_eqb k k' && dm_eqb a b && go x' y'
         | _, _ => false
         end) x y
  | _, _ => false
  end.

(* sort every map of a value by a key order *)
Fixpoint sort_maps (ltb : bytes -> bytes -> bool) (v : dm) : dm :=
  match v with
  | DList l => DList (map (sort_maps ltb) l)
  | DMap m => DMap (sort_kv ltb (map (fun kv => (fst kv, sort_maps ltb (snd kv))) m))
  | _ => v
  end.

(* nesting depth of containers *)
Fixpoint dm_depth (v : dm) : nat :=
  match v with
  | DList l => S (fold_right (fun x a => Nat.max (dm_depth x) a) O l)
  | DMap m => S (fold_right (fun kv a => Nat.max (dm_depth (snd kv)) a) O m)
  | _ => O
  end.
