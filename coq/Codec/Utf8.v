(* Codec/Utf8.v — Go's unicode/utf8 DecodeRune / EncodeRune and unicode/utf16 surrogate pairs,
   as used by refmt's JSON emitString / parseString.  MODEL file: definitions only.

   utf8.DecodeRune (first[] table + acceptRanges):
     00..7F  one byte;  80..C1, F5..FF invalid;  C2..DF two bytes (80..BF);
     E0 three (A0..BF, 80..BF);  E1..EC, EE..EF three (80..BF);  ED three (80..9F);
     F0 four (90..BF);  F1..F3 four (80..BF);  F4 four (80..8F).
   Every failure (short input, byte out of its range) yields (RuneError, 1). *)
Require Import IP.Base.Bytes.
Open Scope N_scope.

Definition rune_error : N := 65533.

Definition is_cont (b : N) : bool := (128 <=? b) && (b <=? 191).

Definition utf8_decode (s : bytes) : N * nat :=
  match s with
  | [] => (rune_error, O)
  | b0 :: r =>
    if b0 <? 128 then (b0, 1%nat)
    else if (b0 <? 194) || (244 <? b0) then (rune_error, 1%nat)
    else if b0 <? 224 then
      match r with
      | b1 :: _ => if is_cont b1 then ((b0 - 192) * 64 + (b1 - 128), 2%nat) else (rune_error, 1%nat)
      | _ => (rune_error, 1%nat)
      end
    else if b0 <? 240 then
      let lo := if b0 =? 224 then 160 else 128 in
      let hi := if b0 =? 237 then 159 else 191 in
      match r with
      | b1 :: b2 :: _ =>
        if (lo <=? b1) && (b1 <=? hi) && is_cont b2
        then ((b0 - 224) * 4096 + (b1 - 128) * 64 + (b2 - 128), 3%nat)
        else (rune_error, 1%nat)
      | _ => (rune_error, 1%nat)
      end
    else
      let lo := if b0 =? 240 then 144 else 128 in
      let hi := if b0 =? 244 then 143 else 191 in
      match r with
      | b1 :: b2 :: b3 :: _ =>
        if (lo <=? b1) && (b1 <=? hi) && is_cont b2 && is_cont b3
        then ((b0 - 240) * 262144 + (b1 - 128) * 4096 + (b2 - 128) * 64 + (b3 - 128), 4%nat)
        else (rune_error, 1%nat)
      | _ => (rune_error, 1%nat)
      end
  end.

Definition is_surrogate (r : N) : bool := (55296 <=? r) && (r <? 57344).

(* utf8.EncodeRune: surrogates and values above MaxRune are written as U+FFFD *)
Definition utf8_encode (r : N) : bytes :=
  if r <? 128 then [r]
  else if r <? 2048 then [192 + r / 64; 128 + r mod 64]
  else if (1114111 <? r) || is_surrogate r then [239; 191; 189]
  else if r <? 65536 then [224 + r / 4096; 128 + (r / 64) mod 64; 128 + r mod 64]
  else [240 + r / 262144; 128 + (r / 4096) mod 64; 128 + (r / 64) mod 64; 128 + r mod 64].

(* utf16.DecodeRune: a high surrogate followed by a low one; anything else is U+FFFD *)
Definition utf16_pair (r1 r2 : N) : N :=
  if (55296 <=? r1) && (r1 <? 56320) && (56320 <=? r2) && (r2 <? 57344)
  then (r1 - 55296) * 1024 + (r2 - 56320) + 65536
  else rune_error.

(* utf8.ValidString, by the same decoder: no position decodes to (RuneError, 1) *)
Fixpoint utf8_valid_fuel (fuel : nat) (s : bytes) : bool :=
  match fuel with
  | O => match s with [] => true | _ => false end
  | S f =>
    match s with
    | [] => true
    | _ =>
      let '(r, sz) := utf8_decode s in
      if (r =? rune_error) && Nat.eqb sz 1 then false else utf8_valid_fuel f (skipn sz s)
    end
  end.
Definition utf8_valid (s : bytes) : bool := utf8_valid_fuel (length s) s.
