(* Codec/Cid.v — binary CID validity as go-cid's Cast decides it
   (go-cid v0.6.2 CidFromBytes + go-varint FromUvarint + go-multihash readMultihashFromBuf).
   MODEL file. Tied to the real library by the correspondence runs of C03 (every link-shaped
   input goes through cid.Cast in the implementation and through [cid_valid] here). *)
Require Import IP.Base.Bytes.
Open Scope N_scope.

(* go-varint FromUvarint: at most 9 bytes, minimal encoding required *)
Fixpoint uvarint_go (i : nat) (x s : N) (bs : bytes) : option (N * bytes) :=
  match bs with
  | [] => None
  | b :: r =>
    if (Nat.eqb i 8 && (128 <=? b)) || Nat.leb 9 i then None
    else if b <? 128 then
      (if (b =? 0) && (0 <? s) then None else Some (x + b * 2 ^ s, r))
    else uvarint_go (S i) (x + (b mod 128) * 2 ^ s) (s + 7) r
  end.
Definition uvarint (bs : bytes) : option (N * bytes) := uvarint_go 0 0 0 bs.

(* multihash framing: code varint, length varint, exactly [length] digest bytes must remain
   (Cast demands that the whole buffer is consumed) *)
Definition mh_valid_exact (bs : bytes) : bool :=
  if lenN bs <? 2 then false else
  match uvarint bs with
  | None => false
  | Some (_, r1) =>
    match uvarint r1 with
    | None => false
    | Some (len, r2) => (len <=? 2147483647) && (len =? lenN r2)
    end
  end.

Definition cid_valid (c : bytes) : bool :=
  match c with
  | 18 :: 32 :: _ :: _ => lenN c =? 34
  | _ =>
    match uvarint c with
    | Some (1, r1) =>
      match uvarint r1 with
      | Some (_, r2) => mh_valid_exact r2
      | None => false
      end
    | _ => false
    end
  end.
