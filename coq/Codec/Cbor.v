(* Codec/Cbor.v — executable model of codec/dagcbor (marshal.go, unmarshal.go) fused with
   the refmt v0.90 CBOR encoder/tokenizer it delegates to.  MODEL file: no proofs here.

   Mirrors, branch for branch:
     marshal / marshalMap (AllowLinks, MapSortMode None|Lexical|RFC7049), EncodedLength,
     refmt emitMajorPlusLen / encodeInt64 / encodeUint64 / encodeFloat64,
     DecodeOptions.Decode (trailing probe, DontParseBeyondEnd), unmarshal1/2 (budget, depth,
     string keys, duplicate keys, tag 42 + 0x00 + cid.Cast, uint node above int64),
     refmt stepHelper_acceptValue / decodeUint / decodeNegInt (incl. its uint64 wrap) /
     decodeLen / decodeBytes / decodeString (32 MiB cap) / decodeFloat / halfFloatToFloatBits,
     RejectIndefinite (always), RejectNonMinimalInteger / RejectNaN / RejectInfinity (strict),
     CoerceUndefToNull, single-level tags.
   Constants that the Go code names (mapEntryCost, listEntryCost, linkTag, defaults, the
   uintLength table) are taken from Gen/FromGo.v, regenerated from /repo on every run. *)
Require Import IP.Base.Bytes IP.DM.Value IP.Codec.Cid IP.Gen.FromGo.
Open Scope N_scope.

(* ------------------------------------------------------------------ encoder *)

Definition head (mj arg : N) : bytes :=
  if arg <? 24 then [mj * 32 + arg]
  else if arg <? 256 then (mj * 32 + 24) :: be 1 arg
  else if arg <? 65536 then (mj * 32 + 25) :: be 2 arg
  else if arg <? 4294967296 then (mj * 32 + 26) :: be 4 arg
  else (mj * 32 + 27) :: be 8 arg.

Inductive sortmode := SortNone | SortLexical | SortRFC7049.
Record eopts := { e_allow_links : bool; e_sort : sortmode }.
Definition dagcbor_eopts := {| e_allow_links := true; e_sort := SortRFC7049 |}.

Inductive eerr := EELink | EEOther.

Definition sort_entries {V} (m : sortmode) (l : list (bytes * V)) : list (bytes * V) :=
  match m with
  | SortNone => l
  | SortLexical => sort_kv bytes_ltb l
  | SortRFC7049 => sort_kv rfc_ltb l
  end.

Definition enc_int (z : Z) : bytes :=
  if (0 <=? z)%Z then head 0 (Z.to_N z) else head 1 (Z.to_N (-1 - z)).

Definition enc_str (s : bytes) : bytes := head 3 (lenN s) ++ s.

Definition enc_link (c : bytes) : bytes :=
  head 6 go_linkTag ++ head 2 (lenN c + 1) ++ 0 :: c.

Fixpoint enc (o : eopts) (v : dm) : res eerr bytes :=
  match v with
  | DNull => Ok [246]
  | DBool false => Ok [244]
  | DBool true => Ok [245]
  | DInt z => Ok (enc_int z)
  | DFloat f => Ok (251 :: be 8 f)
  | DString s => Ok (enc_str s)
  | DBytes s => Ok (head 2 (lenN s) ++ s)
  | DLink c => if e_allow_links o then Ok (enc_link c) else Err EELink
  | DList l =>
      do body <- (fix go (l : list dm) : res eerr bytes :=
                    match l with
                    | [] => Ok []
                    | x :: r => do a <- enc o x; do b <- go r; Ok (a ++ b)
                    end) l;
      Ok (head 4 (lenN l) ++ body)
  | DMap m =>
      (* values are encoded in the order the (possibly sorted) entries are emitted;
         the sort only looks at keys, so sorting (key, encoded value) pairs is the same *)
      do ents <- (fix go (m : list (bytes * dm)) : res eerr (list (bytes * bytes)) :=
                    match m with
                    | [] => Ok []
                    | (k, x) :: r => do a <- enc o x; do b <- go r; Ok ((k, a) :: b)
                    end) m;
      Ok (head 5 (lenN m) ++
          concat (map (fun kb => enc_str (fst kb) ++ snd kb) (sort_entries (e_sort o) ents)))
  end.

(* EncodedLength, as coded: note Kind_Int goes through AsInt (int64 only) *)
Inductive lerr := LEIntRange.

Definition uint_length (a : N) : Z := go_uintLength (Z.of_N a).

Fixpoint enc_len (uint_fixed : bool) (v : dm) : res lerr Z :=
  match v with
  | DNull | DBool _ => Ok 1%Z
  | DInt z =>
      if (two63z <=? z)%Z then
        (if uint_fixed then Ok (uint_length (Z.to_N z)) else Err LEIntRange)
      else Ok (uint_length (Z.to_N (if (z <? 0)%Z then -z - 1 else z)))
  | DFloat _ => Ok 9%Z
  | DString s | DBytes s => Ok (uint_length (lenN s) + Z.of_N (lenN s))%Z
  | DLink c => let bl := (Z.of_N (lenN c) + 1)%Z in Ok (2 + (uint_length (Z.to_N bl) + bl))%Z
  | DList l =>
      (fix go (l : list dm) (acc : Z) : res lerr Z :=
         match l with
         | [] => Ok acc
         | x :: r => do a <- enc_len uint_fixed x; go r (acc + a)%Z
         end) l (uint_length (lenN l))
  | DMap m =>
      (fix go (m : list (bytes * dm)) (acc : Z) : res lerr Z :=
         match m with
         | [] => Ok acc
         | (k, x) :: r =>
             let kl := (uint_length (lenN k) + Z.of_N (lenN k))%Z in
             do a <- enc_len uint_fixed x; go r (acc + kl + a)%Z
         end) m (uint_length (lenN m))
  end.

(* ------------------------------------------------------------------ decoder *)

Record dopts := {
  d_allow_links : bool;
  d_relaxed : bool;
  d_dont_parse_beyond : bool;
  d_budget : Z;        (* AllocationBudget as configured (0 = default) *)
  d_max_depth : Z;     (* MaxDepth as configured (<= 0 = default) *)
  d_reject_tags : bool (* true: tags on anything but a byte string are refused (repaired tree);
                          false: refmt's Tagged flag is ignored off byte strings (pinned tree) *)
}.

Inductive derr := DBudget | DDepth | DTrailing | DOther | DFuel.

Definition max_depth (o : dopts) : Z :=
  if (0 <? d_max_depth o)%Z then d_max_depth o else go_defaultMaxDepth.
Definition budget0 (o : dopts) : Z :=
  if (d_budget o =? 0)%Z then go_defaultAllocationBudget else d_budget o.

(* refmt decodeUint: value of a head's argument, with the minimality rule when strict *)
Definition dec_arg (strict : bool) (ai : N) (r : bytes) : option (N * bytes) :=
  if ai <? 24 then Some (ai, r)
  else
    let k := if ai =? 24 then Some (1, 24) else if ai =? 25 then Some (2, 256)
             else if ai =? 26 then Some (4, 65536) else if ai =? 27 then Some (8, 4294967296)
             else None in
    match k with
    | None => None
    | Some (w, lo) =>
      match take w r with
      | None => None
      | Some (x, r') =>
        let v := unbe x 0 in
        if strict && (v <? lo) then None else Some (v, r')
      end
    end.

(* refmt decodeLen: result must fit Go's int *)
Definition dec_len (strict : bool) (ai : N) (r : bytes) : option (N * bytes) :=
  match dec_arg strict ai r with
  | Some (v, r') => if two63 <=? v then None else Some (v, r')
  | None => None
  end.

Definition str_cap : N := 33554432.

(* binary32 -> binary64 bit widening (Go's float64(float32)) *)
Definition widen32 (b : N) : N :=
  let s := b / 2147483648 in
  let e := (b / 8388608) mod 256 in
  let m := b mod 8388608 in
  let sign := s * 9223372036854775808 in
  if e =? 0 then
    if m =? 0 then sign
    else let p := N.log2 m in
         sign + (p + 874) * 4503599627370496 + (m - 2 ^ p) * 2 ^ (52 - p)
  else if e =? 255 then
    sign + 2047 * 4503599627370496 + m * 536870912
  else sign + (e + 896) * 4503599627370496 + m * 536870912.

(* refmt halfFloatToFloatBits: binary16 -> binary32 bits *)
Definition half_to_single (y : N) : N :=
  let s := (y / 32768) mod 2 in
  let e := (y / 1024) mod 32 in
  let m := y mod 1024 in
  let sign := s * 2147483648 in
  if e =? 0 then
    if m =? 0 then sign
    else let p := N.log2 m in
         sign + (p + 103) * 8388608 + (m - 2 ^ p) * 2 ^ (23 - p)
  else if e =? 31 then
    (if m =? 0 then sign + 2139095040 else sign + 2139095040 + m * 8192)
  else sign + (e + 112) * 8388608 + m * 8192.

Definition widen16 (y : N) : N := widen32 (half_to_single y).

(* NaN produced by float32->float64 conversion is quieted by the hardware; we never compare NaN
   payloads (observables canonicalise NaN), so the model only needs NaN-ness, which is preserved *)

Definition check_float (strict : bool) (f : N) : option N :=
  if strict && (f64_is_nan f || f64_is_inf f) then None else Some f.

Definition spend (bud cost : Z) : res derr Z :=
  let b := (bud - cost)%Z in if (b <? 0)%Z then Err DBudget else Ok b.

(* A map key: the tokenizer accepts any item, dagcbor only a string token.  On the pinned tree a
   single tag in front of the key is skipped by the tokenizer and ignored by dagcbor. *)
Definition dec_key_str (strict : bool) (bs : bytes) : option (bytes * bytes) :=
  match bs with
  | [] => None
  | b :: r =>
    if b =? 127 then None
    else if b / 32 =? 3 then
      match dec_len strict (b mod 32) r with
      | None => None
      | Some (n, r') => if str_cap <? n then None else take n r'
      end
    else None
  end.

Definition dec_key (strict reject_tags : bool) (bs : bytes) : option (bytes * bytes) :=
  match bs with
  | [] => None
  | b :: r =>
    if (b / 32 =? 6) && negb reject_tags then
      match dec_len strict (b mod 32) r with
      | None => None
      | Some (_, r') => dec_key_str strict r'
      end
    else dec_key_str strict bs
  end.

(* One data item.  [tag] is the tag already read in front of this item (refmt reads a single
   level of tags).  [pre] is a cost the caller charges after the item's first token has been
   read successfully and before it is processed (listEntryCost for list elements).
   Returns the value, the remaining budget and the remaining input.

   The bodies are written as non-recursive functions of the recursive calls (rv, ri, re) so
   that lemmas about one step can be stated without unfolding the fixpoint. *)
Definition vres := res derr (dm * Z * bytes).
Definition ires := res derr (list dm * Z * bytes).
Definition eres := res derr (list (bytes * dm) * Z * bytes).

Section Bodies.
  Variable rv : Z -> Z -> option Z -> option N -> bytes -> vres.   (* depth bud pre tag bs *)
  Variable ri : Z -> Z -> N -> bytes -> ires.                      (* depth bud n bs *)
  Variable re : Z -> Z -> N -> list bytes -> bytes -> eres.        (* depth bud n seen bs *)
  Variable o : dopts.

  Definition prespend (bud : Z) (pre : option Z) : res derr Z :=
    match pre with Some c => spend bud c | None => Ok bud end.

  (* token read; charge [pre]; refuse a tag (repaired tree); continue with the budget *)
  Definition post (bud : Z) (pre : option Z) (tag : option N) (k : Z -> vres) : vres :=
    do bud1 <- prespend bud pre;
    match tag with
    | Some _ => if d_reject_tags o then Err DOther else k bud1
    | None => k bud1
    end.

  (* after the head (major type mj < 7, argument a) has been read *)
  Definition dec_major (depth bud : Z) (pre : option Z) (tag : option N) (mj a : N) (r : bytes) : vres :=
    if mj =? 0 then
      post bud pre tag (fun bud1 => do bud' <- spend bud1 1; Ok (DInt (Z.of_N a), bud', r))
    else if mj =? 1 then
      (* refmt: pos := ui + 1 (uint64, wraps); if pos > 2^63 error; -int64(pos) *)
      let pos := (a + 1) mod two64 in
      if two63 <? pos then Err DOther
      else post bud pre tag (fun bud1 => do bud' <- spend bud1 1; Ok (DInt (- Z.of_N pos), bud', r))
    else if two63 <=? a then Err DOther       (* decodeLen: must fit Go's int *)
    else if mj =? 2 then
      if str_cap <? a then Err DOther else
      match take a r with
      | None => Err DOther
      | Some (s, r'') =>
        do bud1 <- prespend bud pre;
        do bud' <- spend bud1 (Z.of_N a);
        match tag with
        | None => Ok (DBytes s, bud', r'')
        | Some t =>
          if (t =? go_linkTag) && d_allow_links o then
            match s with
            | 0 :: c => if cid_valid c then Ok (DLink c, bud', r'') else Err DOther
            | _ => Err DOther
            end
          else Err DOther
        end
      end
    else if mj =? 3 then
      if str_cap <? a then Err DOther else
      match take a r with
      | None => Err DOther
      | Some (s, r'') =>
        post bud pre tag (fun bud1 => do bud' <- spend bud1 (Z.of_N a); Ok (DString s, bud', r''))
      end
    else if mj =? 4 then
      post bud pre tag (fun bud1 =>
        if (max_depth o <=? depth)%Z then Err DDepth else
        do bud' <- spend bud1 (Z.of_N a);
        do res <- ri depth bud' a r;
        let '(vs, bud'', r'') := res in Ok (DList vs, bud'', r''))
    else if mj =? 5 then
      post bud pre tag (fun bud1 =>
        if (max_depth o <=? depth)%Z then Err DDepth else
        do bud' <- spend bud1 (Z.of_N a);
        do res <- re depth bud' a [] r;
        let '(vs, bud'', r'') := res in Ok (DMap vs, bud'', r''))
    else (* mj = 6 *)
      match tag with
      | Some _ => Err DOther                    (* multiple tags on one item *)
      | None => rv depth bud pre (Some a) r
      end.

  Definition dec_val_body (depth bud : Z) (pre : option Z) (tag : option N) (bs : bytes) : vres :=
    let strict := negb (d_relaxed o) in
    match bs with
    | [] => Err DOther
    | b :: r =>
      if (b =? 246) || (b =? 247) then post bud pre tag (fun bud1 => Ok (DNull, bud1, r))
      else if b =? 244 then post bud pre tag (fun bud1 => do bud' <- spend bud1 1; Ok (DBool false, bud', r))
      else if b =? 245 then post bud pre tag (fun bud1 => do bud' <- spend bud1 1; Ok (DBool true, bud', r))
      else if (b =? 249) || (b =? 250) || (b =? 251) then
        let w := if b =? 249 then 2 else if b =? 250 then 4 else 8 in
        match take w r with
        | None => Err DOther
        | Some (x, r') =>
          let raw := unbe x 0 in
          let f := if b =? 249 then widen16 raw else if b =? 250 then widen32 raw else raw in
          match check_float strict f with
          | None => Err DOther
          | Some f => post bud pre tag (fun bud1 => do bud' <- spend bud1 1; Ok (DFloat f, bud', r'))
          end
        end
      else if (b =? 95) || (b =? 127) || (b =? 159) || (b =? 191) then Err DOther  (* indefinite *)
      else if 224 <=? b then Err DOther          (* other simple values, break, 1-byte simple *)
      else
        match dec_arg strict (b mod 32) r with
        | None => Err DOther
        | Some (a, r') => dec_major depth bud pre tag (b / 32) a r'
        end
    end.

  Definition dec_items_body (depth bud : Z) (n : N) (bs : bytes) : ires :=
    if n =? 0 then Ok ([], bud, bs) else
    do r1 <- rv (depth + 1)%Z bud (Some go_listEntryCost) None bs;
    let '(v, bud2, bs2) := r1 in
    do r2 <- ri depth bud2 (n - 1) bs2;
    let '(vs, bud3, bs3) := r2 in Ok (v :: vs, bud3, bs3).

  Definition dec_entries_body (depth bud : Z) (n : N) (seen : list bytes) (bs : bytes) : eres :=
    if n =? 0 then Ok ([], bud, bs) else
    match dec_key (negb (d_relaxed o)) (d_reject_tags o) bs with
    | None => Err DOther
    | Some (k, bs1) =>
      do bud1 <- spend bud (Z.of_N (lenN k) + go_mapEntryCost);
      (* strict: dagcbor's own seenKeys; relaxed: the basicnode map assembler still refuses *)
      if existsb (bytes_eqb k) seen then Err DOther else
      do r1 <- rv (depth + 1)%Z bud1 None None bs1;
      let '(v, bud2, bs2) := r1 in
      do r2 <- re depth bud2 (n - 1) (k :: seen) bs2;
      let '(vs, bud3, bs3) := r2 in Ok ((k, v) :: vs, bud3, bs3)
    end.
End Bodies.

Fixpoint dec_val (fuel : nat) (o : dopts) (depth : Z) (bud : Z) (pre : option Z)
  (tag : option N) (bs : bytes) {struct fuel} : vres :=
  match fuel with
  | O => Err DFuel
  | S f => dec_val_body (dec_val f o) (dec_items f o) (dec_entries f o) o depth bud pre tag bs
  end
with dec_items (fuel : nat) (o : dopts) (depth : Z) (bud : Z) (n : N) (bs : bytes)
  {struct fuel} : ires :=
  match fuel with
  | O => Err DFuel
  | S f => dec_items_body (dec_val f o) (dec_items f o) depth bud n bs
  end
with dec_entries (fuel : nat) (o : dopts) (depth : Z) (bud : Z) (n : N) (seen : list bytes)
  (bs : bytes) {struct fuel} : eres :=
  match fuel with
  | O => Err DFuel
  | S f => dec_entries_body (dec_val f o) (dec_entries f o) o depth bud n seen bs
  end.

Definition dec_fuel (bs : bytes) : nat := 2 * length bs + 2.

(* DecodeOptions.Decode: one item, then the trailing-byte probe *)
Definition decode (o : dopts) (bs : bytes) : res derr (dm * bytes) :=
  match dec_val (dec_fuel bs) o 0 (budget0 o) None None bs with
  | Err e => Err e
  | Ok (v, _, rest) =>
    if d_dont_parse_beyond o then Ok (v, rest)
    else match rest with [] => Ok (v, []) | _ => Err DTrailing end
  end.

Definition dagcbor_dopts (reject_tags : bool) : dopts :=
  {| d_allow_links := true; d_relaxed := false; d_dont_parse_beyond := false;
     d_budget := 0; d_max_depth := 0; d_reject_tags := reject_tags |}.
