(* Codec/DagJson.v — executable model of codec/dagjson (marshal.go, unmarshal.go, multicodec.go),
   codec/json (multicodec.go) and the refmt v0.90 JSON encoder / decoder they delegate to
   (json/jsonEncoder.go, jsonEncoderTerminals.go, jsonDecoder.go, jsonDecoderTerminals.go,
   shared/reader.go).  MODEL file: definitions only.

   Mirrors, branch for branch:
     Marshal (EncodeLinks, EncodeBytes, MapSortMode None|Lexical|RFC7049; the 7-token bytes form,
       the 4-token link form, AsInt for ints, NaN/Inf refused by emitFloat),
     refmt Encoder.Step with Line/Indent = nil (dag-json) and Line="\n", Indent="\t" (json codec),
       emitString (escapes, \u00XX, � for invalid UTF-8,  / ), AppendInt,
     refmt Decoder.Step (frame stack, `some` flags, trailing commas tolerated, any value accepted in
       key position, the frame overwrite after a composite key), readn1skippingWhitespace,
       readLiteralSuffix, decodeString = strscan_* then parseString (its result flag ignored),
       decodeNumber = numscan_* with scan errors ignored, ParseInt first (range error is final),
       then ParseFloat,
     Unmarshal / unmarshalState.{step, ensure, linkLookahead, bytesLookahead, unmarshal}
       (look-ahead window, depth limit, duplicate keys refused by the map assembler),
     DecodeOptions.Decode (trailing slurp incl. 0x00, DontParseBeyondEnd, and the byte lost to
       readerToScanner's one-byte unread buffer after a top-level number).

   Not concrete (Section variables, laws assumed only in the proofs and listed in TRUSTED):
     fmt_float / parse_float : strconv.AppendFloat as used by emitFloat / strconv.ParseFloat;
     cid_str / cid_parse     : Cid.String() / cid.Decode. *)
Require Import IP.Base.Bytes IP.DM.Value IP.Codec.Utf8 IP.Codec.Base64.
Require IP.Gen.FromGo.
Open Scope N_scope.

(* ------------------------------------------------------------------ options, errors *)

Inductive jsort := JSortNone | JSortLexical | JSortRFC7049.
Record jeopts := { je_links : bool; je_bytes : bool; je_sort : jsort }.
Definition dagjson_eopts := {| je_links := true; je_bytes := true; je_sort := JSortLexical |}.
Definition json_eopts := {| je_links := false; je_bytes := false; je_sort := JSortNone |}.

Inductive jeerr := JELink | JEBytes | JEFloat | JEInt | JECid.

Record jdopts := { jd_links : bool; jd_bytes : bool; jd_dont_parse_beyond : bool; jd_max_depth : Z }.
Definition dagjson_dopts := {| jd_links := true; jd_bytes := true; jd_dont_parse_beyond := false; jd_max_depth := 0 |}.
Definition json_dopts := {| jd_links := false; jd_bytes := false; jd_dont_parse_beyond := false; jd_max_depth := 0 |}.

(* codec/dagjson/unmarshal.go: const defaultMaxDepth *)
(* regenerated from codec/dagjson/unmarshal.go on every run *)
Definition jdefault_max_depth : Z := IP.Gen.FromGo.go_json_defaultMaxDepth.
Definition jmax_depth (o : jdopts) : Z :=
  if (0 <? jd_max_depth o)%Z then jd_max_depth o else jdefault_max_depth.

Inductive jderr := JDDepth | JDTrailing | JDOther | JDFuel | JDStale.

Definition jsort_entries {V} (m : jsort) (l : list (bytes * V)) : list (bytes * V) :=
  match m with
  | JSortNone => l
  | JSortLexical => sort_kv bytes_ltb l
  | JSortRFC7049 => sort_kv rfc_ltb l
  end.

(* ------------------------------------------------------------------ strings *)

Definition hexd (v : N) : N := if v <? 10 then 48 + v else 87 + v.

(* emitString, between the quotes *)
Definition esc_ascii (b : N) : bytes :=
  if (32 <=? b) && negb (b =? 92) && negb (b =? 34) then [b]
  else if (b =? 92) || (b =? 34) then [92; b]
  else if b =? 10 then [92; 110]
  else if b =? 13 then [92; 114]
  else if b =? 9 then [92; 116]
  else [92; 117; 48; 48; hexd (b / 16); hexd (b mod 16)].

Fixpoint emit_body (fuel : nat) (s : bytes) : bytes :=
  match fuel with
  | O => []
  | S f =>
    match s with
    | [] => []
    | b :: r =>
      if b <? 128 then esc_ascii b ++ emit_body f r
      else
        let '(c, sz) := utf8_decode s in
        if (c =? rune_error) && Nat.eqb sz 1 then [92; 117; 102; 102; 102; 100] ++ emit_body f r
        else if (c =? 8232) || (c =? 8233) then
          [92; 117; 50; 48; 50; hexd (c mod 16)] ++ emit_body f (skipn sz s)
        else firstn sz s ++ emit_body f (skipn sz s)
    end
  end.

Definition emit_string (s : bytes) : bytes := 34 :: emit_body (length s) s ++ [34].

(* strscan_*: find the closing quote; returns the raw text between the quotes and the input after
   the closing quote *)
Inductive sst := SNormal | SEsc | SHex (k : nat).   (* SHex k: k more hex digits wanted, k = 0..3 *)

Definition is_hex (c : N) : bool :=
  ((48 <=? c) && (c <=? 57)) || ((97 <=? c) && (c <=? 102)) || ((65 <=? c) && (c <=? 70)).

Fixpoint str_scan (st : sst) (bs : bytes) : option (bytes * bytes) :=
  match bs with
  | [] => None
  | c :: r =>
    let continue (st' : sst) :=
      match str_scan st' r with Some (raw, rest) => Some (c :: raw, rest) | None => None end in
    match st with
    | SNormal =>
      if c =? 34 then Some ([], r)
      else if c =? 92 then continue SEsc
      else if c <? 32 then None
      else continue SNormal
    | SEsc =>
      if (c =? 98) || (c =? 102) || (c =? 110) || (c =? 114) || (c =? 116) || (c =? 92) || (c =? 47) || (c =? 34)
      then continue SNormal
      else if c =? 117 then continue (SHex 3)
      else None
    | SHex k =>
      if is_hex c then continue (match k with O => SNormal | S k' => SHex k' end) else None
    end
  end.

Definition hex_val (c : N) : N :=
  if c <=? 57 then c - 48 else if c <=? 70 then c - 55 else c - 87.

(* getu4: \uXXXX at the head of s *)
Definition getu4 (s : bytes) : option N :=
  match s with
  | a :: b :: h1 :: h2 :: h3 :: h4 :: _ =>
    if (a =? 92) && (b =? 117) && is_hex h1 && is_hex h2 && is_hex h3 && is_hex h4
    then Some (hex_val h1 * 4096 + hex_val h2 * 256 + hex_val h3 * 16 + hex_val h4)
    else None
  | _ => None
  end.

(* parseString's slow path (its fast path returns the same bytes): None = the (nil, false) result *)
Fixpoint parse_str (fuel : nat) (s : bytes) : option bytes :=
  match fuel with
  | O => match s with [] => Some [] | _ => None end
  | S f =>
    match s with
    | [] => Some []
    | c :: r =>
      if c =? 92 then
        match r with
        | [] => None
        | e :: r2 =>
          if (e =? 34) || (e =? 92) || (e =? 47) || (e =? 39) then ocons [e] (parse_str f r2)
          else if e =? 98 then ocons [8] (parse_str f r2)
          else if e =? 102 then ocons [12] (parse_str f r2)
          else if e =? 110 then ocons [10] (parse_str f r2)
          else if e =? 114 then ocons [13] (parse_str f r2)
          else if e =? 116 then ocons [9] (parse_str f r2)
          else if e =? 117 then
            match getu4 s with
            | None => None
            | Some rr =>
              let s6 := skipn 6 s in
              if is_surrogate rr then
                let dec := match getu4 s6 with Some rr1 => utf16_pair rr rr1 | None => rune_error end in
                if dec =? rune_error then ocons (utf8_encode rune_error) (parse_str f s6)
                else ocons (utf8_encode dec) (parse_str f (skipn 6 s6))
              else ocons (utf8_encode rr) (parse_str f s6)
            end
          else None
        end
      else if (c =? 34) || (c <? 32) then None
      else if c <? 128 then ocons [c] (parse_str f r)
      else
        let '(rr, sz) := utf8_decode s in
        ocons (utf8_encode rr) (parse_str f (skipn sz s))
    end
  end.

(* decodeString: scan, then parse; a failed parse yields the empty string (ok flag ignored) *)
Definition decode_string (bs : bytes) : option (bytes * bytes) :=
  match str_scan SNormal bs with
  | None => None
  | Some (raw, rest) =>
    Some (match parse_str (length raw) raw with Some s => s | None => [] end, rest)
  end.

(* ------------------------------------------------------------------ integers *)

Definition is_digit (c : N) : bool := (48 <=? c) && (c <=? 57).

(* strconv.AppendInt base 10 *)
Fixpoint ndigits (fuel : nat) (n : N) (acc : bytes) : bytes :=
  match fuel with
  | O => acc
  | S f =>
    let acc' := (48 + n mod 10) :: acc in
    if n <? 10 then acc' else ndigits f (n / 10) acc'
  end.
Definition print_nat (n : N) : bytes := ndigits (S (N.to_nat (N.log2 n))) n [].
Definition print_int (z : Z) : bytes :=
  if (z <? 0)%Z then 45 :: print_nat (Z.to_N (- z)) else print_nat (Z.to_N z).

(* strconv.ParseUint(s, 10, 64): digits are accumulated left to right and the range error is
   raised as soon as the accumulator leaves uint64 -- before a later non-digit is ever looked at *)
Inductive pnat := PSyntax | PRange | PVal (n : N).
Fixpoint digits_scan (ds : bytes) (acc : N) : pnat :=
  match ds with
  | [] => PVal acc
  | d :: r =>
    if is_digit d then
      let acc' := acc * 10 + (d - 48) in
      if two64 <=? acc' then PRange else digits_scan r acc'
    else PSyntax
  end.

(* strconv.ParseInt(s, 10, 64) (the text never starts with '+') *)
Inductive pint := PISyntax | PIRange | PIVal (z : Z).
Definition parse_int (t : bytes) : pint :=
  match t with
  | [] => PISyntax
  | c :: ds =>
    if c =? 45 then
      match ds with
      | [] => PISyntax
      | _ => match digits_scan ds 0 with
             | PSyntax => PISyntax
             | PRange => PIRange
             | PVal n => if two63 <? n then PIRange else PIVal (- Z.of_N n)%Z
             end
      end
    else match digits_scan t 0 with
         | PSyntax => PISyntax
         | PRange => PIRange
         | PVal n => if two63 <=? n then PIRange else PIVal (Z.of_N n)
         end
  end.

Definition in_int64 (z : Z) : bool := ((- two63z <=? z) && (z <? two63z))%Z.

(* ------------------------------------------------------------------ number scanner *)

Inductive nst := SNeg | SZero | SInt | SDot | SFrac | SExp | SExpSign | SExpDig.

Definition is_e (c : N) : bool := (c =? 101) || (c =? 69).

(* numscan_*: None is the nil step (end of the number; the accompanying error is discarded
   by decodeNumber, which tests `step == nil` before `err != nil`) *)
Definition num_step (st : nst) (c : N) : option nst :=
  let after_int := if c =? 46 then Some SDot else if is_e c then Some SExp else None in
  match st with
  | SNeg => if c =? 48 then Some SZero else if is_digit c then Some SInt else None
  | SZero => after_int
  | SInt => if is_digit c then Some SInt else after_int
  | SDot => if is_digit c then Some SFrac else None
  | SFrac => if is_digit c then Some SFrac else if is_e c then Some SExp else None
  | SExp => if (c =? 43) || (c =? 45) then Some SExpSign else if is_digit c then Some SExpDig else None
  | SExpSign => if is_digit c then Some SExpDig else None
  | SExpDig => if is_digit c then Some SExpDig else None
  end.

Fixpoint num_scan (st : nst) (bs : bytes) : bytes * bytes :=
  match bs with
  | [] => ([], [])
  | c :: r =>
    match num_step st c with
    | None => ([], bs)
    | Some st' => let '(t, rest) := num_scan st' r in (c :: t, rest)
    end
  end.

Definition num_start (c : N) : nst := if c =? 45 then SNeg else if c =? 48 then SZero else SInt.

(* the number grammar as the scanner's automaton: the whole text is consumed and the automaton
   stops in a state where a JSON number may end *)
Fixpoint num_run (st : nst) (t : bytes) : option nst :=
  match t with
  | [] => Some st
  | c :: r => match num_step st c with Some st' => num_run st' r | None => None end
  end.
Definition nst_final (st : nst) : bool :=
  match st with SZero | SInt | SFrac | SExpDig => true | _ => false end.
Definition json_number (t : bytes) : bool :=
  match t with
  | [] => false
  | c :: r =>
    ((c =? 45) || is_digit c) &&
    match num_run (num_start c) r with Some st => nst_final st | None => false end
  end.
Definition has_dot_or_e (t : bytes) : bool := existsb (fun c => (c =? 46) || is_e c) t.
(* number of leading digits (after an optional '-') *)
Fixpoint lead_digits (t : bytes) : nat :=
  match t with
  | c :: r => if is_digit c then S (lead_digits r) else O
  | [] => O
  end.
Definition int_prefix_len (t : bytes) : nat :=
  match t with
  | c :: r => if c =? 45 then lead_digits r else lead_digits t
  | [] => O
  end.

(* float64 bit patterns: is the value an integer, and is |f| < 10^21 *)
Definition f64_integral_small (b : N) : bool :=
  let e := f64_exp b in
  let m := f64_man b in
  if e =? 2047 then false
  else if e =? 0 then m =? 0
  else
    let sig := 4503599627370496 + m in
    if 1075 <=? e then sig * 2 ^ (e - 1075) <? 1000000000000000000000
    else if e <? 1023 then false
    else sig mod 2 ^ (1075 - e) =? 0.

(* ------------------------------------------------------------------ tokens, tokenizer *)

Inductive tok :=
| TMapOpen | TMapClose | TArrOpen | TArrClose | TNull
| TBool (b : bool) | TInt (z : Z) | TFloat (f : N) | TString (s : bytes).

Inductive phase := PValue | PArr | PMapKey | PMapVal.
Definition frame := (phase * bool)%type.
Record tstate := { ts_stk : list frame;   (* head = top of refmt's stack slice *)
                   ts_frm : frame }.
Definition ts_init : tstate := {| ts_stk := []; ts_frm := (PValue, false) |}.

Definition is_ws (c : N) : bool := (c =? 32) || (c =? 9) || (c =? 13) || (c =? 10).
Fixpoint skip_ws (bs : bytes) : bytes :=
  match bs with
  | c :: r => if is_ws c then skip_ws r else bs
  | [] => []
  end.

Fixpoint strip_prefix (p s : bytes) : option bytes :=
  match p with
  | [] => Some s
  | x :: p' => match s with y :: s' => if x =? y then strip_prefix p' s' else None | [] => None end
  end.

Definition push (ts : tstate) (p : phase) : tstate :=
  {| ts_stk := ts_frm ts :: ts_stk ts; ts_frm := (p, false) |}.

Section Json.
  (* strconv.AppendFloat(b, f, 'f' | 'e', -1, 64) with emitFloat's cut-offs and exponent clean-up,
     and strconv.ParseFloat(s, 64) (None = any error, incl. ErrRange) *)
  Variable fmt_float : N -> bytes.
  Variable parse_float : bytes -> option N.
  (* Cid.String() of a binary CID; cid.Decode of a string, giving the binary CID *)
  Variable cid_str : bytes -> bytes.
  Variable cid_parse : bytes -> option bytes.

  (* decodeNumber, after the scan: ParseInt first; ErrRange is final; ErrSyntax falls to ParseFloat *)
  Definition num_token (t : bytes) : res jderr tok :=
    match parse_int t with
    | PIVal z => Ok (TInt z)
    | PIRange => Err JDOther
    | PISyntax => match parse_float t with Some f => Ok (TFloat f) | None => Err JDOther end
    end.

  (* stepHelper_acceptKV: the major byte [mb] has been read; result = token, state, rest, done *)
  Definition accept_kv (ts : tstate) (mb : N) (r : bytes) : res jderr (tok * tstate * bytes * bool) :=
    if mb =? 123 then Ok (TMapOpen, push ts PMapKey, r, false)
    else if mb =? 91 then Ok (TArrOpen, push ts PArr, r, false)
    else if mb =? 110 then
      match strip_prefix [117; 108; 108] r with Some r' => Ok (TNull, ts, r', true) | None => Err JDOther end
    else if mb =? 34 then
      match decode_string r with Some (s, r') => Ok (TString s, ts, r', true) | None => Err JDOther end
    else if mb =? 102 then
      match strip_prefix [97; 108; 115; 101] r with Some r' => Ok (TBool false, ts, r', true) | None => Err JDOther end
    else if mb =? 116 then
      match strip_prefix [114; 117; 101] r with Some r' => Ok (TBool true, ts, r', true) | None => Err JDOther end
    else if (mb =? 45) || is_digit mb then
      let '(t, r') := num_scan (num_start mb) r in
      match num_token (mb :: t) with Ok k => Ok (k, ts, r', true) | Err e => Err e end
    else Err JDOther.

  (* Decoder.Step's epilogue: a finished step pops the stack unless at most one frame is left *)
  Definition finish_step (x : tok * tstate * bytes * bool) : tok * tstate * bytes :=
    let '(k, ts, r, done) := x in
    if done then
      match ts_stk ts with
      | top :: (_ :: _) as rest => (k, {| ts_stk := rest; ts_frm := top |}, r)
      | _ => (k, ts, r)
      end
    else (k, ts, r).

  Definition set_frm (ts : tstate) (f : frame) : tstate := {| ts_stk := ts_stk ts; ts_frm := f |}.

  (* one token *)
  Definition tstep (ts : tstate) (bs : bytes) : res jderr (tok * tstate * bytes) :=
    match skip_ws bs with
    | [] => Err JDOther
    | mb :: r =>
      let '(ph, some) := ts_frm ts in
      match ph with
      | PValue =>
        match accept_kv ts mb r with Ok x => Ok (finish_step x) | Err e => Err e end
      | PArr =>
        let item (mb : N) (r : bytes) :=
          if mb =? 93 then Ok (finish_step (TArrClose, ts, r, true))
          else
            match accept_kv (set_frm ts (PArr, true)) mb r with
            | Ok (k, ts', r', _) => Ok (k, ts', r')
            | Err e => Err e
            end in
        if some then
          if mb =? 93 then Ok (finish_step (TArrClose, ts, r, true))
          else if mb =? 44 then
            match skip_ws r with [] => Err JDOther | mb2 :: r2 => item mb2 r2 end
          else Err JDOther
        else item mb r
      | PMapKey =>
        let item (mb : N) (r : bytes) :=
          if mb =? 125 then Ok (finish_step (TMapClose, ts, r, true))
          else
            match accept_kv (set_frm ts (PMapKey, true)) mb r with
            | Err e => Err e
            | Ok (k, ts', r', _) =>
              match skip_ws r' with
              | c :: r'' => if c =? 58 then Ok (k, set_frm ts' (PMapVal, false), r'') else Err JDOther
              | [] => Err JDOther
              end
            end in
        if some then
          if mb =? 125 then Ok (finish_step (TMapClose, ts, r, true))
          else if mb =? 44 then
            match skip_ws r with [] => Err JDOther | mb2 :: r2 => item mb2 r2 end
          else Err JDOther
        else item mb r
      | PMapVal =>
        match accept_kv (set_frm ts (PMapKey, true)) mb r with
        | Ok (k, ts', r', _) => Ok (k, ts', r')
        | Err e => Err e
        end
      end
    end.

  (* ---------------------------------------------------------------- encoder *)

  Definition link_form (c : bytes) : bytes :=
    [123] ++ emit_string [47] ++ [58] ++ emit_string (cid_str c) ++ [125].
  Definition bytes_form (b : bytes) : bytes :=
    [123] ++ emit_string [47] ++ [58; 123] ++ emit_string [98; 121; 116; 101; 115] ++ [58]
    ++ emit_string (b64_encode b) ++ [125; 125].

  Fixpoint join_comma (l : list bytes) : bytes :=
    match l with
    | [] => []
    | [x] => x
    | x :: r => x ++ 44 :: join_comma r
    end.

  Definition enc_scalar (o : jeopts) (cid_ok : bytes -> bool) (v : dm) : res jeerr bytes :=
    match v with
    | DNull => Ok [110; 117; 108; 108]
    | DBool true => Ok [116; 114; 117; 101]
    | DBool false => Ok [102; 97; 108; 115; 101]
    | DInt z => if in_int64 z then Ok (print_int z) else Err JEInt
    | DFloat f => if f64_finite f then Ok (fmt_float f) else Err JEFloat
    | DString s => Ok (emit_string s)
    | DBytes b => if je_bytes o then Ok (bytes_form b) else Err JEBytes
    | DLink c => if je_links o then (if cid_ok c then Ok (link_form c) else Err JECid) else Err JELink
    | _ => Ok []
    end.

  (* Marshal driving refmt's Encoder with Line = Indent = nil.  [cid_ok] = Cid.Defined(). *)
  Fixpoint jenc (o : jeopts) (cid_ok : bytes -> bool) (v : dm) : res jeerr bytes :=
    match v with
    | DList l =>
      do items <- (fix go (l : list dm) : res jeerr (list bytes) :=
                     match l with
                     | [] => Ok []
                     | x :: r => do a <- jenc o cid_ok x; do b <- go r; Ok (a :: b)
                     end) l;
      Ok (91 :: join_comma items ++ [93])
    | DMap m =>
      do ents <- (fix go (m : list (bytes * dm)) : res jeerr (list (bytes * bytes)) :=
                    match m with
                    | [] => Ok []
                    | (k, x) :: r => do a <- jenc o cid_ok x; do b <- go r; Ok ((k, a) :: b)
                    end) m;
      Ok (123 :: join_comma (map (fun kb => emit_string (fst kb) ++ 58 :: snd kb)
                                 (jsort_entries (je_sort o) ents)) ++ [125])
    | _ => enc_scalar o cid_ok v
    end.

  (* the json codec's encoder: Line = "\n", Indent = "\t"; [d] = len(stack) *)
  Definition indent (d : nat) : bytes := repeat 9 d.
  Fixpoint jenc_pretty (o : jeopts) (cid_ok : bytes -> bool) (d : nat) (v : dm) : res jeerr bytes :=
    let close (some : bool) (c : N) : bytes :=
      (if some then 10 :: indent d else []) ++ [c] ++ (match d with O => [10] | _ => [] end) in
    match v with
    | DList l =>
      do body <- (fix go (l : list dm) (first : bool) : res jeerr bytes :=
                    match l with
                    | [] => Ok []
                    | x :: r =>
                      do a <- jenc_pretty o cid_ok (S d) x; do b <- go r false;
                      Ok ((if first then [] else [44]) ++ 10 :: indent (S d) ++ a ++ b)
                    end) l true;
      Ok (91 :: body ++ close (match l with [] => false | _ => true end) 93)
    | DMap m =>
      do ents <- (fix go (m : list (bytes * dm)) : res jeerr (list (bytes * bytes)) :=
                    match m with
                    | [] => Ok []
                    | (k, x) :: r => do a <- jenc_pretty o cid_ok (S d) x; do b <- go r; Ok ((k, a) :: b)
                    end) m;
      let body := (fix go (l : list (bytes * bytes)) (first : bool) : bytes :=
                     match l with
                     | [] => []
                     | (k, a) :: r =>
                       (if first then [] else [44]) ++ 10 :: indent (S d) ++ emit_string k ++ [58; 32] ++ a ++ go r false
                     end) (jsort_entries (je_sort o) ents) true in
      Ok (123 :: body ++ close (match m with [] => false | _ => true end) 125)
    | _ => enc_scalar o cid_ok v
    end.

  (* ---------------------------------------------------------------- unmarshal *)

  (* token source with dagjson's look-ahead window: [lb] = tk[1..shift], then the tokenizer *)
  Record lsrc := { lb : list tok; lts : tstate; lin : bytes }.

  Definition pull (s : lsrc) : res jderr (tok * lsrc) :=
    match tstep (lts s) (lin s) with
    | Ok (k, ts', r) => Ok (k, {| lb := lb s; lts := ts'; lin := r |})
    | Err e => Err e
    end.

  (* unmarshalState.step: shift a buffered token into tk[0], or read a new one *)
  Definition next (s : lsrc) : res jderr (tok * lsrc) :=
    match lb s with
    | k :: b => Ok (k, {| lb := b; lts := lts s; lin := lin s |})
    | [] => pull s
    end.

  (* tokSrc.Step(&st.tk[0]) as the list loop calls it: never looks at the window *)
  Definition next_direct (s : lsrc) : res jderr (tok * lsrc) := pull s.

  (* ensure(k) then read tk[k]: when shift < k ONE token is read into tk[k] and shift := k.
     Slots are filled consecutively (ensure(k) always follows ensure(k-1) or a window already
     holding k-1 tokens), which is when appending is the same as writing slot k; a window that is
     too short would expose a stale slot: JDStale. *)
  Definition peek (k : nat) (s : lsrc) : res jderr (tok * lsrc) :=
    do s' <- (if Nat.ltb (length (lb s)) k then
                match pull s with
                | Ok (t, s1) => Ok {| lb := lb s ++ [t]; lts := lts s1; lin := lin s1 |}
                | Err e => Err e
                end
              else Ok s);
    match nth_error (lb s') (pred k) with
    | Some t => Ok (t, s')
    | None => Err JDStale
    end.

  Definition clear (s : lsrc) : lsrc := {| lb := []; lts := lts s; lin := lin s |}.

  Definition slash : bytes := [47].
  Definition bytes_word : bytes := [98; 121; 116; 101; 115].

  (* linkLookahead: Ok (Some c, _) = a link was assigned and the window consumed *)
  Definition link_lookahead (s : lsrc) : res jderr (option bytes * lsrc) :=
    do p1 <- peek 1 s; let '(t1, s1) := p1 in
    match t1 with
    | TString k =>
      if negb (bytes_eqb k slash) then Ok (None, s1) else
      do p2 <- peek 2 s1; let '(t2, s2) := p2 in
      match t2 with
      | TString str =>
        do p3 <- peek 3 s2; let '(t3, s3) := p3 in
        match t3 with
        | TMapClose =>
          match cid_parse str with
          | Some c => Ok (Some c, clear s3)
          | None => Err JDOther
          end
        | _ => Ok (None, s3)
        end
      | _ => Ok (None, s2)
      end
    | _ => Ok (None, s1)
    end.

  Definition bytes_lookahead (s : lsrc) : res jderr (option bytes * lsrc) :=
    do p1 <- peek 1 s; let '(t1, s1) := p1 in
    match t1 with
    | TString k =>
      if negb (bytes_eqb k slash) then Ok (None, s1) else
      do p2 <- peek 2 s1; let '(t2, s2) := p2 in
      match t2 with
      | TMapOpen =>
        do p3 <- peek 3 s2; let '(t3, s3) := p3 in
        match t3 with
        | TString w =>
          if negb (bytes_eqb w bytes_word) then Ok (None, s3) else
          do p4 <- peek 4 s3; let '(t4, s4) := p4 in
          match t4 with
          | TString str =>
            do p5 <- peek 5 s4; let '(t5, s5) := p5 in
            match t5 with
            | TMapClose =>
              do p6 <- peek 6 s5; let '(t6, s6) := p6 in
              match t6 with
              | TMapClose =>
                match b64_decode_go str with
                | Some b => Ok (Some b, clear s6)
                | None => Err JDOther
                end
              | _ => Ok (None, s6)
              end
            | _ => Ok (None, s5)
            end
          | _ => Ok (None, s4)
          end
        | _ => Ok (None, s3)
        end
      | _ => Ok (None, s2)
      end
    | _ => Ok (None, s1)
    end.

  (* unmarshal with tk[0] = [t].  The map assembler (basicnode) refuses a repeated key. *)
  Fixpoint unm (fuel : nat) (o : jdopts) (depth : Z) (t : tok) (s : lsrc) {struct fuel}
    : res jderr (dm * lsrc) :=
    match fuel with O => Err JDFuel | S f =>
    match t with
    | TMapOpen =>
      if (jmax_depth o <=? depth)%Z then Err JDDepth else
      do r1 <- (if jd_links o then link_lookahead s else Ok (None, s));
      match r1 with
      | (Some c, s1) => Ok (DLink c, s1)
      | (None, s1) =>
        do r2 <- (if jd_bytes o then bytes_lookahead s1 else Ok (None, s1));
        match r2 with
        | (Some b, s2) => Ok (DBytes b, s2)
        | (None, s2) =>
          do r3 <- unm_map f o depth [] s2;
          let '(m, s3) := r3 in Ok (DMap m, s3)
        end
      end
    | TMapClose => Err JDOther
    | TArrOpen =>
      if (jmax_depth o <=? depth)%Z then Err JDDepth else
      do r <- unm_list f o depth s;
      let '(l, s') := r in Ok (DList l, s')
    | TArrClose => Err JDOther
    | TNull => Ok (DNull, s)
    | TString x => Ok (DString x, s)
    | TBool b => Ok (DBool b, s)
    | TInt z => Ok (DInt z, s)
    | TFloat x => Ok (DFloat x, s)
    end end
  with unm_map (fuel : nat) (o : jdopts) (depth : Z) (seen : list bytes) (s : lsrc) {struct fuel}
    : res jderr (list (bytes * dm) * lsrc) :=
    match fuel with O => Err JDFuel | S f =>
    do p <- next s; let '(t, s1) := p in
    match t with
    | TMapClose => Ok ([], s1)
    | TString k =>
      if existsb (bytes_eqb k) seen then Err JDOther else
      do p2 <- next s1; let '(t2, s2) := p2 in
      do r <- unm f o (depth + 1) t2 s2; let '(v, s3) := r in
      do r' <- unm_map f o depth (k :: seen) s3; let '(m, s4) := r' in
      Ok ((k, v) :: m, s4)
    | _ => Err JDOther
    end end
  with unm_list (fuel : nat) (o : jdopts) (depth : Z) (s : lsrc) {struct fuel}
    : res jderr (list dm * lsrc) :=
    match fuel with O => Err JDFuel | S f =>
    do p <- next_direct s; let '(t, s1) := p in
    match t with
    | TArrClose => Ok ([], s1)
    | _ =>
      do r <- unm f o (depth + 1) t s1; let '(v, s2) := r in
      do r' <- unm_list f o depth s2; let '(l, s3) := r' in
      Ok (v :: l, s3)
    end end.

  Definition jdec_fuel (bs : bytes) : nat := 3 * length bs + 4.

  Definition is_trailing_ws (c : N) : bool := (c =? 32) || (c =? 0) || (c =? 9) || (c =? 13) || (c =? 10).

  (* DecodeOptions.Decode.  The result carries the unread input in DontParseBeyondEnd mode. *)
  Definition jdecode (o : jdopts) (bs : bytes) : res jderr (dm * bytes) :=
    match tstep ts_init bs with
    | Err e => Err e
    | Ok (t, ts1, r1) =>
      match unm (jdec_fuel bs) o 0 t {| lb := []; lts := ts1; lin := r1 |} with
      | Err e => Err e
      | Ok (v, s) =>
        (* a number ended by a following byte: that byte sits in readerToScanner's unread slot and
           is never seen by Decode's own r.Read loop *)
        let rest := match t with TInt _ | TFloat _ => tl (lin s) | _ => lin s end in
        if jd_dont_parse_beyond o then Ok (v, rest)
        else if forallb is_trailing_ws rest then Ok (v, []) else Err JDTrailing
      end
    end.
End Json.

(* ------------------------------------------------------------------ the property's domain *)

(* assumption A2 as an executable predicate (the driver evaluates it on every sampled float):
   the text is a JSON number; it has '.' or an exponent iff the float is not an integer below
   1e21; and in that case at most 19 digits precede the '.' / exponent (so ParseInt stops at the
   '.' with ErrSyntax before its accumulator can overflow) *)
Definition float_text_frac (t : bytes) : bool :=
  json_number t && has_dot_or_e t && Nat.leb (int_prefix_len t) 19.
Definition float_text_ok (f : N) (t : bytes) : bool :=
  if f64_integral_small f then json_number t && negb (has_dot_or_e t) else float_text_frac t.

(* the two shapes DAG-JSON reserves *)
Definition reserved_shape (m : list (bytes * dm)) : bool :=
  match m with
  | [(k, DString _)] => bytes_eqb k slash
  | [(k, DMap [(k2, DString _)])] => bytes_eqb k slash && bytes_eqb k2 bytes_word
  | _ => false
  end.

Fixpoint nodup_keys {V} (m : list (bytes * V)) : bool :=
  match m with
  | [] => true
  | (k, _) :: r => negb (existsb (bytes_eqb k) (map fst r)) && nodup_keys r
  end.

(* nesting as the decoder counts it: the reserved forms are maps to the depth check *)
Fixpoint jdepth (v : dm) : N :=
  match v with
  | DList l => 1 + fold_right (fun x a => N.max (jdepth x) a) 0 l
  | DMap m => 1 + fold_right (fun kv a => N.max (jdepth (snd kv)) a) 0 m
  | DBytes _ | DLink _ => 1
  | _ => 0
  end.

(* json_safe: finite floats accepted by [good_float], valid UTF-8 strings and keys, int64 ints,
   byte-valued bytes, defined CIDs, distinct keys, none of the reserved shapes *)
Fixpoint json_safe (cid_ok : bytes -> bool) (good_float : N -> bool) (v : dm) : bool :=
  match v with
  | DNull | DBool _ => true
  | DInt z => in_int64 z
  | DFloat f => f64_finite f && good_float f
  | DString s => utf8_valid s
  | DBytes b => bytes_ok b
  | DLink c => cid_ok c
  | DList l => forallb (json_safe cid_ok good_float) l
  | DMap m =>
    nodup_keys m && negb (reserved_shape m) &&
    forallb (fun kv => utf8_valid (fst kv) && json_safe cid_ok good_float (snd kv)) m
  end.
