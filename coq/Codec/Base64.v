(* Codec/Base64.v — encoding/base64 as dagjson uses it.  MODEL file: definitions only.
     marshal:   base64.RawStdEncoding.EncodeToString            (std alphabet, no padding)
     unmarshal: RawStdEncoding.DecodeString, and on CorruptInputError StdEncoding.DecodeString
   The decoder mirrors Encoding.decodeQuantum of go1.25 (non-strict): '\r' and '\n' are skipped
   anywhere, a final quantum of 2 or 3 characters is accepted without padding (Raw) or with
   "==" / "=" (Std), unused trailing bits are NOT required to be zero, anything after padding
   is an error.  (The assemble32/64 fast paths of Decode are value-equivalent.) *)
Require Import IP.Base.Bytes.
Open Scope N_scope.

Definition b64_char (v : N) : N :=
  if v <? 26 then 65 + v
  else if v <? 52 then 97 + (v - 26)
  else if v <? 62 then 48 + (v - 52)
  else if v =? 62 then 43 else 47.

Fixpoint b64_encode (bs : bytes) : bytes :=
  match bs with
  | [] => []
  | [a] => [b64_char (a / 4); b64_char ((a mod 4) * 16)]
  | [a; b] => [b64_char (a / 4); b64_char ((a mod 4) * 16 + b / 16); b64_char ((b mod 16) * 4)]
  | a :: b :: c :: r =>
      b64_char (a / 4) :: b64_char ((a mod 4) * 16 + b / 16)
      :: b64_char ((b mod 16) * 4 + c / 64) :: b64_char (c mod 64) :: b64_encode r
  end.

Definition b64_val (c : N) : option N :=
  if (65 <=? c) && (c <=? 90) then Some (c - 65)
  else if (97 <=? c) && (c <=? 122) then Some (c - 97 + 26)
  else if (48 <=? c) && (c <=? 57) then Some (c - 48 + 52)
  else if c =? 43 then Some 62
  else if c =? 47 then Some 63
  else None.

Definition is_nl (c : N) : bool := (c =? 10) || (c =? 13).

Fixpoint skip_nl (s : bytes) : bytes :=
  match s with
  | c :: r => if is_nl c then skip_nl r else s
  | [] => []
  end.

(* the bytes a quantum of 2, 3 or 4 sextets yields *)
Definition b64_out (q : list N) : bytes :=
  match q with
  | [a; b] => [a * 4 + b / 16]
  | [a; b; c] => [a * 4 + b / 16; (b mod 16) * 16 + c / 4]
  | [a; b; c; d] => [a * 4 + b / 16; (b mod 16) * 16 + c / 4; (c mod 4) * 64 + d]
  | _ => []
  end.

Definition ocons (p : bytes) (o : option bytes) : option bytes :=
  match o with Some r => Some (p ++ r) | None => None end.

(* [q]: sextets of the current quantum read so far (fewer than four) *)
Fixpoint b64_dec (pad : bool) (src : bytes) (q : list N) {struct src} : option bytes :=
  match src with
  | [] =>
    match q with
    | [] => Some []
    | [_] => None
    | _ => if pad then None else Some (b64_out q)
    end
  | c :: r =>
    match b64_val c with
    | Some v =>
      match q with
      | [x; y; z] => ocons (b64_out [x; y; z; v]) (b64_dec pad r [])
      | _ => b64_dec pad r (q ++ [v])
      end
    | None =>
      if is_nl c then b64_dec pad r q
      else if pad && (c =? 61) then
        match q with
        | [_; _] =>
          match skip_nl r with
          | c2 :: r2 => if c2 =? 61 then (match skip_nl r2 with [] => Some (b64_out q) | _ => None end) else None
          | [] => None
          end
        | [_; _; _] => match skip_nl r with [] => Some (b64_out q) | _ => None end
        | _ => None
        end
      else None
    end
  end.

(* dagjson bytesLookahead: Raw first, Std as fallback (every base64 error is a CorruptInputError) *)
Definition b64_decode_go (s : bytes) : option bytes :=
  match b64_dec false s [] with
  | Some b => Some b
  | None => b64_dec true s []
  end.
