(* Codec/CborSpec.v — SPEC for C02/C03, written independently of the decoder model:
   an inductive relation [Denotes] (byte string is one well-formed DAG-CBOR item denoting a
   value, with the documented tolerances) and its executable, value-directed checker [chk].
   Definitions only. *)
Require Import IP.Base.Bytes IP.DM.Value IP.Codec.Cid.
Open Scope N_scope.

(* Read one head: major type, argument, rest.  [strict] demands the shortest form. *)
Definition rd_head (strict : bool) (bs : bytes) : option (N * N * bytes) :=
  match bs with
  | [] => None
  | b :: r =>
    let mj := b / 32 in let ai := b mod 32 in
    if ai <? 24 then Some (mj, ai, r)
    else if ai =? 24 then
      match take 1 r with
      | Some (x, r') => let a := unbe x 0 in if strict && (a <? 24) then None else Some (mj, a, r')
      | None => None end
    else if ai =? 25 then
      match take 2 r with
      | Some (x, r') => let a := unbe x 0 in if strict && (a <? 256) then None else Some (mj, a, r')
      | None => None end
    else if ai =? 26 then
      match take 4 r with
      | Some (x, r') => let a := unbe x 0 in if strict && (a <? 65536) then None else Some (mj, a, r')
      | None => None end
    else if ai =? 27 then
      match take 8 r with
      | Some (x, r') => let a := unbe x 0 in if strict && (a <? 4294967296) then None else Some (mj, a, r')
      | None => None end
    else None
  end.

Definition nodup_keys {V} (m : list (bytes * V)) : bool :=
  (fix go (m : list (bytes * V)) (seen : list bytes) : bool :=
     match m with
     | [] => true
     | (k, _) :: r => negb (existsb (bytes_eqb k) seen) && go r (k :: seen)
     end) m [].

(* the two float widenings are part of the SPEC's vocabulary: a 16- or 32-bit float denotes the
   binary64 value it widens to (exactness of the widening is checked against Go exhaustively for
   binary16 and by sampling for binary32 in the correspondence run) *)
Definition widen32_spec (b : N) : N :=
  let s := b / 2147483648 in
  let e := (b / 8388608) mod 256 in
  let m := b mod 8388608 in
  let sign := s * 9223372036854775808 in
  if e =? 0 then
    if m =? 0 then sign
    else let p := N.log2 m in
         sign + (p + 874) * 4503599627370496 + (m - 2 ^ p) * 2 ^ (52 - p)
  else if e =? 255 then sign + 2047 * 4503599627370496 + m * 536870912
  else sign + (e + 896) * 4503599627370496 + m * 536870912.

Definition widen16_spec (y : N) : N :=
  let s := (y / 32768) mod 2 in
  let e := (y / 1024) mod 32 in
  let m := y mod 1024 in
  let sign := s * 9223372036854775808 in
  if e =? 0 then
    if m =? 0 then sign
    else let p := N.log2 m in
         sign + (p + 999) * 4503599627370496 + (m - 2 ^ p) * 2 ^ (52 - p)
  else if e =? 31 then sign + 2047 * 4503599627370496 + m * 4398046511104
  else sign + (e + 1008) * 4503599627370496 + m * 4398046511104.

(* Value-directed check: does a prefix of [bs] denote [v]?  Returns the rest.
   strict: shortest heads, no NaN/Inf.  links: tag 42 allowed.
   negwrap: additionally accept refmt's wrap of -2^64 to 0 (used only to classify that finding). *)
Fixpoint chk (strict links negwrap : bool) (v : dm) (bs : bytes) {struct v} : option bytes :=
  match v with
  | DNull => match bs with 246 :: r => Some r | 247 :: r => Some r | _ => None end
  | DBool b =>
      match bs with
      | 244 :: r => if b then None else Some r
      | 245 :: r => if b then Some r else None
      | _ => None
      end
  | DInt z =>
      match rd_head strict bs with
      | Some (mj, a, r) =>
        if (mj =? 0) && (Z.of_N a =? z)%Z then Some r
        else if (mj =? 1) && (a <? two63) && (-1 - Z.of_N a =? z)%Z then Some r
        else if negwrap && (mj =? 1) && (a =? two64 - 1) && (z =? 0)%Z then Some r
        else None
      | None => None
      end
  | DFloat f =>
      if strict && negb (f64_finite f) then None else
      match bs with
      | 251 :: r => match take 8 r with
                    | Some (x, r') => if (unbe x 0 =? f) || (f64_is_nan f && f64_is_nan (unbe x 0)) then Some r' else None
                    | None => None end
      | 250 :: r => match take 4 r with
                    | Some (x, r') => if (widen32_spec (unbe x 0) =? f) || (f64_is_nan f && f64_is_nan (widen32_spec (unbe x 0))) then Some r' else None
                    | None => None end
      | 249 :: r => match take 2 r with
                    | Some (x, r') => if (widen16_spec (unbe x 0) =? f) || (f64_is_nan f && f64_is_nan (widen16_spec (unbe x 0))) then Some r' else None
                    | None => None end
      | _ => None
      end
  | DString s =>
      match rd_head strict bs with
      | Some (3, a, r) => match take a r with Some (s', r') => if bytes_eqb s s' then Some r' else None | None => None end
      | _ => None
      end
  | DBytes s =>
      match rd_head strict bs with
      | Some (2, a, r) => match take a r with Some (s', r') => if bytes_eqb s s' then Some r' else None | None => None end
      | _ => None
      end
  | DLink c =>
      if negb links || negb (cid_valid c) then None else
      match rd_head strict bs with
      | Some (6, 42, r) =>
        match rd_head strict r with
        | Some (2, a, r1) =>
          match take a r1 with
          | Some (0 :: c', r2) => if bytes_eqb c c' then Some r2 else None
          | _ => None
          end
        | _ => None
        end
      | _ => None
      end
  | DList l =>
      match rd_head strict bs with
      | Some (4, a, r) =>
        if negb (a =? lenN l) then None else
        (fix go (l : list dm) (bs : bytes) : option bytes :=
           match l with
           | [] => Some bs
           | x :: l' => match chk strict links negwrap x bs with Some bs' => go l' bs' | None => None end
           end) l r
      | _ => None
      end
  | DMap m =>
      match rd_head strict bs with
      | Some (5, a, r) =>
        if negb (a =? lenN m) || negb (nodup_keys m) then None else
        (fix go (m : list (bytes * dm)) (bs : bytes) : option bytes :=
           match m with
           | [] => Some bs
           | (k, x) :: m' =>
             match rd_head strict bs with
             | Some (3, ka, r1) =>
               match take ka r1 with
               | Some (k', r2) =>
                 if bytes_eqb k k' then
                   match chk strict links negwrap x r2 with Some bs' => go m' bs' | None => None end
                 else None
               | None => None
               end
             | _ => None
             end
           end) m r
      | _ => None
      end
  end.

(* one complete item and nothing else *)
Definition denotes_b (strict links : bool) (bs : bytes) (v : dm) : bool :=
  match chk strict links false v bs with Some [] => true | _ => false end.
