(* Node/TypedProtocol.v — the legal call grammar of the TYPED assemblers (Node/Typed.v: Msg3 structs,
   typed maps and lists of them, nested to any depth) as relations over annotated scripts
   (call, result class the contract demands), with the rejections the contract pins down injected at
   any position.  MODEL file: definitions only.

   [TScript e q ty v s]: s is a legal way to assemble the value v at a position of type ty:
     - a struct: BeginMap, its three fields in any order (entry shortcut or key assembler + value),
       each int assigned directly or as an int node; or AssignNode of a node that reads as a Msg3;
     - a map / list: BeginMap / BeginList with any hint, children recursively, Finish; or AssignNode of
       a conforming node of another implementation (on the pinned generated code only an empty map or a node of its own type);
     - injected rejections, each answered by that call with the given class, after which assembly
       goes on as if the call had not been made:
         wrong-kind calls at every position (roots, map values, list elements, int fields, key
         assemblers); a repeated field / repeated map key through AssembleEntry or through the key
         assembler; on generated code an unknown field name (invalid key); Finish on a struct that still
         misses a field (missing).
   Call orders outside the relation (second key before the value, Finish with a pending key, a call
   after Finish, ...) are misuse: the generated code panics on them, bindnode does not notice. *)
Require Import IP.Base.Bytes IP.DM.Value IP.Node.Basic IP.Node.Typed.

Notation tann := (aop * tsres)%type (only parsing).
Definition tok (o : aop) : aop * tsres := (o, TSOk).

(* the quirk settings in which the known protocol defects of engine e are off *)
Definition tq_ok (e : engine) (q : tquirks) : Prop :=
  match e with
  | EBind => tq_bind_struct_nodup q = false /\ tq_bind_map_nodup q = false
  | EGen => tq_gen_struct_stuck q = false /\ tq_gen_map_key_nodup q = false
  end.

(* ---- key assemblers *)
Definition tkey_wrong (o : aop) : bool :=
  match o with
  | BeginMap _ | BeginList _ | AssignNull | AssignBool _ | AssignInt _ | AssignFloat _
  | AssignBytes _ | AssignLink _ => true
  | _ => false
  end.

Inductive TKeyTry : tann -> Prop :=
| TKT_wrong o : tkey_wrong o = true -> TKeyTry (o, TSErr TEWrong)
| TKT_node n e : as_string n = Err e -> TKeyTry (AssignNode n, TSErr TEWrong).

Inductive TKeyGive (k : bytes) : aop -> Prop :=
| TKG_string : TKeyGive k (AssignString k)
| TKG_node n : as_string n = Ok k -> TKeyGive k (AssignNode n).

(* the key assembler of a struct: also (generated code) a name that is not a field *)
Inductive SKeyTry (e : engine) : tann -> Prop :=
| SKT_try a : TKeyTry a -> SKeyTry e a
| SKT_unknown k g : e = EGen -> TKeyGive k g -> field_index k = None -> SKeyTry e (g, TSErr TEInvalidKey).

(* ---- int fields *)
Definition int_wrong (o : aop) : bool :=
  match o with
  | AssignInt _ | AssignNode _ | AssembleKey | AssembleValue | AssembleEntry _ | Finish => false
  | _ => true
  end.

Inductive IntTry : tann -> Prop :=
| IT_wrong o : int_wrong o = true -> IntTry (o, TSErr TEWrong)
| IT_node_kind n : as_int n = Err EWrongKind -> IntTry (AssignNode n, TSErr TEWrong)
| IT_node_other n e : as_int n = Err e -> e <> EWrongKind -> IntTry (AssignNode n, TSErr TEOther).

Inductive IntGive (z : Z) : aop -> Prop :=
| IG_int : IntGive z (AssignInt z)
| IG_node n : as_int n = Ok z -> IntGive z (AssignNode n).

(* ---- a position of type ty *)
Definition want_kind (ty : tty) : kind := match ty with TyL _ => KList | _ => KMap end.

Definition pos_wrong (ty : tty) (o : aop) : bool :=
  match o with
  | AssembleKey | AssembleValue | AssembleEntry _ | Finish => false
  | AssignNode n => negb (kind_eqb (kind_of n) (want_kind ty))
  | BeginMap _ => match ty with TyL _ => true | _ => false end
  | BeginList _ => match ty with TyL _ => false | _ => true end
  | _ => true
  end.

Inductive PosTry (ty : tty) : tann -> Prop :=
| PT_wrong o : pos_wrong ty o = true -> PosTry ty (o, TSErr TEWrong).

(* the pinned generated map cannot take a non-empty map node of another implementation *)
Definition node_takes (e : engine) (q : tquirks) (ty : tty) (n : node) (v : tval) : Prop :=
  match ty, e with
  | TyM _, EGen => tq_gen_map_node_panics q = false \/ v = TVM [] \/ same_impl n = true
  | _, _ => True
  end.

(* ---- structs *)
Definition all_done (done : list nat) : bool := has 0 done && has 1 done && has 2 done.

Section Struct.
  Variable e : engine.

  (* [StructBody done vals fin body]: with the fields in done started and the assignments vals made,
     body supplies the remaining fields and finishes with the assignments fin *)
  Inductive StructBody : list nat -> svals -> svals -> list tann -> Prop :=
  | SB_finish done vals : all_done done = true -> StructBody done vals vals [tok Finish]
  | SB_entry done vals fin k f tries g z body :
      field_index k = Some f -> has f done = false ->
      Forall IntTry tries -> IntGive z g ->
      StructBody (f :: done) (vals ++ [(f, z)]) fin body ->
      StructBody done vals fin (tok (AssembleEntry k) :: tries ++ tok g :: body)
  | SB_key done vals fin k f ktries kg tries g z body :
      field_index k = Some f -> has f done = false ->
      Forall (SKeyTry e) ktries -> TKeyGive k kg ->
      Forall IntTry tries -> IntGive z g ->
      StructBody (f :: done) (vals ++ [(f, z)]) fin body ->
      StructBody done vals fin
        (tok AssembleKey :: ktries ++ tok kg :: tok AssembleValue :: tries ++ tok g :: body)
  | SB_dup_entry done vals fin k f body :
      field_index k = Some f -> has f done = true -> StructBody done vals fin body ->
      StructBody done vals fin ((AssembleEntry k, TSErr TERepeated) :: body)
  | SB_dup_key done vals fin k f ktries kg body :
      field_index k = Some f -> has f done = true ->
      Forall (SKeyTry e) ktries -> TKeyGive k kg -> StructBody done vals fin body ->
      StructBody done vals fin (tok AssembleKey :: ktries ++ (kg, TSErr TERepeated) :: body)
  | SB_unknown_entry done vals fin k body :
      e = EGen -> field_index k = None -> StructBody done vals fin body ->
      StructBody done vals fin ((AssembleEntry k, TSErr TEInvalidKey) :: body)
  | SB_missing done vals fin body :
      all_done done = false -> StructBody done vals fin body ->
      StructBody done vals fin ((Finish, TSErr TEMissing) :: body).

  Inductive StructScript : tval -> list tann -> Prop :=
  | SS_begin tries h fin body :
      Forall (PosTry TyS) tries -> StructBody [] [] fin body ->
      StructScript (TVS fin) (tries ++ tok (BeginMap h) :: body)
  | SS_node tries n vals :
      Forall (PosTry TyS) tries -> as_msg3 n = Some vals ->
      StructScript (TVS vals) (tries ++ [tok (AssignNode n)]).
End Struct.

(* ---- maps and lists of a child type whose scripts are S *)
Section Containers.
  Variable e : engine.
  Variable q : tquirks.
  Variable S : tval -> list tann -> Prop.

  Inductive MapBodyT : list (bytes * tval) -> list (bytes * tval) -> list tann -> Prop :=
  | MBT_finish t : MapBodyT t t [tok Finish]
  | MBT_entry t fin k v s body :
      mem_key k t = false -> S v s -> MapBodyT (t ++ [(k, v)]) fin body ->
      MapBodyT t fin (tok (AssembleEntry k) :: s ++ body)
  | MBT_key t fin k v ktries kg s body :
      mem_key k t = false -> Forall TKeyTry ktries -> TKeyGive k kg -> S v s ->
      MapBodyT (t ++ [(k, v)]) fin body ->
      MapBodyT t fin (tok AssembleKey :: ktries ++ tok kg :: tok AssembleValue :: s ++ body)
  | MBT_dup_entry t fin k body :
      mem_key k t = true -> MapBodyT t fin body ->
      MapBodyT t fin ((AssembleEntry k, TSErr TERepeated) :: body)
  | MBT_dup_key t fin k ktries kg body :
      mem_key k t = true -> Forall TKeyTry ktries -> TKeyGive k kg -> MapBodyT t fin body ->
      MapBodyT t fin (tok AssembleKey :: ktries ++ (kg, TSErr TERepeated) :: body).

  Inductive MapScriptT (vt : tty) : tval -> list tann -> Prop :=
  | MST_begin tries h fin body :
      Forall (PosTry (TyM vt)) tries -> MapBodyT [] fin body ->
      MapScriptT vt (TVM fin) (tries ++ tok (BeginMap h) :: body)
  | MST_node tries n v :
      Forall (PosTry (TyM vt)) tries -> node_tval (TyM vt) n = Some v -> node_takes e q (TyM vt) n v ->
      MapScriptT vt v (tries ++ [tok (AssignNode n)]).

  Inductive ListBodyT : list tval -> list tval -> list tann -> Prop :=
  | LBT_finish x : ListBodyT x x [tok Finish]
  | LBT_value x fin v s body :
      S v s -> ListBodyT (x ++ [v]) fin body ->
      ListBodyT x fin (tok AssembleValue :: s ++ body).

  Inductive ListScriptT (et : tty) : tval -> list tann -> Prop :=
  | LST_begin tries h fin body :
      Forall (PosTry (TyL et)) tries -> ListBodyT [] fin body ->
      ListScriptT et (TVL fin) (tries ++ tok (BeginList h) :: body)
  | LST_node tries n v :
      Forall (PosTry (TyL et)) tries -> node_tval (TyL et) n = Some v ->
      ListScriptT et v (tries ++ [tok (AssignNode n)]).
End Containers.

Fixpoint TScript (e : engine) (q : tquirks) (ty : tty) : tval -> list tann -> Prop :=
  match ty with
  | TyS => StructScript e
  | TyM vt => MapScriptT e q (TScript e q vt) vt
  | TyL et => ListScriptT (TScript e q et) et
  end.

(* ---- the calls by which one rejected request reaches an assembler in state s, and come back to s *)
Inductive Rejected (e : engine) : tstate -> list tann -> Prop :=
| RJ_map_entry vt t r k :
    mem_key k t = true -> Rejected e (TOpen (TMap vt t TmInitial :: r)) [(AssembleEntry k, TSErr TERepeated)]
| RJ_map_key vt t r k ktries kg :
    mem_key k t = true -> Forall TKeyTry ktries -> TKeyGive k kg ->
    Rejected e (TOpen (TMap vt t TmInitial :: r)) (tok AssembleKey :: ktries ++ [(kg, TSErr TERepeated)])
| RJ_field_entry done vals r k f :
    field_index k = Some f -> has f done = true ->
    Rejected e (TOpen (TStruct done vals TsInitial :: r)) [(AssembleEntry k, TSErr TERepeated)]
| RJ_field_key done vals r k f ktries kg :
    field_index k = Some f -> has f done = true -> Forall (SKeyTry e) ktries -> TKeyGive k kg ->
    Rejected e (TOpen (TStruct done vals TsInitial :: r)) (tok AssembleKey :: ktries ++ [(kg, TSErr TERepeated)])
| RJ_unknown_entry done vals r k :
    e = EGen -> field_index k = None ->
    Rejected e (TOpen (TStruct done vals TsInitial :: r)) [(AssembleEntry k, TSErr TEInvalidKey)]
| RJ_missing done vals r :
    all_done done = false ->
    Rejected e (TOpen (TStruct done vals TsInitial :: r)) [(Finish, TSErr TEMissing)].
