(* Node/Basic.v — executable model of node/basicnode (map.go, list.go, any.go, the scalar files),
   of the read side of datamodel.Node as basicnode implements it, and of datamodel.DeepEqual /
   datamodel.Copy.  MODEL file: definitions only.

   What is mirrored, branch for branch:
     * anyBuilder / plainMap__Assembler / plainList__Assembler and their key, value and child
       assemblers as ONE state machine over assembler calls [aop].  The Go objects point at one
       another (child -> parent); here the assemblers under construction are a stack of frames,
       innermost first, and a call always goes to the handle the protocol designates ("current
       handle": the innermost open assembler).  A call that the Go type of that handle does not
       offer, or that would go to a stale handle, is [ONoMethod] (outside the model; the harness
       never makes such a call).  A call the code answers with panic("misuse") is [OPanic].
     * maState / laState.  The key of the entry being assembled is carried by the state
       ([MaExpectValue k], [MaMidValue k]); Go keeps it as a trailing entry of [t] whose value is
       still nil — not observable before the value arrives.
     * plainMap's two containers: [t] (entry table, insertion order) and [m] (Go map, here an
       association list read by first match; an insertion conses, so the newest binding wins, as
       in Go).  Length and iteration read [t]; LookupByString and the duplicate check read [m].
     * AssignNode: anyBuilder and the value assemblers keep the given node AS IS (any
       implementation); Prototype.Map / Prototype.List take the same-implementation shortcut or
       fall back to ranging over the source; the scalar prototypes go through the As accessors.
     * the read API (Kind, Length, iterators incl. over-read, LookupByString/Node/Index/Segment with
       PathSegment's string/int duality and strconv.ParseInt/FormatInt, the As accessors), DeepEqual (Go float
       ==, ints through AsInt) and Copy.
   Nodes of other implementations (bindnode, generated code) appear as [NFMap]/[NFList]: containers
   that behave as the Node contract says ("well-behaved foreign node"); this is an assumption about
   those implementations, exercised by the correspondence run, not a model of their code.

   Defects of the pinned tree are switches of [quirks]; all-false is the repaired behaviour. *)
Require Import IP.Base.Bytes IP.DM.Value.
Open Scope N_scope.

(* ------------------------------------------------------------------ nodes *)

Inductive node :=
| NNull
| NBool (b : bool)
| NInt (z : Z)                (* plainInt *)
| NUint (z : Z)               (* plainUint (datamodel.UintNode) *)
| NFloat (f : N)              (* bits *)
| NString (s : bytes)
| NBytes (s : bytes)          (* plainBytes *)
| NStream (s : bytes)         (* streamBytes over a reader positioned at 0 *)
| NLink (c : bytes)
| NList (x : list node)                              (* plainList *)
| NMap (t : list (bytes * node)) (m : list (bytes * node))   (* plainMap: table, lookup map *)
| NFList (x : list node)                             (* list node of another implementation *)
| NFMap (t : list (bytes * node)).                   (* map node of another implementation *)

Section node_ind2.
  Variable P : node -> Prop.
  Hypothesis Hnull : P NNull.
  Hypothesis Hbool : forall b, P (NBool b).
  Hypothesis Hint : forall z, P (NInt z).
  Hypothesis Huint : forall z, P (NUint z).
  Hypothesis Hfloat : forall f, P (NFloat f).
  Hypothesis Hstring : forall s, P (NString s).
  Hypothesis Hbytes : forall s, P (NBytes s).
  Hypothesis Hstream : forall s, P (NStream s).
  Hypothesis Hlink : forall c, P (NLink c).
  Hypothesis Hlist : forall x, Forall P x -> P (NList x).
  Hypothesis Hmap : forall t m, Forall (fun kv => P (snd kv)) t -> Forall (fun kv => P (snd kv)) m -> P (NMap t m).
  Hypothesis Hflist : forall x, Forall P x -> P (NFList x).
  Hypothesis Hfmap : forall t, Forall (fun kv => P (snd kv)) t -> P (NFMap t).
  Fixpoint node_ind2 (n : node) : P n :=
    let fl := fix go (l : list node) : Forall P l :=
        match l with [] => Forall_nil _ | a :: r => Forall_cons _ (node_ind2 a) (go r) end in
    let fm := fix go (l : list (bytes * node)) : Forall (fun kv => P (snd kv)) l :=
        match l with [] => Forall_nil _ | a :: r => Forall_cons _ (node_ind2 (snd a)) (go r) end in
    match n with
    | NNull => Hnull | NBool b => Hbool b | NInt z => Hint z | NUint z => Huint z
    | NFloat f => Hfloat f | NString s => Hstring s | NBytes s => Hbytes s
    | NStream s => Hstream s | NLink c => Hlink c
    | NList x => Hlist x (fl x)
    | NMap t m => Hmap t m (fm t) (fm m)
    | NFList x => Hflist x (fl x)
    | NFMap t => Hfmap t (fm t)
    end.
End node_ind2.

Record quirks := {
  q_pmap_nilmap : bool;   (* Prototype.Map AssignNode fallback never allocates w.m: the first value
                             assignment writes into a nil Go map and panics *)
  q_eq_asint : bool;      (* DeepEqual reads Kind_Int only through AsInt: a UintNode above MaxInt64
                             makes it panic *)
  q_copy_asint : bool;    (* Copy reads Kind_Int only through AsInt: a UintNode above MaxInt64 makes
                             it fail ("node violated contract") *)
  q_stream_oneshot : bool (* Prototype.Bytes AssignNode of a LargeBytesNode keeps the reader: the
                             built node is a streamBytes whose second AsBytes is empty *)
}.
Definition pinned : quirks :=
  {| q_pmap_nilmap := true; q_eq_asint := true; q_copy_asint := true; q_stream_oneshot := true |}.
Definition repaired : quirks :=
  {| q_pmap_nilmap := false; q_eq_asint := false; q_copy_asint := false; q_stream_oneshot := false |}.
(* the tree after the fixes applied so far (e205164 Prototype.Map nil map, 2031d7f DeepEqual uint,
   e31ecf7 streamBytes cursors): what is left is Copy reading Kind_Int through AsInt only *)
Definition settled : quirks :=
  {| q_pmap_nilmap := false; q_eq_asint := false; q_copy_asint := true; q_stream_oneshot := false |}.

Inductive err := EWrongKind | ERepeatedKey | ENotExists | EInvalidSegment | EOverread | EOther.

(* the abstract value of a node *)
Fixpoint abs (n : node) : dm :=
  match n with
  | NNull => DNull
  | NBool b => DBool b
  | NInt z | NUint z => DInt z
  | NFloat f => DFloat f
  | NString s => DString s
  | NBytes s | NStream s => DBytes s
  | NLink c => DLink c
  | NList x | NFList x => DList (map abs x)
  | NMap t _ | NFMap t => DMap (map (fun kv => (fst kv, abs (snd kv))) t)
  end.

(* ------------------------------------------------------------------ read API *)

Inductive kind := KNull | KBool | KInt | KFloat | KString | KBytes | KLink | KList | KMap.

Definition kind_eqb (a b : kind) : bool :=
  match a, b with
  | KNull, KNull | KBool, KBool | KInt, KInt | KFloat, KFloat | KString, KString
  | KBytes, KBytes | KLink, KLink | KList, KList | KMap, KMap => true
  | _, _ => false
  end.

Definition kind_of (n : node) : kind :=
  match n with
  | NNull => KNull | NBool _ => KBool | NInt _ | NUint _ => KInt | NFloat _ => KFloat
  | NString _ => KString | NBytes _ | NStream _ => KBytes | NLink _ => KLink
  | NList _ | NFList _ => KList | NMap _ _ | NFMap _ => KMap
  end.

Definition length_of (n : node) : Z :=
  match n with
  | NList x | NFList x => Z.of_nat (length x)
  | NMap t _ | NFMap t => Z.of_nat (length t)
  | _ => (-1)%Z
  end.

Definition as_bool (n : node) : res err bool :=
  match n with NBool b => Ok b | _ => Err EWrongKind end.
Definition as_int (n : node) : res err Z :=
  match n with
  | NInt z => Ok z
  | NUint z => if (z <? two63z)%Z then Ok z else Err EOther   (* "unsigned integer out of range" *)
  | _ => Err EWrongKind
  end.
(* datamodel.UintNode: only plainUint offers it *)
Definition as_uint (n : node) : option Z := match n with NUint z => Some z | _ => None end.
Definition as_float (n : node) : res err N :=
  match n with NFloat f => Ok f | _ => Err EWrongKind end.
Definition as_string (n : node) : res err bytes :=
  match n with NString s => Ok s | _ => Err EWrongKind end.
Definition as_bytes (n : node) : res err bytes :=
  match n with NBytes s | NStream s => Ok s | _ => Err EWrongKind end.
(* a second AsBytes on the same node *)
Definition as_bytes_again (q : quirks) (n : node) : res err bytes :=
  match n with
  | NBytes s => Ok s
  | NStream s => if q_stream_oneshot q then Ok [] else Ok s
  | _ => Err EWrongKind
  end.
Definition as_link (n : node) : res err bytes :=
  match n with NLink c => Ok c | _ => Err EWrongKind end.
(* datamodel.LargeBytesNode *)
Definition as_large_bytes (n : node) : option bytes :=
  match n with NBytes s | NStream s => Some s | _ => None end.

(* what MapIterator / ListIterator range over; None = the method returns a nil iterator *)
Definition map_entries (n : node) : option (list (node * node)) :=
  match n with
  | NMap t _ | NFMap t => Some (map (fun kv => (NString (fst kv), snd kv)) t)
  | _ => None
  end.
Definition list_entries (n : node) : option (list node) :=
  match n with NList x | NFList x => Some x | _ => None end.

(* iterator protocol: the position is an index; Done and Next as coded *)
Definition it_done {A} (l : list A) (i : nat) : bool := Nat.leb (length l) i.
Definition it_next {A} (l : list A) (i : nat) : res err (A * nat) :=
  if it_done l i then Err EOverread
  else match nth_error l i with Some a => Ok (a, S i) | None => Err EOverread end.
(* for !Done { Next } then one more Next: the yielded items and the result of the over-read *)
Fixpoint drain {A} (fuel : nat) (l : list A) (i : nat) : list A * option err :=
  match fuel with
  | O => ([], None)
  | S f =>
    if it_done l i then ([], match it_next l i with Err e => Some e | Ok _ => None end)
    else match it_next l i with
         | Ok (a, i') => let (r, e) := drain f l i' in (a :: r, e)
         | Err e => ([], Some e)
         end
  end.
Definition iterate {A} (l : list A) : list A * option err := drain (S (length l)) l 0.

Fixpoint assoc {V} (k : bytes) (l : list (bytes * V)) : option V :=
  match l with
  | [] => None
  | (k', v) :: r => if bytes_eqb k k' then Some v else assoc k r
  end.

Definition lookup_by_string (n : node) (k : bytes) : res err node :=
  match n with
  | NMap _ m => match assoc k m with Some v => Ok v | None => Err ENotExists end
  | NFMap t => match assoc k t with Some v => Ok v | None => Err ENotExists end
  | _ => Err EWrongKind
  end.

Definition lookup_by_index (n : node) (i : Z) : res err node :=
  match n with
  | NList x | NFList x =>
    if (i <? 0)%Z then Err ENotExists
    else if (Z.of_nat (length x) <=? i)%Z then Err ENotExists
    else match nth_error x (Z.to_nat i) with Some v => Ok v | None => Err ENotExists end
  | _ => Err EWrongKind
  end.

Definition lookup_by_node (n : node) (key : node) : res err node :=
  match n with
  | NMap _ _ | NFMap _ => do ks <- as_string key; lookup_by_string n ks
  | NFList _ => do i <- as_int key; lookup_by_index n i      (* bindnode: int-kinded key on a list *)
  | _ => Err EWrongKind                                      (* plainList: mixins.List *)
  end.

(* --- datamodel.PathSegment{s; i}: holds a string iff i < 0 *)
Record seg := { seg_s : bytes; seg_i : Z }.
Definition seg_of_string (s : bytes) : seg := {| seg_s := s; seg_i := (-1)%Z |}.
Definition seg_of_int (i : Z) : seg := {| seg_s := []; seg_i := i |}.

(* strconv.FormatInt(i, 10) *)
Fixpoint fmt_dec (fuel : nat) (n : N) (acc : bytes) : bytes :=
  match fuel with
  | O => acc
  | S f => let acc' := (48 + n mod 10) :: acc in
           if n <? 10 then acc' else fmt_dec f (n / 10) acc'
  end.
(* an int64 has at most 19 decimal digits *)
Definition format_int (z : Z) : bytes :=
  if (z <? 0)%Z then 45 :: fmt_dec 20 (Z.to_N (- z)) []
  else fmt_dec 20 (Z.to_N z) [].

(* strconv.ParseInt(s, 10, 64): optional sign, then at least one decimal digit and nothing else,
   value within int64; every failure is one error *)
Fixpoint parse_digits (s : bytes) (acc : N) : option N :=
  match s with
  | [] => Some acc
  | c :: r => if (48 <=? c) && (c <=? 57) then parse_digits r (acc * 10 + (c - 48)) else None
  end.
Definition parse_udec (s : bytes) : option N :=
  match s with [] => None | _ => parse_digits s 0 end.
Definition parse_int (s : bytes) : option Z :=
  match s with
  | [] => None
  | c :: r =>
    if c =? 43 then
      match parse_udec r with Some n => if n <? two63 then Some (Z.of_N n) else None | None => None end
    else if c =? 45 then
      match parse_udec r with Some n => if n <=? two63 then Some (- Z.of_N n)%Z else None | None => None end
    else
      match parse_udec s with Some n => if n <? two63 then Some (Z.of_N n) else None | None => None end
  end.

Definition seg_string (sg : seg) : bytes :=
  if (seg_i sg <? 0)%Z then seg_s sg else format_int (seg_i sg).
Definition seg_index (sg : seg) : option Z :=
  if (seg_i sg <? 0)%Z then parse_int (seg_s sg) else Some (seg_i sg).

Definition lookup_by_segment (n : node) (sg : seg) : res err node :=
  match n with
  | NMap _ _ | NFMap _ => lookup_by_string n (seg_string sg)
  | NList _ | NFList _ =>
    match seg_index sg with
    | Some i => lookup_by_index n i
    | None => Err EInvalidSegment
    end
  | _ => Err EWrongKind
  end.

(* ------------------------------------------------------------------ DeepEqual *)

Inductive rres (A : Type) := ROk (a : A) | RErr (e : err) | RPanic.
Arguments ROk {A} a.
Arguments RErr {A} e.
Arguments RPanic {A}.

(* Go's == on float64 *)
Definition f64_is_zero (b : N) : bool := b mod two63 =? 0.
Definition f64_goeq (a b : N) : bool :=
  if f64_is_nan a || f64_is_nan b then false
  else (a =? b) || (f64_is_zero a && f64_is_zero b).

Definition and_r (a : rres bool) (b : rres bool) : rres bool :=
  match a with
  | ROk true => b
  | other => other
  end.

(* the zipped loop of DeepEqual over two iterators (of equal length): stops at the first pair
   that is not equal *)
Fixpoint zip_r {A B} (f : A -> B -> rres bool) (xs : list A) (ys : list B) : rres bool :=
  match xs, ys with
  | a :: xs', b :: ys' => and_r (f a b) (zip_r f xs' ys')
  | _, _ => ROk true
  end.
Fixpoint zip_b {A B} (f : A -> B -> bool) (xs : list A) (ys : list B) : bool :=
  match xs, ys with
  | a :: xs', b :: ys' => f a b && zip_b f xs' ys'
  | _, _ => true
  end.

Definition key_eq (k : bytes) (kn : node) : rres bool :=
  match as_string kn with Ok k' => ROk (bytes_eqb k k') | Err _ => RPanic end.

(* the map loop: key, then value, then the rest *)
Fixpoint zip_kv (f : node -> node -> rres bool) (xs : list (bytes * node)) (ys : list (node * node))
  : rres bool :=
  match xs, ys with
  | (k, a) :: xs', (kn, b) :: ys' => and_r (key_eq k kn) (and_r (f a b) (zip_kv f xs' ys'))
  | _, _ => ROk true
  end.
Fixpoint zip_kvb (f : dm -> dm -> bool) (xs ys : list (bytes * dm)) : bool :=
  match xs, ys with
  | (k, a) :: xs', (k', b) :: ys' => bytes_eqb k k' && (f a b && zip_kvb f xs' ys')
  | _, _ => true
  end.

(* the scalar cases: both sides through the accessor of the (common) kind; an accessor error panics *)
Definition scalar_equal (q : quirks) (x y : node) : rres bool :=
  match kind_of x with
  | KNull => ROk true
  | KBool => match as_bool x, as_bool y with Ok a, Ok b => ROk (Bool.eqb a b) | _, _ => RPanic end
  | KInt =>
    if q_eq_asint q then
      match as_int x, as_int y with Ok a, Ok b => ROk (a =? b)%Z | _, _ => RPanic end
    else
      match x, y with
      | (NInt a | NUint a), (NInt b | NUint b) => ROk (a =? b)%Z
      | _, _ => RPanic
      end
  | KFloat => match as_float x, as_float y with Ok a, Ok b => ROk (f64_goeq a b) | _, _ => RPanic end
  | KString => match as_string x, as_string y with Ok a, Ok b => ROk (bytes_eqb a b) | _, _ => RPanic end
  | KBytes => match as_bytes x, as_bytes y with Ok a, Ok b => ROk (bytes_eqb a b) | _, _ => RPanic end
  | KLink => match as_link x, as_link y with Ok a, Ok b => ROk (bytes_eqb a b) | _, _ => RPanic end
  | _ => ROk false
  end.

Fixpoint deep_equal (q : quirks) (x y : node) {struct x} : rres bool :=
  if negb (kind_eqb (kind_of x) (kind_of y)) then ROk false else
  match x with
  | NList xs | NFList xs =>
    match list_entries y with
    | None => RPanic
    | Some ys =>
      if negb (Z.eqb (length_of x) (length_of y)) then ROk false
      else (fix go (xs ys : list node) : rres bool :=
              match xs, ys with
              | a :: xs', b :: ys' => and_r (deep_equal q a b) (go xs' ys')
              | _, _ => ROk true
              end) xs ys
    end
  | NMap xt _ | NFMap xt =>
    match map_entries y with
    | None => RPanic
    | Some ys =>
      if negb (Z.eqb (length_of x) (length_of y)) then ROk false
      else (fix go (xs : list (bytes * node)) (ys : list (node * node)) : rres bool :=
              match xs, ys with
              | (k, a) :: xs', (kn, b) :: ys' =>
                and_r (key_eq k kn) (and_r (deep_equal q a b) (go xs' ys'))
              | _, _ => ROk true
              end) xt ys
    end
  | _ => scalar_equal q x y
  end.

(* the specification side: equality of abstract values as DeepEqual defines it *)
Fixpoint dm_goeq (a b : dm) {struct a} : bool :=
  match a, b with
  | DNull, DNull => true
  | DBool x, DBool y => Bool.eqb x y
  | DInt x, DInt y => Z.eqb x y
  | DFloat x, DFloat y => f64_goeq x y
  | DString x, DString y => bytes_eqb x y
  | DBytes x, DBytes y => bytes_eqb x y
  | DLink x, DLink y => bytes_eqb x y
  | DList x, DList y =>
      Nat.eqb (length x) (length y) &&
      (fix go (x y : list dm) : bool :=
         match x, y with
         | a :: x', b :: y' => dm_goeq a b && go x' y'
         | _, _ => true
         end) x y
  | DMap x, DMap y =>
      Nat.eqb (length x) (length y) &&
      (fix go (x y : list (bytes * dm)) : bool :=
         match x, y with
         | (k, a) :: x', (k', b) :: y' => bytes_eqb k k' && (dm_goeq a b && go x' y')
         | _, _ => true
         end) x y
  | _, _ => false
  end.

(* ------------------------------------------------------------------ assemblers *)

Inductive proto := PAny | PMap | PList | PBool | PInt | PFloat | PString | PBytes | PLink.

Inductive aop :=
| BeginMap (h : Z) | BeginList (h : Z)
| AssembleKey | AssembleValue | AssembleEntry (k : bytes)
| AssignNull | AssignBool (b : bool) | AssignInt (z : Z) | AssignFloat (f : N)
| AssignString (s : bytes) | AssignBytes (s : bytes) | AssignLink (c : bytes)
| AssignNode (n : node)
| Finish.

Inductive mastate := MaInitial | MaMidKey | MaExpectValue (k : bytes) | MaMidValue (k : bytes).
Inductive lastate := LaInitial | LaMidValue.

Inductive frame :=
| FRoot (p : proto)                                          (* the NodeBuilder, nothing assigned *)
| FMap (t m : list (bytes * node)) (st : mastate)            (* a plainMap__Assembler *)
| FList (x : list node) (st : lastate).                      (* a plainList__Assembler *)

(* innermost assembler first; [SDone p n]: the builder of prototype p holds the finished node n *)
Inductive state := SOpen (stk : list frame) | SDone (p : proto) (n : node).

Definition init (p : proto) : state := SOpen [FRoot p].

Inductive outcome := OOk (s : state) | OErr (e : err) (s : state) | OPanic | ONoMethod.

(* the finished value [n] arrives at the assembler that was waiting for it *)
Definition deliver (stk : list frame) (n : node) : outcome :=
  match stk with
  | FRoot p :: _ => OOk (SDone p n)
  | FMap t m (MaMidValue k) :: r => OOk (SOpen (FMap (t ++ [(k, n)]) ((k, n) :: m) MaInitial :: r))
  | FList x LaMidValue :: r => OOk (SOpen (FList (x ++ [n]) LaInitial :: r))
  | _ => OPanic
  end.

Definition scalar_of (o : aop) : option node :=
  match o with
  | AssignNull => Some NNull
  | AssignBool b => Some (NBool b)
  | AssignInt z => Some (NInt z)
  | AssignFloat f => Some (NFloat f)
  | AssignString s => Some (NString s)
  | AssignBytes s => Some (NBytes s)
  | AssignLink c => Some (NLink c)
  | _ => None
  end.

(* a NodeAssembler position that takes any kind: anyBuilder, map value, list value *)
Definition value_op (stk : list frame) (o : aop) : outcome :=
  match o with
  | BeginMap _ => OOk (SOpen (FMap [] [] MaInitial :: stk))
  | BeginList _ => OOk (SOpen (FList [] LaInitial :: stk))
  | AssignNode n => deliver stk n
  | AssembleKey | AssembleValue | AssembleEntry _ | Finish => ONoMethod
  | _ => match scalar_of o with Some n => deliver stk n | None => ONoMethod end
  end.

(* plainMap__Assembler.AssignNode, the generic path: AssembleKey().AssignNode(k),
   AssembleValue().AssignNode(v) for every entry of the source, then Finish *)
Fixpoint put_all (stk : list frame) (t m : list (bytes * node)) (es : list (bytes * node)) : outcome :=
  match es with
  | [] => OOk (SDone PMap (NMap t m))
  | (k, v) :: r =>
    if mem_key k m then OErr ERepeatedKey (SOpen (FMap t m MaInitial :: stk))
    else put_all stk (t ++ [(k, v)]) ((k, v) :: m) r
  end.

Definition wrong (s : state) : outcome := OErr EWrongKind s.

(* the typed root builders, nothing assigned yet (or, for scalars, at any time) *)
Definition root_op (q : quirks) (p : proto) (stk : list frame) (s : state) (o : aop) : outcome :=
  match o with
  | AssembleKey | AssembleValue | AssembleEntry _ | Finish => ONoMethod
  | _ =>
  match p with
  | PAny => value_op stk o
  | PMap =>
    match o with
    | BeginMap _ => OOk (SOpen (FMap [] [] MaInitial :: stk))
    | AssignNode (NMap t m) => OOk (SDone PMap (NMap t m))
    | AssignNode n =>
      match n with
      | NFMap t =>
        if q_pmap_nilmap q then
          match t with [] => OOk (SDone PMap (NMap [] [])) | _ => OPanic end
        else put_all stk [] [] t
      | _ => wrong s
      end
    | _ => wrong s
    end
  | PList =>
    match o with
    | BeginList _ => OOk (SOpen (FList [] LaInitial :: stk))
    | AssignNode (NList x) => OOk (SDone PList (NList x))
    | AssignNode (NFList x) => OOk (SDone PList (NList x))
    | _ => wrong s
    end
  | PBool =>
    match o with
    | AssignBool b => OOk (SDone PBool (NBool b))
    | AssignNode n => match as_bool n with Ok b => OOk (SDone PBool (NBool b)) | Err e => OErr e s end
    | _ => wrong s
    end
  | PInt =>
    match o with
    | AssignInt z => OOk (SDone PInt (NInt z))
    | AssignNode n => match as_int n with Ok z => OOk (SDone PInt (NInt z)) | Err e => OErr e s end
    | _ => wrong s
    end
  | PFloat =>
    match o with
    | AssignFloat f => OOk (SDone PFloat (NFloat f))
    | AssignNode n => match as_float n with Ok f => OOk (SDone PFloat (NFloat f)) | Err e => OErr e s end
    | _ => wrong s
    end
  | PString =>
    match o with
    | AssignString x => OOk (SDone PString (NString x))
    | AssignNode n => match as_string n with Ok x => OOk (SDone PString (NString x)) | Err e => OErr e s end
    | _ => wrong s
    end
  | PBytes =>
    match o with
    | AssignBytes x => OOk (SDone PBytes (NBytes x))
    | AssignNode n =>
      match as_large_bytes n with
      | Some x => OOk (SDone PBytes (if q_stream_oneshot q then NStream x else NBytes x))
      | None => match as_bytes n with Ok x => OOk (SDone PBytes (NBytes x)) | Err e => OErr e s end
      end
    | _ => wrong s
    end
  | PLink =>
    match o with
    | AssignLink c => OOk (SDone PLink (NLink c))
    | AssignNode n => match as_link n with Ok c => OOk (SDone PLink (NLink c)) | Err e => OErr e s end
    | _ => wrong s
    end
  end
  end.

Definition is_scalar_proto (p : proto) : bool :=
  match p with PAny | PMap | PList => false | _ => true end.

Definition step (q : quirks) (s : state) (o : aop) : outcome :=
  match s with
  | SDone p n =>
    (* the builder after its value is complete *)
    if is_scalar_proto p then root_op q p [FRoot p] s o            (* scalar builders simply overwrite *)
    else match o with
         | AssembleKey | AssembleValue | AssembleEntry _ | Finish => ONoMethod
         | _ =>
           match p with
           | PAny => OPanic                              (* anyBuilder: kind already set: "misuse" *)
           | _ => match o with
                  | AssignNode _ => OPanic               (* state != initial: "misuse" *)
                  | BeginMap _ => match p with PMap => ONoMethod | _ => wrong s end
                  | BeginList _ => match p with PList => ONoMethod | _ => wrong s end
                  | _ => wrong s
                  end
           end
         end
  | SOpen [] => ONoMethod
  | SOpen ((FRoot p :: _) as stk) => root_op q p stk s o
  | SOpen (FMap t m MaInitial :: r) =>
    match o with
    | AssembleKey => OOk (SOpen (FMap t m MaMidKey :: r))
    | AssembleEntry k =>
      if mem_key k m then OErr ERepeatedKey s
      else OOk (SOpen (FMap t m (MaMidValue k) :: r))
    | AssembleValue => OPanic
    | Finish => deliver r (NMap t m)
    | _ => ONoMethod
    end
  | SOpen (FMap t m MaMidKey :: r) =>
    let assign_key := fun (k : bytes) =>
      if mem_key k m then OErr ERepeatedKey (SOpen (FMap t m MaInitial :: r))
      else OOk (SOpen (FMap t m (MaExpectValue k) :: r)) in
    match o with
    | AssignString k => assign_key k
    | AssignNode n => match as_string n with Ok k => assign_key k | Err _ => OErr EOther s end
    | AssembleKey | AssembleEntry _ | AssembleValue | Finish => OPanic
    | _ => wrong s
    end
  | SOpen (FMap t m (MaExpectValue k) :: r) =>
    match o with
    | AssembleValue => OOk (SOpen (FMap t m (MaMidValue k) :: r))
    | AssembleKey | AssembleEntry _ | Finish => OPanic
    | _ => ONoMethod
    end
  | SOpen ((FMap t m (MaMidValue k) :: r) as stk) =>
    match o with
    | AssembleKey | AssembleEntry _ | AssembleValue | Finish => OPanic
    | _ => value_op stk o
    end
  | SOpen (FList x LaInitial :: r) =>
    match o with
    | AssembleValue => OOk (SOpen (FList x LaMidValue :: r))
    | Finish => deliver r (NList x)
    | _ => ONoMethod
    end
  | SOpen ((FList x LaMidValue :: r) as stk) =>
    match o with
    | AssembleValue | Finish => OPanic
    | AssembleKey | AssembleEntry _ => ONoMethod
    | _ => value_op stk o
    end
  end.

(* NodeBuilder.Build; None = panic *)
Definition build (s : state) : option node :=
  match s with
  | SDone _ n => Some n
  | SOpen [FRoot p] =>
    match p with
    | PBool => Some (NBool false) | PInt => Some (NInt 0) | PFloat => Some (NFloat 0)
    | PString => Some (NString []) | PBytes => Some (NBytes []) | PLink => Some (NLink [])
    | _ => None
    end
  | _ => None
  end.

(* per-call result classes *)
Inductive sres := SOk | SErr (e : err) | SPanic | SNoMethod.

(* run a script; stop at the first call that is not ok *)
Fixpoint steps (q : quirks) (s : state) (ops : list aop) : outcome :=
  match ops with
  | [] => OOk s
  | o :: r => match step q s o with OOk s' => steps q s' r | other => other end
  end.

(* run a script, continuing after calls that returned an error (the assembler stays usable) *)
Fixpoint run_tol (q : quirks) (s : state) (ops : list aop) : list sres * option state :=
  match ops with
  | [] => ([], Some s)
  | o :: r =>
    match step q s o with
    | OOk s' => let (tr, f) := run_tol q s' r in (SOk :: tr, f)
    | OErr e s' => let (tr, f) := run_tol q s' r in (SErr e :: tr, f)
    | OPanic => ([SPanic], None)
    | ONoMethod => ([SNoMethod], None)
    end
  end.

(* build a value the whole way: script, then Build *)
Definition run (q : quirks) (p : proto) (ops : list aop) : option node :=
  match steps q (init p) ops with
  | OOk s => build s
  | _ => None
  end.

(* ------------------------------------------------------------------ datamodel.Copy *)

(* the calls Copy makes on the assembler, read off the node API; Err = Copy fails before any call *)
Definition copy_script (q : quirks) (n : node) : res err (list aop) :=
  match kind_of n with
  | KNull => Ok [AssignNull]
  | KBool => match as_bool n with Ok b => Ok [AssignBool b] | Err _ => Err EOther end
  | KInt =>
    if q_copy_asint q then
      match as_int n with Ok z => Ok [AssignInt z] | Err _ => Err EOther end
    else
      match n with
      | NInt z => Ok [AssignInt z]
      | NUint z => if (z <? two63z)%Z then Ok [AssignInt z] else Ok [AssignNode n]
      | _ => Err EOther
      end
  | KFloat => match as_float n with Ok f => Ok [AssignFloat f] | Err _ => Err EOther end
  | KString => match as_string n with Ok s => Ok [AssignString s] | Err _ => Err EOther end
  | KBytes => match as_bytes n with Ok s => Ok [AssignBytes s] | Err _ => Err EOther end
  | KLink => match as_link n with Ok c => Ok [AssignLink c] | Err _ => Err EOther end
  | KMap =>
    match map_entries n with
    | Some es =>
      Ok (BeginMap (length_of n) ::
          flat_map (fun kv => [AssembleKey; AssignNode (fst kv); AssembleValue; AssignNode (snd kv)]) es
          ++ [Finish])
    | None => Err EOther
    end
  | KList =>
    match list_entries n with
    | Some xs =>
      Ok (BeginList (length_of n) :: flat_map (fun v => [AssembleValue; AssignNode v]) xs ++ [Finish])
    | None => Err EOther
    end
  end.

(* Copy(n, proto.NewBuilder()) then Build *)
Definition copy (q : quirks) (p : proto) (n : node) : rres node :=
  match copy_script q n with
  | Err e => RErr e
  | Ok ops =>
    match steps q (init p) ops with
    | OOk s => match build s with Some n' => ROk n' | None => RPanic end
    | OErr e _ => RErr e
    | OPanic | ONoMethod => RPanic
    end
  end.

(* ------------------------------------------------------------------ embedding values *)

(* the node a plain basicnode build of [v] yields (the twin), and the same value held by another
   implementation at the top level *)
Fixpoint plain_of (v : dm) : node :=
  match v with
  | DNull => NNull
  | DBool b => NBool b
  | DInt z => if (z <? two63z)%Z then NInt z else NUint z
  | DFloat f => NFloat f
  | DString s => NString s
  | DBytes s => NBytes s
  | DLink c => NLink c
  | DList l => NList (map plain_of l)
  | DMap m => let t := map (fun kv => (fst kv, plain_of (snd kv))) m in NMap t (rev t)
  end.
