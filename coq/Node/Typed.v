(* Node/Typed.v — the typed assemblers of the two engines (bindnode = reflection, gendemo = generated
   code) for the family of schema types
       TyS     type Msg3 struct { whee Int  woot Int  waga Int }
       TyM vt  {String:vt}          TyL et  [et]            (nested to any depth)
   as a state machine over the same assembler calls as Node/Basic.v.  MODEL file: definitions only.
   Tied to the code by the C12 run for bindnode on S, MS, LS, LMS, MMS, MLS, … (inferred Go types) and for
   the generated code on the two types gendemo has (S = Msg3, MS = Map__String__Msg3); the generated
   list assembler is modelled after schema/gen/go/genpartsList.go and is not exercised by a run.

   Scope: faithful on the call sequences of the legal grammar with injected rejections (repeated
   key through AssembleEntry or through the key assembler, wrong-kind assignments at key and value
   positions) and on what each engine does right after it wrongly accepts or mishandles one.  Other
   call orders are [TNoMethod] (outside the model; the harness does not make them).
   gendemo keeps maState-style state and panics on misuse; bindnode keeps no protocol state at all.

   Defects of the pinned tree are switches of [tquirks]:
     tq_bind_struct_nodup bindnode: the struct assembler does not check for a repeated field
     tq_bind_map_nodup    bindnode: the typed map assembler does not check for a repeated key
     tq_bind_reset_panics bindnode: NodeBuilder.Reset panics ("TODO")
     tq_gen_struct_stuck  generated struct key assembler: a rejected key (repeated, unknown) leaves
                          the state at midKey, so the next AssembleKey/AssembleEntry/Finish panics
     tq_gen_map_key_nodup generated map: a key supplied through AssembleKey is never checked against
                          the keys already present (AssembleEntry is)
     tq_gen_map_node_panics generated map: AssignNode of a non-empty map node of another
                          implementation panics (the generic path never calls BeginMap: nil lookup map) *)
Require Import IP.Base.Bytes IP.DM.Value IP.Node.Basic.
Open Scope N_scope.

Inductive engine := EBind | EGen.
Inductive tty := TyS | TyM (vt : tty) | TyL (et : tty).

Record tquirks := {
  tq_bind_struct_nodup : bool;
  tq_bind_map_nodup : bool;
  tq_bind_reset_panics : bool;
  tq_gen_struct_stuck : bool;
  tq_gen_map_key_nodup : bool;
  tq_gen_map_node_panics : bool
}.
Definition tpinned : tquirks :=
  {| tq_bind_struct_nodup := true; tq_bind_map_nodup := true; tq_bind_reset_panics := true; tq_gen_struct_stuck := true; tq_gen_map_key_nodup := true;
     tq_gen_map_node_panics := true |}.
Definition trepaired : tquirks :=
  {| tq_bind_struct_nodup := false; tq_bind_map_nodup := false; tq_bind_reset_panics := false; tq_gen_struct_stuck := false; tq_gen_map_key_nodup := false;
     tq_gen_map_node_panics := false |}.

Definition f_whee : bytes := [119; 104; 101; 101].
Definition f_woot : bytes := [119; 111; 111; 116].
Definition f_waga : bytes := [119; 97; 103; 97].

Definition field_index (k : bytes) : option nat :=
  if bytes_eqb k f_whee then Some 0%nat
  else if bytes_eqb k f_woot then Some 1%nat
  else if bytes_eqb k f_waga then Some 2%nat
  else None.

Inductive terr := TEWrong | TERepeated | TEMissing | TEInvalidKey | TEOther.

(* a struct under assembly: which fields were started, the assignments made (oldest first) *)
Definition svals := list (nat * Z).

Inductive tsst := TsInitial | TsMidKey | TsExpectValue (f : nat) | TsMidValue (f : nat).
Inductive tmst := TmInitial | TmMidKey | TmExpectValue (k : bytes) | TmMidValue (k : bytes).

Inductive tlst := TlInitial | TlMidValue.

(* values under assembly / assembled: a struct is its assignments (oldest first), a map its entry
   table in insertion order, a list its elements *)
Inductive tval := TVS (vals : svals) | TVM (t : list (bytes * tval)) | TVL (x : list tval).

Inductive tframe :=
| TRoot (ty : tty)
| TStruct (done : list nat) (vals : svals) (st : tsst)
| TMap (vt : tty) (t : list (bytes * tval)) (st : tmst)
| TList (et : tty) (x : list tval) (st : tlst).

Inductive tstate := TOpen (stk : list tframe) | TDone (v : tval).
Inductive toutcome := TOk (s : tstate) | TErr (e : terr) (s : tstate) | TPanic | TNoMethod.

Definition tinit (ty : tty) : tstate := TOpen [TRoot ty].

Definition has (f : nat) (l : list nat) : bool := existsb (Nat.eqb f) l.

(* the finished value arrives at the assembler that was waiting for it *)
Definition tdeliver (stk : list tframe) (v : tval) : toutcome :=
  match stk with
  | TRoot _ :: _ => TOk (TDone v)
  | TMap vt t (TmMidValue k) :: r => TOk (TOpen (TMap vt (t ++ [(k, v)]) TmInitial :: r))
  | TList et x TlMidValue :: r => TOk (TOpen (TList et (x ++ [v]) TlInitial :: r))
  | _ => TNoMethod
  end.

(* a node that reads as a Msg3: exactly the three fields, ints *)
Definition as_msg3 (n : node) : option svals :=
  match map_entries n with
  | Some [(k0, v0); (k1, v1); (k2, v2)] =>
    match as_string k0, as_string k1, as_string k2, as_int v0, as_int v1, as_int v2 with
    | Ok a, Ok b, Ok c, Ok x, Ok y, Ok z =>
      match field_index a, field_index b, field_index c with
      | Some i, Some j, Some l =>
        if Nat.eqb i j || Nat.eqb i l || Nat.eqb j l then None else Some [(i, x); (j, y); (l, z)]
      | _, _, _ => None
      end
    | _, _, _, _, _, _ => None
    end
  | _ => None
  end.

Definition is_map_op (o : aop) : bool :=
  match o with AssembleKey | AssembleValue | AssembleEntry _ | Finish => true | _ => false end.

(* a node of another implementation read as a value of type ty (what ranging over it assembles);
   None: it does not conform (or repeats a key) *)
Fixpoint node_tval (ty : tty) (n : node) : option tval :=
  match ty with
  | TyS => match as_msg3 n with Some vals => Some (TVS vals) | None => None end
  | TyM vt =>
    match map_entries n with
    | Some es =>
      (fix go (es : list (node * node)) (acc : list (bytes * tval)) : option tval :=
         match es with
         | [] => Some (TVM acc)
         | (kn, vn) :: r =>
           match as_string kn, node_tval vt vn with
           | Ok k, Some v => if mem_key k acc then None else go r (acc ++ [(k, v)])
           | _, _ => None
           end
         end) es []
    | None => None
    end
  | TyL et =>
    match list_entries n with
    | Some xs =>
      (fix go (xs : list node) (acc : list tval) : option tval :=
         match xs with
         | [] => Some (TVL acc)
         | vn :: r => match node_tval et vn with Some v => go r (acc ++ [v]) | None => None end
         end) xs []
    | None => None
    end
  end.

Definition is_empty_map (v : tval) : bool := match v with TVM [] => true | _ => false end.

(* Convention for AssignNode arguments of the typed engines: [NFMap] / [NFList] stand for a node whose
   Go type IS the engine's type-level node type for the schema type at that position — a type-level node,
   or what a representation-level builder built (it hands back the type-level node): the assembler's
   same-type shortcut copies it.  Everything else is a node of ANOTHER implementation and is ranged over:
   basicnode containers ([NMap], [NList]) and also the representation VIEW (node.Representation()) of the
   engine's own nodes, whose Go type the shortcut does not match (checked on gendemo: the view of a
   non-empty map panics in the generic path like a basicnode map, into either builder level; struct views
   are accepted).  The drivers hand views over as [NMap] / [NList]. *)
Definition same_impl (n : node) : bool := match n with NFMap _ | NFList _ => true | _ => false end.

(* a position holding a value of type ty: the root builder, a map value, a list element *)
Definition pos_op (e : engine) (q : tquirks) (ty : tty) (stk : list tframe) (s : tstate) (o : aop) : toutcome :=
  match o with
  | AssembleKey | AssembleValue | AssembleEntry _ | Finish => TNoMethod
  | AssignNode n =>
    let want := match ty with TyL _ => KList | _ => KMap end in
    match node_tval ty n with
    | Some v =>
      match ty, e with
      | TyM _, EGen =>
        if tq_gen_map_node_panics q && negb (is_empty_map v) && negb (same_impl n) then TPanic
        else tdeliver stk v
      | _, _ => tdeliver stk v
      end
    | None => if kind_eqb (kind_of n) want then TNoMethod else TErr TEWrong s
    end
  | BeginMap _ =>
    match ty with
    | TyS => TOk (TOpen (TStruct [] [] TsInitial :: stk))
    | TyM vt => TOk (TOpen (TMap vt [] TmInitial :: stk))
    | TyL _ => TErr TEWrong s
    end
  | BeginList _ =>
    match ty with
    | TyL et => TOk (TOpen (TList et [] TlInitial :: stk))
    | _ => TErr TEWrong s
    end
  | _ => TErr TEWrong s
  end.

Definition struct_dup_checked (e : engine) (q : tquirks) : bool :=
  match e with EGen => true | EBind => negb (tq_bind_struct_nodup q) end.

Definition tstep (e : engine) (q : tquirks) (s : tstate) (o : aop) : toutcome :=
  match s with
  | TDone _ => TNoMethod
  | TOpen [] => TNoMethod
  | TOpen ((TRoot ty :: _) as stk) => pos_op e q ty stk s o
  | TOpen (TStruct done vals st :: r) =>
    (* the map-assembler calls as the struct assembler answers them when it expects a key *)
    let at_initial :=
      match o with
      | AssembleKey => TOk (TOpen (TStruct done vals TsMidKey :: r))
      | AssembleEntry k =>
        match field_index k with
        | None => match e with EGen => TErr TEInvalidKey (TOpen (TStruct done vals TsInitial :: r)) | EBind => TNoMethod end
        | Some f =>
          if has f done then
            if struct_dup_checked e q then TErr TERepeated (TOpen (TStruct done vals TsInitial :: r))
            else TOk (TOpen (TStruct done vals (TsMidValue f) :: r))
          else TOk (TOpen (TStruct (f :: done) vals (TsMidValue f) :: r))
        end
      | Finish =>
        if has 0 done && has 1 done && has 2 done then tdeliver r (TVS vals)
        else TErr TEMissing (TOpen (TStruct done vals TsInitial :: r))
      | AssembleValue => match e with EGen => TPanic | EBind => TNoMethod end
      | _ => TNoMethod
      end in
    match st with
    | TsInitial => at_initial
    | TsMidKey =>
      let give := fun (k : bytes) =>
        match field_index k with
        | None => match e with EGen => TErr TEInvalidKey s | EBind => TNoMethod end
        | Some f =>
          if has f done then
            if struct_dup_checked e q then
              match e with
              | EGen => TErr TERepeated
                          (if tq_gen_struct_stuck q then s else TOpen (TStruct done vals TsInitial :: r))
              | EBind => TErr TERepeated (TOpen (TStruct done vals TsInitial :: r))
              end
            else TOk (TOpen (TStruct done vals (TsExpectValue f) :: r))
          else
            match e with
            | EGen => TOk (TOpen (TStruct (f :: done) vals (TsExpectValue f) :: r))
            | EBind => TOk (TOpen (TStruct done vals (TsExpectValue f) :: r))
            end
        end in
      match o with
      | AssignString k => give k
      | AssignNode n => match as_string n with Ok k => give k | Err _ => TErr TEWrong s end
      | AssembleKey | AssembleValue | AssembleEntry _ | Finish =>
        match e with EGen => TPanic | EBind => TNoMethod end
      | _ => TErr TEWrong s
      end
    | TsExpectValue f =>
      match o with
      | AssembleValue =>
        TOk (TOpen (TStruct (match e with EBind => if has f done then done else f :: done | EGen => done end)
                            vals (TsMidValue f) :: r))
      | AssembleKey | AssembleEntry _ | Finish =>
        match e with EGen => TPanic | EBind => at_initial end
      | _ => TNoMethod
      end
    | TsMidValue f =>
      match o with
      | AssignInt z => TOk (TOpen (TStruct done (vals ++ [(f, z)]) TsInitial :: r))
      | AssignNode n =>
        match as_int n with
        | Ok z => TOk (TOpen (TStruct done (vals ++ [(f, z)]) TsInitial :: r))
        | Err EWrongKind => TErr TEWrong s
        | Err _ => TErr TEOther s
        end
      | AssembleKey | AssembleEntry _ | Finish =>
        match e with EGen => TPanic | EBind => at_initial end
      | AssembleValue => match e with EGen => TPanic | EBind => TNoMethod end
      | _ => TErr TEWrong s
      end
    end
  | TOpen (TMap vt t st :: r) =>
    let at_initial :=
      match o with
      | AssembleKey => TOk (TOpen (TMap vt t TmMidKey :: r))
      | AssembleEntry k =>
        if mem_key k t && (match e with EGen => true | EBind => negb (tq_bind_map_nodup q) end)
        then TErr TERepeated (TOpen (TMap vt t TmInitial :: r))
        else TOk (TOpen (TMap vt t (TmMidValue k) :: r))
      | Finish => tdeliver r (TVM t)
      | AssembleValue => match e with EGen => TPanic | EBind => TNoMethod end
      | _ => TNoMethod
      end in
    match st with
    | TmInitial => at_initial
    | TmMidKey =>
      let give := fun (k : bytes) =>
        let checked := match e with EGen => negb (tq_gen_map_key_nodup q) | EBind => negb (tq_bind_map_nodup q) end in
        if mem_key k t && checked then TErr TERepeated (TOpen (TMap vt t TmInitial :: r))
        else TOk (TOpen (TMap vt t (TmExpectValue k) :: r)) in
      match o with
      | AssignString k => give k
      | AssignNode n => match as_string n with Ok k => give k | Err _ => TErr TEWrong s end
      | AssembleKey | AssembleValue | AssembleEntry _ | Finish =>
        match e with EGen => TPanic | EBind => TNoMethod end
      | _ => TErr TEWrong s
      end
    | TmExpectValue k =>
      match o with
      | AssembleValue => TOk (TOpen (TMap vt t (TmMidValue k) :: r))
      | AssembleKey | AssembleEntry _ | Finish =>
        match e with EGen => TPanic | EBind => at_initial end
      | _ => TNoMethod
      end
    | TmMidValue k =>
      match o with
      | AssembleKey | AssembleEntry _ | Finish =>
        match e with EGen => TPanic | EBind => at_initial end
      | AssembleValue => match e with EGen => TPanic | EBind => TNoMethod end
      | _ => pos_op e q vt (TMap vt t (TmMidValue k) :: r) s o
      end
    end
  | TOpen (TList et x st :: r) =>
    match st with
    | TlInitial =>
      match o with
      | AssembleValue => TOk (TOpen (TList et x TlMidValue :: r))
      | Finish => tdeliver r (TVL x)
      | _ => TNoMethod
      end
    | TlMidValue =>
      match o with
      | AssembleValue | Finish => match e with EGen => TPanic | EBind => TNoMethod end
      | AssembleKey | AssembleEntry _ => TNoMethod
      | _ => pos_op e q et (TList et x TlMidValue :: r) s o
      end
    end
  end.

Inductive tsres := TSOk | TSErr (e : terr) | TSPanic | TSNoMethod.

Fixpoint trun_tol (e : engine) (q : tquirks) (s : tstate) (ops : list aop) : list tsres * option tstate :=
  match ops with
  | [] => ([], Some s)
  | o :: r =>
    match tstep e q s o with
    | TOk s' => let (tr, f) := trun_tol e q s' r in (TSOk :: tr, f)
    | TErr c s' => let (tr, f) := trun_tol e q s' r in (TSErr c :: tr, f)
    | TPanic => ([TSPanic], None)
    | TNoMethod => ([TSNoMethod], None)
    end
  end.

(* the value of a field: its last assignment (a Go int64 field starts at 0) *)
Fixpoint field_val (f : nat) (vals : svals) (acc : Z) : Z :=
  match vals with
  | [] => acc
  | (g, z) :: r => field_val f r (if Nat.eqb f g then z else acc)
  end.

Definition struct_dm (vals : svals) : dm :=
  DMap [(f_whee, DInt (field_val 0 vals 0)); (f_woot, DInt (field_val 1 vals 0)); (f_waga, DInt (field_val 2 vals 0))].

(* last value stored under a key *)
Fixpoint last_dm (k : bytes) (t : list (bytes * dm)) (acc : dm) : dm :=
  match t with
  | [] => acc
  | (k', v) :: r => last_dm k r (if bytes_eqb k k' then v else acc)
  end.

(* what the built node reads as.  bindnode keeps Keys []string + Values map: a key accepted twice
   is listed twice and both read the last value; the generated map keeps one table entry per
   accepted key, each with its own value *)
Fixpoint tval_dm (e : engine) (v : tval) : dm :=
  match v with
  | TVS vals => struct_dm vals
  | TVM t =>
    let l := (fix go (t : list (bytes * tval)) : list (bytes * dm) :=
                match t with [] => [] | (k, x) :: r => (k, tval_dm e x) :: go r end) t in
    DMap (match e with
          | EBind => map (fun kv => (fst kv, last_dm (fst kv) l (snd kv))) l
          | EGen => l
          end)
  | TVL x =>
    DList ((fix go (x : list tval) : list dm :=
              match x with [] => [] | a :: r => tval_dm e a :: go r end) x)
  end.

(* NodeBuilder.Build: None = panic *)
Definition tbuild (e : engine) (s : tstate) : option dm :=
  match s with TDone v => Some (tval_dm e v) | _ => None end.

(* NodeBuilder.Reset: false = panic *)
Definition treset_ok (e : engine) (q : tquirks) : bool :=
  match e with EBind => negb (tq_bind_reset_panics q) | EGen => true end.
