(* Node/Protocol.v — the LEGAL call grammar of the assembler interfaces as inductive relations
   (C01: all legal ways to assemble a value; C12: the same grammar with the two rejections the
   contract pins down injected at any position).  MODEL file: definitions only.

   An annotated script is a list of (call, expected result class).  [AScript v s]: s is a legal
   way, nested to any depth, to assemble the value v at a position that takes any kind, where
     - a map entry is supplied through AssembleEntry, or AssembleKey + a key-giving call
       (AssignString, or AssignNode of a string node of any implementation) + AssembleValue;
     - a value is assigned directly, or by AssignNode of a well-formed node of any implementation,
       or assembled recursively after BeginMap/BeginList with ANY size hint;
     - injected rejections: a repeated key (through AssembleEntry, or through the key assembler),
       expected class repeated_key, after which assembly continues as if the call had not been
       made; calls of an unacceptable kind on a key assembler (wrong_kind; "other" for a
       non-string node), after which the key assembler is still waiting for its key.
   [AScriptP q p v s]: the same at the root of a builder of prototype p, where the typed builders
   first may see wrong-kind calls.
   Call orders outside these relations are misuse as far as the contract is concerned. *)
Require Import IP.Base.Bytes IP.DM.Value IP.Node.Basic.

(* nodes as builders produce them / as a well-behaved foreign implementation presents them *)
Inductive wf : node -> Prop :=
| wf_null : wf NNull
| wf_bool b : wf (NBool b)
| wf_int z : wf (NInt z)
| wf_uint z : wf (NUint z)
| wf_float f : wf (NFloat f)
| wf_string s : wf (NString s)
| wf_bytes s : wf (NBytes s)
| wf_stream s : wf (NStream s)
| wf_link c : wf (NLink c)
| wf_list x : Forall wf x -> wf (NList x)
| wf_flist x : Forall wf x -> wf (NFList x)
| wf_map t m : NoDup (map fst t) -> (forall k, assoc k m = assoc k t) ->
               Forall (fun kv => wf (snd kv)) t -> wf (NMap t m)
| wf_fmap t : NoDup (map fst t) -> Forall (fun kv => wf (snd kv)) t -> wf (NFMap t).

Notation ann := (aop * sres)%type (only parsing).
Definition ok (o : aop) : ann := (o, SOk).

(* calls a key assembler answers with wrong-kind *)
Definition key_wrong (o : aop) : bool :=
  match o with
  | BeginMap _ | BeginList _ | AssignNull | AssignBool _ | AssignInt _ | AssignFloat _
  | AssignBytes _ | AssignLink _ => true
  | _ => false
  end.

Inductive KeyTry : ann -> Prop :=
| KT_wrong o : key_wrong o = true -> KeyTry (o, SErr EWrongKind)
| KT_node n e : as_string n = Err e -> KeyTry (AssignNode n, SErr EOther).

Inductive KeyGive (k : bytes) : aop -> Prop :=
| KG_string : KeyGive k (AssignString k)
| KG_node n : as_string n = Ok k -> KeyGive k (AssignNode n).

Section Bodies.
  Variable S : dm -> list ann -> Prop.

  (* [MapBody ks rest body]: with the keys ks accepted so far, body supplies exactly the entries
     rest (in order) and finishes *)
  Inductive MapBody : list bytes -> list (bytes * dm) -> list ann -> Prop :=
  | MB_finish ks : MapBody ks [] [ok Finish]
  | MB_entry ks k v rest s body :
      ~ In k ks -> S v s -> MapBody (k :: ks) rest body ->
      MapBody ks ((k, v) :: rest) (ok (AssembleEntry k) :: s ++ body)
  | MB_key ks k v rest tries g s body :
      ~ In k ks -> Forall KeyTry tries -> KeyGive k g -> S v s -> MapBody (k :: ks) rest body ->
      MapBody ks ((k, v) :: rest)
              (ok AssembleKey :: tries ++ ok g :: ok AssembleValue :: s ++ body)
  | MB_dup_entry ks k rest body :
      In k ks -> MapBody ks rest body ->
      MapBody ks rest ((AssembleEntry k, SErr ERepeatedKey) :: body)
  | MB_dup_key ks k rest tries g body :
      In k ks -> Forall KeyTry tries -> KeyGive k g -> MapBody ks rest body ->
      MapBody ks rest (ok AssembleKey :: tries ++ (g, SErr ERepeatedKey) :: body).

  Inductive ListBody : list dm -> list ann -> Prop :=
  | LB_finish : ListBody [] [ok Finish]
  | LB_value v rest s body :
      S v s -> ListBody rest body -> ListBody (v :: rest) (ok AssembleValue :: s ++ body).
End Bodies.

Inductive AScript : dm -> list ann -> Prop :=
| AS_null : AScript DNull [ok AssignNull]
| AS_bool b : AScript (DBool b) [ok (AssignBool b)]
| AS_int z : AScript (DInt z) [ok (AssignInt z)]
| AS_float f : AScript (DFloat f) [ok (AssignFloat f)]
| AS_string s : AScript (DString s) [ok (AssignString s)]
| AS_bytes s : AScript (DBytes s) [ok (AssignBytes s)]
| AS_link c : AScript (DLink c) [ok (AssignLink c)]
| AS_node n : wf n -> AScript (abs n) [ok (AssignNode n)]
| AS_list h l body : ListBody AScript l body -> AScript (DList l) (ok (BeginList h) :: body)
| AS_map h m body : MapBody AScript [] m body -> AScript (DMap m) (ok (BeginMap h) :: body).

(* ---- typed roots *)

(* calls the builder of prototype p answers with wrong-kind (nothing assigned yet) *)
Definition root_wrong (p : proto) (o : aop) : bool :=
  match o with
  | AssembleKey | AssembleValue | AssembleEntry _ | Finish => false
  | _ =>
    match p with
    | PAny => false
    | PMap => match o with BeginMap _ => false | AssignNode n => negb (kind_eqb (kind_of n) KMap) | _ => true end
    | PList => match o with BeginList _ => false | AssignNode n => negb (kind_eqb (kind_of n) KList) | _ => true end
    | PBool => match o with AssignBool _ => false | AssignNode n => negb (kind_eqb (kind_of n) KBool) | _ => true end
    | PInt => match o with AssignInt _ => false | AssignNode n => negb (kind_eqb (kind_of n) KInt) | _ => true end
    | PFloat => match o with AssignFloat _ => false | AssignNode n => negb (kind_eqb (kind_of n) KFloat) | _ => true end
    | PString => match o with AssignString _ => false | AssignNode n => negb (kind_eqb (kind_of n) KString) | _ => true end
    | PBytes => match o with AssignBytes _ => false | AssignNode n => negb (kind_eqb (kind_of n) KBytes) | _ => true end
    | PLink => match o with AssignLink _ => false | AssignNode n => negb (kind_eqb (kind_of n) KLink) | _ => true end
    end
  end.

Inductive RootTry (p : proto) : ann -> Prop :=
| RT_wrong o : root_wrong p o = true -> RootTry p (o, SErr EWrongKind).

(* the direct assignment a scalar builder takes for a value *)
Definition scalar_assign (p : proto) (v : dm) : option aop :=
  match p, v with
  | PBool, DBool b => Some (AssignBool b)
  | PInt, DInt z => Some (AssignInt z)
  | PFloat, DFloat f => Some (AssignFloat f)
  | PString, DString s => Some (AssignString s)
  | PBytes, DBytes s => Some (AssignBytes s)
  | PLink, DLink c => Some (AssignLink c)
  | _, _ => None
  end.

(* the node reads as v through the accessor the scalar builder uses *)
Definition scalar_reads (p : proto) (n : node) (v : dm) : Prop :=
  match p, v with
  | PBool, DBool b => as_bool n = Ok b
  | PInt, DInt z => as_int n = Ok z
  | PFloat, DFloat f => as_float n = Ok f
  | PString, DString s => as_string n = Ok s
  | PBytes, DBytes s => as_bytes n = Ok s
  | PLink, DLink c => as_link n = Ok c
  | _, _ => False
  end.

(* on the pinned tree Prototype.Map cannot take a non-empty map of another implementation *)
Definition pmap_takes (q : quirks) (n : node) : Prop :=
  match n with
  | NMap _ _ => True
  | NFMap t => q_pmap_nilmap q = false \/ t = []
  | _ => False
  end.
Definition plist_takes (n : node) : Prop :=
  match n with NList _ | NFList _ => True | _ => False end.

Inductive AScriptP (q : quirks) : proto -> dm -> list ann -> Prop :=
| AP_any v s : AScript v s -> AScriptP q PAny v s
| AP_map_begin tries h m body :
    Forall (RootTry PMap) tries -> MapBody AScript [] m body ->
    AScriptP q PMap (DMap m) (tries ++ ok (BeginMap h) :: body)
| AP_map_node tries n :
    Forall (RootTry PMap) tries -> wf n -> pmap_takes q n ->
    AScriptP q PMap (abs n) (tries ++ [ok (AssignNode n)])
| AP_list_begin tries h l body :
    Forall (RootTry PList) tries -> ListBody AScript l body ->
    AScriptP q PList (DList l) (tries ++ ok (BeginList h) :: body)
| AP_list_node tries n :
    Forall (RootTry PList) tries -> wf n -> plist_takes n ->
    AScriptP q PList (abs n) (tries ++ [ok (AssignNode n)])
| AP_scalar p v tries o :
    Forall (RootTry p) tries -> scalar_assign p v = Some o ->
    AScriptP q p v (tries ++ [ok o])
| AP_scalar_node p v tries n :
    is_scalar_proto p = true -> Forall (RootTry p) tries -> scalar_reads p n v ->
    AScriptP q p v (tries ++ [ok (AssignNode n)]).

(* C01's relation: the legal scripts without injections *)
Definition Scripts (q : quirks) (p : proto) (v : dm) (ops : list aop) : Prop :=
  AScriptP q p v (map ok ops).

(* "no int above MaxInt64": where the pinned DeepEqual / Copy are total *)
Fixpoint nobig (n : node) : bool :=
  match n with
  | NUint z => (z <? two63z)%Z
  | NList x | NFList x => forallb nobig x
  | NMap t _ | NFMap t => forallb (fun kv => nobig (snd kv)) t
  | _ => true
  end.

(* C12: the calls by which a repeated key k reaches a map assembler (and is refused) *)
Inductive DupCall (k : bytes) : list ann -> Prop :=
| DC_entry : DupCall k [(AssembleEntry k, SErr ERepeatedKey)]
| DC_key tries g :
    Forall KeyTry tries -> KeyGive k g ->
    DupCall k (ok AssembleKey :: tries ++ [(g, SErr ERepeatedKey)]).
