(* Extraction of the bind cluster (C19).  ExtrOcamlBasic only. *)
Require Import IP.Base.Bytes IP.DM.Value IP.Bind.GoVal IP.Bind.Bind IP.Bind.Spec.
Require Extraction.
Require Import ExtrOcamlBasic.
Extraction Language OCaml.
Extraction "model.ml" step run verify_compat infer_gotype infer_schema view asm registry0 pinned repaired
  denote bindable gv_ok fits gv_eqb dm_eqb sort_maps rfc_ltb bytes_ltb f64_is_nan zero_of.
