(* Extraction of the schema cluster (C08, C09, C13).  ExtrOcamlBasic only. *)
Require Import IP.Base.Bytes IP.DM.Value IP.Codec.Cid IP.Codec.Cbor
  IP.Schema.Types IP.Schema.View IP.Schema.Conform IP.Schema.Sem.
Require Extraction.
Require Import ExtrOcamlBasic.
Extraction Language OCaml.
Extraction "model.ml" tbuild rbuild build type_view repr_view repr observe
  conforms_t conforms_r repr_spec tview_spec tdm_spec has_type wf gen_supported
  ov_of_dm ov_to_dm ov_enc_dm dm_wf pinned qoff
  enc decode dagcbor_eopts dagcbor_dopts f64_is_nan bytes_ltb bytes_eqb.
