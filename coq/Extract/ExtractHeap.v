(* Extraction of the heap cluster (C11, C20).  ExtrOcamlBasic only. *)
Require Import IP.Base.Bytes IP.DM.Value IP.Heap.GoMem IP.Heap.BasicHeap IP.Heap.Script IP.Heap.Footprint IP.Heap.Conc.
Require Extraction.
Require Import ExtrOcamlBasic.
Extraction Language OCaml.
Extraction "model.ml" sstep_full sinit slegal has_stream cfg_pinned cfg_repaired cfg_of f64_is_nan dm_eqb
  pstep legal runh legalh read_obs sstep dump basic_check scen_check.
