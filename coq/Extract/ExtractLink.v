(* Extraction of the link cluster (C05, C06).  ExtrOcamlBasic only.  The LinkSystem functions are
   extracted with their Section parameters (hasher_ok, hash, codecs) as ordinary arguments: the
   OCaml drivers pass the real digests / JSON codec behaviour, printed by the Go harness, as
   finite tables, and the concrete dag-cbor / cbor / raw codecs from this model. *)
Require Import IP.Base.Bytes IP.DM.Value IP.Codec.Cid IP.Codec.Cbor IP.Link.LinkSys.
Require Extraction.
Require Import ExtrOcamlBasic.
Extraction Language OCaml.
Extraction "model.ml" run step store compute load_any load_h reifier_handle must_s must_l wfail_class load_raw fill load_plus_raw verify
  build_link link_binary link_proto multihash_bytes link_eqb skey lookup put
  default_registry raw_codec dagcbor_codec plaincbor_codec memstore_kind cidmem_kind honest_w
  sort_maps rfc_ltb bytes_ltb bytes_eqb f64_is_nan dm_eqb lenN.
