(* Extraction of the CBOR cluster (C02, C03, C10-decode).  ExtrOcamlBasic only:
   bool/option/unit/prod/list/sumbool map to OCaml's; N/Z/positive stay Coq datatypes. *)
Require Import IP.Base.Bytes IP.DM.Value IP.Codec.Cid IP.Codec.Cbor IP.Codec.CborSpec.
Require Extraction.
Require Import ExtrOcamlBasic.
Extraction Language OCaml.
Extraction "model.ml" enc enc_len decode sort_maps dm_eqb rfc_ltb bytes_ltb cid_valid
  dagcbor_eopts dagcbor_dopts dec_fuel f64_is_nan dm_depth chk denotes_b.
