(* Extraction of the node cluster (C01, C12).  ExtrOcamlBasic only. *)
Require Import IP.Base.Bytes IP.DM.Value IP.Node.Basic IP.Node.Typed.
Require Extraction.
Require Import ExtrOcamlBasic.
Extraction Language OCaml.
Extraction "model.ml" abs kind_of length_of as_bool as_int as_uint as_float as_string as_bytes
  as_bytes_again as_link map_entries list_entries iterate lookup_by_string lookup_by_index
  lookup_by_node lookup_by_segment seg_of_string seg_of_int format_int parse_int
  deep_equal dm_goeq init step steps run_tol build run copy copy_script plain_of
  pinned repaired f64_is_nan dm_eqb
  tinit tstep trun_tol tbuild treset_ok tpinned trepaired.
