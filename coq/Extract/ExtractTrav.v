(* Extraction of the traversal cluster (C15, C14, C07).  ExtrOcamlBasic only. *)
Require Import IP.Base.Bytes IP.Base.GoSem IP.DM.Value IP.Gen.FromGo
  IP.Trav.Selector IP.Trav.Walk IP.Trav.Controls IP.Trav.Path IP.Trav.SelectorSpec IP.Trav.QuirkFree IP.Trav.Total.
Require Extraction.
Require Import ExtrOcamlBasic.
Extraction Language OCaml.
Extraction "model.ml" compile walk_adv walk_matching cwalk_adv no_ctl pinned repaired
  get step_deref step deref parse_path format_path seg_string seg_index seg_equals lookup_seg
  f64_is_nan dm_eqb interests explore match_sel denote_sel enter walk_quirk_free compile_alloc chain_ok walk_fuel no_shared_depth current nsd_rec noempty focus_from walk get_ctx walk_local_all get_local path_append_string path_append_int path_join path_truncate path_pop path_shift path_last.
