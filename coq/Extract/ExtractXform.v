(* Extraction of the transform cluster (C16).  ExtrOcamlBasic only. *)
Require Import IP.Base.Bytes IP.DM.Value IP.Xform.Transform IP.Xform.WalkT.
Require Extraction.
Require Import ExtrOcamlBasic.
Extraction Language OCaml.
Extraction "model.ml" focused_transform focused_transform_segs render_path xupdate xexpand raw erase inject root_accepts canon
  q_pinned q_fixed sq_old sq_new wt inline link_free sort_maps rfc_ltb dm_eqb f64_is_nan has_nil has_refused.
