(* Extraction of the storage cluster (C17, C18).  ExtrOcamlBasic only. *)
Require Import IP.Base.Bytes IP.DM.Value IP.Codec.Cid IP.Store.Storage IP.Store.FsStore IP.Store.FsCrash.
Require Extraction.
Require Import ExtrOcamlBasic.
Extraction Language OCaml.
Extraction "model.ml" mem_step mem_run mem_empty memstore_cfg memory_cfg cid_hash
  spec_step spec_run spec_empty op_ok ok_prefix hist_ok lookup
  fs_step fs_run fstate0 fs_fresh fs_init pinned_cfg repaired_cfg path_for_key b32enc
  stage_path stage_name temp_name fs_lookup sys_exec w_run w_next w_step
  mk_writer mk_aborter exec run_fault w_fuel bytes_eqb path_eqb
  f64_is_nan dm_depth.  (* ocaml/dmio.ml (shared) refers to the data-model type *)
