(* Extraction of the JSON cluster (C04).  ExtrOcamlBasic only.  The Section variables of
   Codec/DagJson.v (fmt_float, parse_float, cid_str, cid_parse) become leading function arguments;
   the driver supplies them per record (tables from the harness, OCaml's float_of_string). *)
Require Import IP.Base.Bytes IP.DM.Value IP.Codec.Utf8 IP.Codec.Base64 IP.Codec.DagJson.
Require Extraction.
Require Import ExtrOcamlBasic.
Extraction Language OCaml.
Extraction "model.ml" jenc jenc_pretty jdecode dagjson_eopts json_eopts dagjson_dopts json_dopts
  sort_maps dm_eqb bytes_ltb rfc_ltb bytes_eqb f64_is_nan f64_finite f64_integral_small
  json_number has_dot_or_e int_prefix_len utf8_valid b64_encode b64_decode_go in_int64 f64_exp f64_man json_safe jdepth float_text_ok float_text_frac dm_depth.
