(* Base/Bytes.v — byte strings as [list N], big-endian helpers, [take].
   MODEL file: definitions only (plus tiny structural lemmas used everywhere). *)
From Coq Require Export List ZArith NArith Lia Bool.
From Coq Require Import ZifyN ZifyNat ZifyBool.
Export ListNotations.
Open Scope N_scope.

(* notations rather than definitions: [bytes] and [list N] are then syntactically the same term,
   which keeps lia/rewrite from seeing two different atoms *)
Notation byte := N (only parsing).
Notation bytes := (list N) (only parsing).

Definition byte_ok (b : N) : bool := b <? 256.
Definition bytes_ok (bs : bytes) : bool := forallb byte_ok bs.

Definition lenN {A} (l : list A) : N := N.of_nat (length l).

(* big-endian: k bytes of v *)
Fixpoint be (k : nat) (v : N) : bytes :=
  match k with O => [] | S k' => be k' (v / 256) ++ [v mod 256] end.
Fixpoint unbe (bs : bytes) (acc : N) : N :=
  match bs with [] => acc | b :: r => unbe r (acc * 256 + b) end.

(* [take n l]: split off the first n elements, or None if too short.
   One pass over at most n elements; n stays in N (an attacker-chosen length of 2^60 is never
   converted to nat).  [take_spec] (Base/BytesFacts.v) relates it to firstn/skipn. *)
Fixpoint take {A} (n : N) (l : list A) {struct l} : option (list A * list A) :=
  if n =? 0 then Some ([], l) else
  match l with
  | [] => None
  | x :: r => match take (N.pred n) r with
              | Some (p, s) => Some (x :: p, s)
              | None => None
              end
  end.

(* bytewise (lexicographic) order on byte strings, as Go's string < *)
Fixpoint bytes_ltb (a b : bytes) : bool :=
  match a, b with
  | [], [] => false
  | [], _ :: _ => true
  | _ :: _, [] => false
  | x :: a', y :: b' => if x <? y then true else if y <? x then false else bytes_ltb a' b'
  end.

Fixpoint bytes_eqb (a b : bytes) : bool :=
  match a, b with
  | [], [] => true
  | x :: a', y :: b' => (x =? y) && bytes_eqb a' b'
  | _, _ => false
  end.

(* length-first then bytewise: the RFC7049 / DAG-CBOR map key order.
   Lengths are compared structurally (no arithmetic on the length). *)
Fixpoint len_cmp (a b : bytes) : comparison :=
  match a, b with
  | [], [] => Eq
  | [], _ :: _ => Lt
  | _ :: _, [] => Gt
  | _ :: a', _ :: b' => len_cmp a' b'
  end.
Definition rfc_ltb (a b : bytes) : bool :=
  match len_cmp a b with Lt => true | Gt => false | Eq => bytes_ltb a b end.

Definition two64 : N := 18446744073709551616.
Definition two63 : N := 9223372036854775808.
Definition two63z : Z := 9223372036854775808.
Definition two64z : Z := 18446744073709551616.

(* generic result type with an error class *)
Inductive res (E A : Type) := Ok (a : A) | Err (e : E).
Arguments Ok {E A} a.
Arguments Err {E A} e.

Definition bind {E A B} (r : res E A) (f : A -> res E B) : res E B :=
  match r with Ok a => f a | Err e => Err e end.
Notation "'do' x <- r ; k" := (bind r (fun x => k)) (at level 200, x pattern, r at level 100, k at level 200).

(* insertion sort parameterised by a strict order on keys *)
Section Sort.
  Context {V : Type}.
  Variable ltb : bytes -> bytes -> bool.
  Fixpoint insert_kv (kv : bytes * V) (l : list (bytes * V)) : list (bytes * V) :=
    match l with
    | [] => [kv]
    | x :: r => if ltb (fst x) (fst kv) then x :: insert_kv kv r else kv :: x :: r
    end.
  Fixpoint sort_kv (l : list (bytes * V)) : list (bytes * V) :=
    match l with [] => [] | kv :: r => insert_kv kv (sort_kv r) end.
End Sort.

Fixpoint mem_key {V} (k : bytes) (l : list (bytes * V)) : bool :=
  match l with [] => false | (k', _) :: r => bytes_eqb k k' || mem_key k r end.
