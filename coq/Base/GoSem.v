(* Base/GoSem.v — the small Go semantics prelude that gotrans output (Gen/FromGo.v) refers to:
   wrapping 64-bit arithmetic, string length and slicing with Go's bounds panic as None. *)
From Coq Require Export ZArith NArith List Bool.
Export ListNotations.
Open Scope Z_scope.

Definition two63 : Z := 9223372036854775808.
Definition wrap64 (z : Z) : Z := (z + two63) mod (2 * two63) - two63.
Definition wrapu64 (z : Z) : Z := z mod (2 * two63).
Definition in64 (z : Z) : Prop := - two63 <= z < two63.

Definition add64 a b := wrap64 (a + b).
Definition sub64 a b := wrap64 (a - b).
Definition mul64 a b := wrap64 (a * b).
Definition neg64 a := wrap64 (- a).
Definition div64 a b := wrap64 (Z.quot a b).
Definition rem64 a b := Z.rem a b.
Definition conv_int64 (a : Z) := wrap64 a.
Definition conv_uint64 (a : Z) := wrapu64 a.

(* Go's comparison of strings: "lexically byte-wise" (language spec, Comparison operators) *)
Fixpoint str_ltb (a b : list N) : bool :=
  match a, b with
  | _, [] => false
  | [], _ :: _ => true
  | x :: a', y :: b' => if N.ltb x y then true else if N.ltb y x then false else str_ltb a' b'
  end.
Fixpoint str_eqb (a b : list N) : bool :=
  match a, b with
  | [], [] => true
  | x :: a', y :: b' => N.eqb x y && str_eqb a' b'
  | _, _ => false
  end.

Definition len64 {A} (s : list A) : Z := Z.of_nat (length s).

(* s[lo:hi]; None when Go would panic (bounds out of range) *)
Definition substr {A} (s : list A) (lo hi : Z) : option (list A) :=
  if (0 <=? lo) && (lo <=? hi) && (hi <=? len64 s)
  then Some (firstn (Z.to_nat (hi - lo)) (skipn (Z.to_nat lo) s))
  else None.

(* the out-parameter append: each appended expression may panic (None) *)
Fixpoint opt_all {A} (l : list (option A)) : option (list A) :=
  match l with
  | [] => Some []
  | None :: _ => None
  | Some x :: r => match opt_all r with Some xs => Some (x :: xs) | None => None end
  end.
Definition append_strs {A} (acc : option (list A)) (es : list (option A)) : option (list A) :=
  match acc, opt_all es with
  | Some a, Some b => Some (a ++ b)
  | _, _ => None
  end.
