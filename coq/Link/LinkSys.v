(* Link/LinkSys.v — executable model of linking.LinkSystem (linking/functions.go), the CID link
   prototype (linking/cid/cidLink.go BuildLink, go-cid Prefix/NewCidV0/NewCidV1, go-multihash
   Encode), the registry-driven choosers (linking/cid/linksystem.go, multicodec/registry.go) and
   the two in-memory stores (storage/memstore keyed by Link.Binary(), first writer wins;
   cidlink.Memory keyed by the multihash, last writer wins).  MODEL file: no proofs here.

   The hash functions and the codecs are PARAMETERS ([Section] variables):
     hasher_ok mht   multihash.GetHasher(mht) succeeds
     hash mht bs     what that hasher's Sum returns after being fed bs (no law assumed — not even
                     for the identity "hash")
     encoders code   the multicodec registry's encoder table: code -> codec (its c_enc is used)
     decoders code   the registry's decoder table (its c_dec is used); the two tables are separate
                     maps in multicodec.Registry: a code may be bound for one direction only
   A codec is
     c_enc v         None = the encoder refuses the value; Some chunks = the sequence of Write calls
     c_dec bs        behaviour of the decoder on a stream delivering bs and then EOF:
                     None = error; Some (v, pulled, saw_end) = success after pulling [pulled] bytes
                     through the reader, [saw_end] = it went on to observe the end of the stream
     c_werr_ignored  the encoder drops the error of a failing Write and reports success
                     (refmt's JSON encoder does: dag-json and json; the CBOR encoder and raw do not)
   Concrete instances for dag-cbor, cbor (from Codec/Cbor.v) and raw are at the end of the file.

   Storage is adversarial where the property needs it: what StorageReadOpener hands back is a
   [ropen] (an open error, or a reader = list of chunks then EOF or a sticky read error); what
   StorageWriteOpener hands back is a [wbeh] (open error; a writer that fails once its capacity
   would be exceeded and keeps failing, and/or follows a per-Write schedule of transient failures
   and short writes; a committer that fails).

   [store] takes the flag [latch]: Store wraps the tee in a writer that remembers the first write
   error and refuses all further writes (the repaired tree, fix 4c486a6); without it (pinned tree)
   an encoder that ignores write errors makes Store commit a damaged block. *)
Require Import IP.Base.Bytes IP.DM.Value IP.Codec.Cbor.
Open Scope N_scope.

(* ------------------------------------------------------------------ results *)

Inductive eclass := ESetup | EOpen | EIo | EShortWrite | EHashMismatch | EDecode | EEncode | ECommit | EReify.
Inductive status := SOk | SErr (e : eclass) | SPanic.

(* ------------------------------------------------------------------ CID links *)

(* go-varint PutUvarint (uint64: at most 10 bytes) *)
Fixpoint varint_go (fuel : nat) (n : N) : bytes :=
  match fuel with
  | O => [n]
  | S f => if n <? 128 then [n] else (128 + n mod 128) :: varint_go f (n / 128)
  end.
Definition varint (n : N) : bytes := varint_go 9 n.

(* cid.Prefix *)
Record lproto := { lp_version : N; lp_codec : N; lp_mhtype : N; lp_mhlen : Z }.

(* a CID: v0 (bare sha2-256 multihash) or v1 *)
Record link := { l_v0 : bool; l_codec : N; l_mhtype : N; l_digest : bytes }.

Definition mh_sha2_256 : N := 18.
Definition mh_identity : N := 0.
Definition mc_dagpb : N := 112.

(* multihash.Encode *)
Definition multihash_bytes (l : link) : bytes :=
  varint (l_mhtype l) ++ varint (lenN (l_digest l)) ++ l_digest l.

(* Link.Binary() = Cid.KeyString() *)
Definition link_binary (l : link) : bytes :=
  if l_v0 l then multihash_bytes l else 1 :: varint (l_codec l) ++ multihash_bytes l.

(* Link.Prototype() = Cid.Prefix() *)
Definition link_proto (l : link) : lproto :=
  if l_v0 l then {| lp_version := 0; lp_codec := mc_dagpb; lp_mhtype := mh_sha2_256; lp_mhlen := 32 |}
  else {| lp_version := 1; lp_codec := l_codec l; lp_mhtype := l_mhtype l;
          lp_mhlen := Z.of_N (lenN (l_digest l)) |}.

(* the comparison LoadRaw and Fill make: lnk2.Binary() != lnk.Binary() *)
Definition link_eqb (a b : link) : bool := bytes_eqb (link_binary a) (link_binary b).

(* LinkPrototype.BuildLink; None = panic (invalid v0 prefix, slice bounds on the digest,
   NewCidV0 on a multihash that is not sha2-256/32, unknown CID version) *)
Definition build_link (lp : lproto) (sum : bytes) : option link :=
  let length := if lp_mhtype lp =? mh_identity then (-1)%Z else lp_mhlen lp in
  if (lp_version lp =? 0) &&
     (negb (lp_mhtype lp =? mh_sha2_256) ||
      (negb (lp_mhlen lp =? 32)%Z && negb (lp_mhlen lp =? -1)%Z))
  then None else
  let dig : option bytes :=
    if (length =? -1)%Z then Some sum
    else if (lp_mhlen lp <? 0)%Z then None
    else match take (Z.to_N (lp_mhlen lp)) sum with Some (p, _) => Some p | None => None end in
  match dig with
  | None => None
  | Some d =>
    if lp_version lp =? 0 then
      (if lenN d =? 32 then
         Some {| l_v0 := true; l_codec := mc_dagpb; l_mhtype := mh_sha2_256; l_digest := d |}
       else None)
    else if lp_version lp =? 1 then
      Some {| l_v0 := false; l_codec := lp_codec lp; l_mhtype := lp_mhtype lp; l_digest := d |}
    else None
  end.

(* ------------------------------------------------------------------ codecs *)

Record codec := {
  c_enc : dm -> option (list bytes);
  c_dec : bytes -> option (dm * N * bool);
  c_werr_ignored : bool
}.

(* ------------------------------------------------------------------ storage *)

Definition storage := list (bytes * bytes).

Fixpoint lookup (st : storage) (k : bytes) : option bytes :=
  match st with
  | [] => None
  | (k', b) :: r => if bytes_eqb k k' then Some b else lookup r k
  end.

Fixpoint remove_key (st : storage) (k : bytes) : storage :=
  match st with
  | [] => []
  | (k', b) :: r => if bytes_eqb k k' then remove_key r k else (k', b) :: remove_key r k
  end.

(* sk_mh_key: keyed by the multihash (cidlink.Memory) rather than the whole CID (memstore);
   sk_overwrite: a second commit under a key replaces the block (cidlink.Memory) or is ignored
   (memstore.Put) *)
Record skind := { sk_mh_key : bool; sk_overwrite : bool }.
Definition memstore_kind := {| sk_mh_key := false; sk_overwrite := false |}.
Definition cidmem_kind := {| sk_mh_key := true; sk_overwrite := true |}.

Definition skey (sk : skind) (l : link) : bytes :=
  if sk_mh_key sk then multihash_bytes l else link_binary l.

Definition put (sk : skind) (st : storage) (k b : bytes) : storage :=
  match lookup st k with
  | Some _ => if sk_overwrite sk then (k, b) :: remove_key st k else st
  | None => (k, b) :: st
  end.

(* what the read opener returns *)
Inductive rtail := TEof | TErr.
Inductive ropen := ROpenErr | RStream (chunks : list bytes) (t : rtail).

Definition honest_read (sk : skind) (st : storage) (l : link) : ropen :=
  match lookup st (skey sk l) with
  | Some b => RStream [b] TEof
  | None => ROpenErr
  end.

(* what the write opener returns.  [w_sched]: what the storage writer does on its 1st, 2nd, ...
   Write call (beyond the list: accept everything); [w_cap]: it fails once more than that many
   bytes would have been accepted, and keeps failing *)
Inductive wact := WOk | WFail | WShort (n : N).   (* WShort n: accept n bytes, return (n, nil) *)
Record wbeh := { w_open_err : bool; w_cap : option N; w_sched : list wact; w_commit_err : bool }.
Definition honest_w := {| w_open_err := false; w_cap := None; w_sched := []; w_commit_err := false |}.

(* Which error a failed write phase reports: the storage writer's own error (EIo), or
   io.ErrShortWrite when the FIRST failing Write was a short count with a nil error (io.MultiWriter
   turns that into ErrShortWrite).  Up to the first failure every Write of the encoder reaches the
   writer, so this is a function of the writer's behaviour and the chunks alone. *)
Fixpoint first_short (cap : option N) (sched : list wact) (used : N) (chunks : list bytes) : bool :=
  match chunks with
  | [] => false
  | c :: r =>
    let fits := match cap with None => true | Some k => used + lenN c <=? k end in
    if negb fits then false else
    match sched with
    | WFail :: _ => false
    | WShort n :: s' => if lenN c <=? n then first_short cap s' (used + lenN c) r else true
    | WOk :: s' => first_short cap s' (used + lenN c) r
    | [] => first_short cap [] (used + lenN c) r
    end
  end.

Definition wfail_class (w : wbeh) (chunks : list bytes) : eclass :=
  if first_short (w_cap w) (w_sched w) 0 chunks then EShortWrite else EIo.

Definition prefixN (n : N) (l : bytes) : bytes :=
  match take n l with Some (p, _) => p | None => l end.

(* The encoder's Write calls going through [latch?]( io.MultiWriter(storage writer, hasher) ).
   Result: bytes the storage writer accepted, bytes the hasher saw (a chunk reaches the hasher only
   when the writer took all of it), whether the encoder stopped on a write error, whether the latch
   holds an error at the end.
     latch    Store's sticky write-error latch is present
     ignored  the encoder carries on after a failed Write (c_werr_ignored)
     stuck    the capacity-limited writer has failed (it keeps failing)
     latched  the latch holds an error: further writes are refused without reaching the writer *)
Fixpoint write_all (latch ignored : bool) (cap : option N) (sched : list wact)
  (used : N) (stuck latched : bool) (chunks : list bytes) : bytes * bytes * bool * bool :=
  match chunks with
  | [] => ([], [], false, latched)
  | c :: r =>
    if latch && latched then
      (if ignored then write_all latch ignored cap sched used stuck latched r
       else ([], [], true, latched))
    else
      let fits := match cap with None => true | Some k => used + lenN c <=? k end in
      let stuck' := stuck || negb fits in
      let act := if stuck' then WFail else match sched with a :: _ => a | [] => WOk end in
      let sched' := tl sched in
      let ok :=
        let '(w, h, e, l) := write_all latch ignored cap sched' (used + lenN c) stuck' latched r in
        (c ++ w, c ++ h, e, l) in
      match act with
      | WOk => ok
      | WFail =>
        if ignored then write_all latch ignored cap sched' used stuck' true r
        else ([], [], true, true)
      | WShort n =>
        if lenN c <=? n then ok
        else
          let p := prefixN n c in
          if ignored then
            let '(w, h, e, l) := write_all latch ignored cap sched' (used + n) stuck' true r in
            (p ++ w, h, e, l)
          else (p, [], true, true)
      end
  end.

(* outputs *)
Record lout := { lo_status : status; lo_node : option dm; lo_raw : option bytes }.
Record sout := { so_status : status; so_link : option link }.

Definition lfail (e : eclass) : lout := {| lo_status := SErr e; lo_node := None; lo_raw := None |}.
Definition lpanic : lout := {| lo_status := SPanic; lo_node := None; lo_raw := None |}.
Definition sfail (e : eclass) : sout := {| so_status := SErr e; so_link := None |}.

Inductive lform := FLoad | FLoadRaw | FLoadPlusRaw | FFill.

Inductive vcheck := VOk | VMismatch | VPanic.

Section LinkSystem.
  Variable hasher_ok : N -> bool.
  Variable hash : N -> bytes -> bytes.
  Variable encoders : N -> option codec.
  Variable decoders : N -> option codec.

  (* hasher.Sum, BuildLink from the link's own prototype, compare binaries *)
  Definition verify (l : link) (seen : bytes) : vcheck :=
    match build_link (link_proto l) (hash (lp_mhtype (link_proto l)) seen) with
    | None => VPanic
    | Some l2 => if link_eqb l2 l then VOk else VMismatch
    end.

  (* LinkSystem.LoadRaw (TrustedStorage is not consulted there) *)
  Definition load_raw (ro : ropen) (l : link) : lout :=
    if negb (hasher_ok (lp_mhtype (link_proto l))) then lfail ESetup else
    match ro with
    | ROpenErr => lfail EOpen
    | RStream chunks TErr => lfail EIo
    | RStream chunks TEof =>
      let data := concat chunks in
      match verify l data with
      | VPanic => lpanic
      | VMismatch => lfail EHashMismatch
      | VOk => {| lo_status := SOk; lo_node := None; lo_raw := Some data |}
      end
    end.

  (* the decoder run against a stream: the data, then EOF or a sticky read error.  A decoder that
     goes on to look at the end of the stream meets the read error there and reports it. *)
  Definition stream_dec (c : codec) (data : bytes) (t : rtail) : option (dm * N) :=
    match c_dec c data with
    | None => None
    | Some (v, pulled, saw_end) =>
      match t with
      | TEof => Some (v, pulled)
      | TErr => if saw_end then None else Some (v, pulled)
      end
    end.

  (* LinkSystem.Fill *)
  Definition fill (trusted : bool) (ro : ropen) (l : link) : lout :=
    match decoders (lp_codec (link_proto l)) with
    | None => lfail ESetup
    | Some c =>
      if negb (hasher_ok (lp_mhtype (link_proto l))) then lfail ESetup else
      match ro with
      | ROpenErr => lfail EOpen
      | RStream chunks t =>
        let data := concat chunks in
        let dr := stream_dec c data t in
        if trusted then
          match dr with
          | Some (v, _) => {| lo_status := SOk; lo_node := Some v; lo_raw := None |}
          | None => lfail EDecode
          end
        else
          match dr with
          | Some (v, pulled) =>
            (* the hasher has seen exactly what the decoder pulled through the tee *)
            match verify l (prefixN pulled data) with
            | VPanic => lpanic
            | VMismatch => lfail EHashMismatch
            | VOk => {| lo_status := SOk; lo_node := Some v; lo_raw := None |}
            end
          | None =>
            (* drain the rest into the hasher; an I/O error there wins; then the hash check;
               only then the decode error *)
            match t with
            | TErr => lfail EIo
            | TEof =>
              match verify l data with
              | VPanic => lpanic
              | VMismatch => lfail EHashMismatch
              | VOk => lfail EDecode
              end
            end
          end
      end
    end.

  (* LinkSystem.LoadPlusRaw: LoadRaw, then the decoder on the buffered block; on a decode error
     the (verified) block is still returned beside the error *)
  Definition load_plus_raw (ro : ropen) (l : link) : lout :=
    match decoders (lp_codec (link_proto l)) with
    | None => lfail ESetup
    | Some c =>
      let r := load_raw ro l in
      match lo_status r, lo_raw r with
      | SOk, Some block =>
        match c_dec c block with
        | Some (v, _, _) => {| lo_status := SOk; lo_node := Some v; lo_raw := Some block |}
        | None => {| lo_status := SErr EDecode; lo_node := None; lo_raw := Some block |}
        end
      | _, _ => r
      end
    end.

  (* Load = Fill into a fresh builder (no NodeReifier configured) *)
  Definition load_any (f : lform) (trusted : bool) (ro : ropen) (l : link) : lout :=
    match f with
    | FLoad | FFill => fill trusted ro l
    | FLoadRaw => load_raw ro l
    | FLoadPlusRaw => load_plus_raw ro l
    end.

  (* ---------------------------------------------------------------- NodeReifier

     A link system as a caller holds it: the TrustedStorage flag and the read opener.  Load and
     LoadPlusRaw (not Fill, not LoadRaw) pass the node they built, together with the *LinkSystem
     they were called on, to the configured NodeReifier; an ADL built there keeps that handle and
     loads further links through it, during the call and long after it returned. *)
  Record handle := { h_trusted : bool; h_open : link -> ropen }.

  (* no reifier configured / one that returns the node it was given / one that fails *)
  Inductive rmode := RNone | RId | RFail.

  Definition reifies (f : lform) : bool :=
    match f with FLoad | FLoadPlusRaw => true | _ => false end.

  Definition status_ok (o : lout) : bool := match lo_status o with SOk => true | _ => false end.

  (* the load functions on a handle, with a reifier *)
  Definition load_h (rm : rmode) (f : lform) (h : handle) (l : link) : lout :=
    let o := load_any f (h_trusted h) (h_open h l) l in
    match rm with
    | RFail =>
      if reifies f && status_ok o then
        {| lo_status := SErr EReify; lo_node := None;
           lo_raw := match f with FLoadPlusRaw => lo_raw o | _ => None end |}
      else o
    | _ => o
    end.

  (* the link system handed to the reifier, when it is invoked: the one the call was made on *)
  Definition reifier_handle (rm : rmode) (f : lform) (h : handle) (l : link) : option handle :=
    match rm with
    | RNone => None
    | _ => if reifies f && status_ok (load_any f (h_trusted h) (h_open h l) l) then Some h else None
    end.

  (* LinkSystem.ComputeLink *)
  Definition compute (lp : lproto) (v : dm) : sout :=
    match encoders (lp_codec lp) with
    | None => sfail ESetup
    | Some c =>
      if negb (hasher_ok (lp_mhtype lp)) then sfail ESetup else
      match c_enc c v with
      | None => sfail EEncode
      | Some chunks =>
        match build_link lp (hash (lp_mhtype lp) (concat chunks)) with
        | None => {| so_status := SPanic; so_link := None |}
        | Some l => {| so_status := SOk; so_link := Some l |}
        end
      end
    end.

  (* LinkSystem.MustComputeLink / MustStore / MustLoad / MustFill: the same call, panicking when it
     returns an error *)
  Definition must_s (s : sout) : sout :=
    match so_status s with SOk => s | _ => {| so_status := SPanic; so_link := None |} end.
  Definition must_l (o : lout) : lout :=
    match lo_status o with SOk => o | _ => lpanic end.

  (* LinkSystem.Store: the encoder writes into [latch](io.MultiWriter(writer, hasher)); when the
     encoder returned nil the latch's error (if the tree has the latch) is returned instead of
     committing; then BuildLink over what the hasher saw, then the committer *)
  Definition store (latch : bool) (sk : skind) (w : wbeh) (st : storage) (lp : lproto) (v : dm)
    : sout * storage :=
    match encoders (lp_codec lp) with
    | None => (sfail ESetup, st)
    | Some c =>
      if negb (hasher_ok (lp_mhtype lp)) then (sfail ESetup, st) else
      if w_open_err w then (sfail EOpen, st) else
      match c_enc c v with
      | None => (sfail EEncode, st)
      | Some chunks =>
        let '(written, hashed, enc_err, latched) :=
          write_all latch (c_werr_ignored c) (w_cap w) (w_sched w) 0 false false chunks in
        if enc_err || (latch && latched) then (sfail (wfail_class w chunks), st) else
        match build_link lp (hash (lp_mhtype lp) hashed) with
        | None => ({| so_status := SPanic; so_link := None |}, st)
        | Some l =>
          if w_commit_err w then ({| so_status := SErr ECommit; so_link := Some l |}, st)
          else ({| so_status := SOk; so_link := Some l |}, put sk st (skey sk l) written)
        end
      end
    end.

  (* ---------------------------------------------------------------- histories (honest storage) *)

  (* OStoreW: a Store whose storage writer misbehaves (w_sched / w_cap of [w]); the storage itself
     stays honest *)
  Inductive lop :=
  | OStore (lp : lproto) (v : dm)
  | OStoreW (w : wbeh) (lp : lproto) (v : dm)
  | OCompute (lp : lproto) (v : dm)
  | OLoad (f : lform) (l : link).

  Inductive oout := OutS (s : sout) | OutL (o : lout).

  Definition step (latch : bool) (sk : skind) (trusted : bool) (st : storage) (op : lop) : oout * storage :=
    match op with
    | OStore lp v => let (s, st') := store latch sk honest_w st lp v in (OutS s, st')
    | OStoreW w lp v => let (s, st') := store latch sk w st lp v in (OutS s, st')
    | OCompute lp v => (OutS (compute lp v), st)
    | OLoad f l => (OutL (load_any f trusted (honest_read sk st l) l), st)
    end.

  Fixpoint run (latch : bool) (sk : skind) (trusted : bool) (st : storage) (ops : list lop)
    : list oout * storage :=
    match ops with
    | [] => ([], st)
    | op :: r =>
      let (o, st1) := step latch sk trusted st op in
      let (os, st2) := run latch sk trusted st1 r in (o :: os, st2)
    end.
End LinkSystem.

(* ------------------------------------------------------------------ concrete codecs *)

(* codec/raw: Encode = one Write of AsBytes; Decode = ReadAll + AssignBytes *)
Definition raw_codec : codec :=
  {| c_enc := fun v => match v with DBytes s => Some [s] | _ => None end;
     c_dec := fun bs => Some (DBytes bs, lenN bs, true);
     c_werr_ignored := false |}.

(* codec/dagcbor (links, RFC7049 order) and codec/cbor (no links, no sorting), default decode
   options.  The chunking of the encoder's writes is immaterial because the refmt CBOR encoder
   reports a failed write; the output is given as one chunk. *)
Definition cbor_dopts (links reject_tags : bool) : dopts :=
  {| d_allow_links := links; d_relaxed := false; d_dont_parse_beyond := false;
     d_budget := 0; d_max_depth := 0; d_reject_tags := reject_tags |}.

Definition cbor_family_codec (links : bool) (sm : sortmode) (reject_tags : bool) : codec :=
  {| c_enc := fun v => match enc {| e_allow_links := links; e_sort := sm |} v with
                       | Ok bs => Some [bs] | Err _ => None end;
     c_dec := fun bs => match decode (cbor_dopts links reject_tags) bs with
                        | Ok (v, rest) =>
                          Some (v, lenN bs - lenN rest, match rest with [] => true | _ => false end)
                        | Err _ => None
                        end;
     c_werr_ignored := false |}.

Definition dagcbor_codec (reject_tags : bool) : codec := cbor_family_codec true SortRFC7049 reject_tags.
Definition plaincbor_codec (reject_tags : bool) : codec := cbor_family_codec false SortNone reject_tags.

(* multicodec.DefaultRegistry once the five codec packages are linked in; the two JSON codecs are
   parameters *)
Definition default_registry (reject_tags : bool) (dagjson json : codec) (code : N) : option codec :=
  if code =? 113 then Some (dagcbor_codec reject_tags)       (* 0x71 *)
  else if code =? 81 then Some (plaincbor_codec reject_tags) (* 0x51 *)
  else if code =? 85 then Some raw_codec                     (* 0x55 *)
  else if code =? 297 then Some dagjson                      (* 0x0129 *)
  else if code =? 512 then Some json                         (* 0x0200 *)
  else None.
