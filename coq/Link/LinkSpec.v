(* Link/LinkSpec.v — specification vocabulary for C05/C06: the laws a codec may satisfy, equality
   of values up to map entry order, the storage invariant, collision-freedom of a history.
   Definitions only. *)
Require Import IP.Base.Bytes IP.DM.Value IP.Link.LinkSys.
Open Scope N_scope.

(* ---- codec laws *)

(* on success the decoder has pulled every byte through the reader and has seen the end of the
   stream (dag-cbor: trailing-byte probe; dag-json: whitespace slurp; raw: ReadAll) *)
Definition consumes_all (c : codec) : Prop :=
  forall bs v n e, c_dec c bs = Some (v, n, e) -> n = lenN bs /\ e = true.

Definition registry_consumes_all (codecs : N -> option codec) : Prop :=
  forall code c, codecs code = Some c -> consumes_all c.

(* decoding what the encoder wrote gives the canonicalised value *)
Definition roundtrips (c : codec) (dom : dm -> Prop) (canon : dm -> dm) : Prop :=
  forall v chunks, dom v -> c_enc c v = Some chunks ->
    c_dec c (concat chunks) = Some (canon v, lenN (concat chunks), true).

(* key-sorting encoders (dag-cbor, dag-json): values that are the [same] (in the instances: equal up
   to the entry order of maps, at any depth — [perm_eq] of Proofs/CborEnc.v) encode alike *)
Definition order_insensitive (same : dm -> dm -> Prop) (c : codec) (dom : dm -> Prop) : Prop :=
  forall v1 v2, dom v1 -> dom v2 -> same v1 v2 -> c_enc c v1 = c_enc c v2.

(* ---- expected results of the load forms *)

Definition loaded (f : lform) (v : dm) (raw : bytes) : lout :=
  match f with
  | FLoad | FFill => {| lo_status := SOk; lo_node := Some v; lo_raw := None |}
  | FLoadRaw => {| lo_status := SOk; lo_node := None; lo_raw := Some raw |}
  | FLoadPlusRaw => {| lo_status := SOk; lo_node := Some v; lo_raw := Some raw |}
  end.

Section Spec.
  Variable hasher_ok : N -> bool.
  Variable hash : N -> bytes -> bytes.
  Variable encoders : N -> option codec.

  (* what a store through an honest writer commits, when it succeeds *)
  Definition store_plan (lp : lproto) (v : dm) : option (link * bytes) :=
    match encoders (lp_codec lp) with
    | None => None
    | Some c =>
      if negb (hasher_ok (lp_mhtype lp)) then None else
      match c_enc c v with
      | None => None
      | Some chunks =>
        match build_link lp (hash (lp_mhtype lp) (concat chunks)) with
        | None => None
        | Some l => Some (l, concat chunks)
        end
      end
    end.

  (* every stored block sits under (the key of) a link its bytes hash to *)
  Definition blocks_ok (sk : skind) (st : storage) : Prop :=
    forall k b, lookup st k = Some b -> exists l, k = skey sk l /\ verify hash l b = VOk.

  (* no store of the history puts different bytes under key k: the only way a block written by
     a store can be shadowed or replaced is a collision of storage keys, i.e. of the (possibly
     truncated) digests — a property of the particular history, not an assumption on [hash] *)
  Definition no_collision (sk : skind) (k b : bytes) (h : list lop) : Prop :=
    Forall (fun op => match op with
                      | OStore lp v | OStoreW _ lp v =>
                        match store_plan lp v with
                        | Some (l', b') => skey sk l' = k -> b' = b
                        | None => True
                        end
                      | _ => True
                      end) h.
End Spec.
