(* Trav/Controls.v — the walk of Walk.v with the traversal controls of traversal/walk.go and fns.go:
     Budget            checkNodeBudget at every walkAdv entry, checkLinkBudget in loadLink
                       (test "<= 0" first, then decrement; both counters live in one shared Budget)
     StartAtPath       the recurse closure of walkAdv (reachedStartAtPath / PastStartAtPath) and the
                       visit suppression in Progress.visit
     LinkVisitOnlyOnce the SeenLinks set consulted (and extended) in explore before loading
     SkipMe            a StorageReadOpener that answers SkipMe for a given set of links
   MODEL file: definitions only.  All four controls can be combined, as in the Go code; the theorems of
   C15 are about each control on its own. *)
Require Import IP.Base.Bytes IP.DM.Value IP.Trav.Selector IP.Trav.Walk.
Open Scope Z_scope.

Record ctl := { c_start : list seg; c_once : bool; c_skip : list bytes }.
Definition no_ctl : ctl := {| c_start := []; c_once := false; c_skip := [] |}.

(* the mutable part: *Budget (None = nil) and the SeenLinks map *)
Record wst := { w_budget : option (Z * Z); w_seen : list bytes }.
Definition st0 : wst := {| w_budget := None; w_seen := [] |}.

Fixpoint mem_bytes (c : bytes) (l : list bytes) : bool :=
  match l with [] => false | x :: r => bytes_eqb c x || mem_bytes c r end.

Definition check_node (st : wst) : option wst :=
  match w_budget st with
  | None => Some st
  | Some (nb, lb) => if nb <=? 0 then None
                     else Some {| w_budget := Some (nb - 1, lb); w_seen := w_seen st |}
  end.
Definition check_link (st : wst) : option wst :=
  match w_budget st with
  | None => Some st
  | Some (nb, lb) => if lb <=? 0 then None
                     else Some {| w_budget := Some (nb, lb - 1); w_seen := w_seen st |}
  end.
Definition mark_seen (c : bytes) (st : wst) : wst :=
  {| w_budget := w_budget st; w_seen := c :: w_seen st |}.

Section CWalk.
  Variable q : quirks.
  Variable c : ctl.
  Variable g : list (bytes * dm).

  (* the start-at preamble of the recurse closure: new PastStartAtPath, new reachedStartAtPath,
     and whether the child is explored at all *)
  Definition start_decide (P : list seg) (ps : seg) (past reached : bool) : bool * bool * bool :=
    match c_start c with
    | [] => (past, reached, true)
    | _ =>
        if reached then (true, true, true)
        else if negb past && Nat.ltb (length P) (length (c_start c)) then
          match nth_error (c_start c) (length P) with
          | Some sp => if seg_equals ps sp then (past, true, true) else (past, false, false)
          | None => (past, false, false)
          end
        else (past, reached, true)
    end.

  (* the loop over the children inside one walkAdv call *)
  Fixpoint cloop (step : wst -> bool -> seg * dm -> list event * outcome * wst)
           (P : list seg) (ks : list (seg * dm)) (st : wst) (past reached : bool)
    : list event * outcome * wst :=
    match ks with
    | [] => ([], OOk, st)
    | k :: r =>
        match start_decide P (fst k) past reached with
        | (past1, reached1, false) => cloop step P r st past1 reached1
        | (past1, reached1, true) =>
            match step st past1 k with
            | (e, OOk, st') => let '(e', o, st'') := cloop step P r st' past1 reached1 in (e ++ e', o, st'')
            | (e, o, st') => (e, o, st')
            end
        end
    end.

  Definition cexplore_step
             (rec : wst -> bool -> list bytes -> list seg -> dm -> sel -> list event * outcome * wst)
             (ls : list bytes) (P : list seg) (n : dm) (s : sel)
             (st : wst) (past : bool) (k : seg * dm) : list event * outcome * wst :=
    match explore q s n (fst k) with
    | XPanic => ([], OPanic, st)
    | XErr => ([], OErr WExplore, st)
    | XOk None => ([], OOk, st)
    | XOk (Some s') =>
        let P' := P ++ [fst k] in
        match snd k with
        | DLink l =>
            if c_once c && mem_bytes l (w_seen st) then ([], OOk, st)
            else
              let st1 := if c_once c then mark_seen l st else st in
              match check_link st1 with
              | None => ([], OErr WLinkBudget, st1)
              | Some st2 =>
                  if mem_bytes l (c_skip c) then ([ELoad P' l ls], OOk, st2)
                  else match assoc l g with
                       | None => ([ELoad P' l ls], OErr WLoad, st2)
                       | Some b => let '(e, o, st3) := rec st2 past (l :: ls) P' b s' in
                                   (ELoad P' l ls :: e, o, st3)
                       end
              end
        | v => rec st past ls P' v s'
        end
    end.

  Fixpoint cwalk (f : nat) (st : wst) (past : bool) (ls : list bytes) (P : list seg) (n : dm) (s : sel)
           {struct f} : list event * outcome * wst :=
    match f with
    | O => ([], OFuel, st)
    | S f' =>
        match check_node st with
        | None => ([], OErr WNodeBudget, st)
        | Some st1 =>
            let vis := if negb past && Nat.ltb (length P) (length (c_start c)) then []
                       else [visit_event P n s ls] in
            if is_container n then
              let '(e, o, st2) := cloop (cexplore_step (cwalk f') ls P n s) P (children q n s) st1 past false in
              (vis ++ e, o, st2)
            else (vis, OOk, st1)
        end
    end.

  Definition cwalk_adv (f : nat) (budget : option (Z * Z)) (root : dm) (s : sel) : list event * outcome :=
    fst (cwalk f {| w_budget := budget; w_seen := [] |} false [] [] root s).
End CWalk.
