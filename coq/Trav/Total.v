(* Trav/Total.v — definitions for the C10 statements about selectors (definitions only):
   what ParseExploreRange allocates at compile time, when a graph is free of link cycles, and the
   fuel that suffices for any walk over such a graph. *)
Require Import IP.Base.Bytes IP.DM.Value IP.Trav.Selector IP.Trav.Walk.
Open Scope Z_scope.

(* ParseExploreRange: make([]PathSegment, 0, end-start) and end-start appends — the number of path
   segments a compiled selector holds for its ranges (the recursion's current selector IS its sequence
   at compile time, so it is counted once) *)
Fixpoint compile_alloc (s : sel) : Z :=
  match s with
  | SRange a b nx => (b - a) + compile_alloc nx
  | SAll nx | SIndex _ nx => compile_alloc nx
  | SFields fs => (fix go (l : list (bytes * sel)) : Z :=
                     match l with [] => 0 | kv :: t => compile_alloc (snd kv) + go t end) fs
  | SUnion ms => (fix go (l : list sel) : Z :=
                    match l with [] => 0 | m :: t => compile_alloc m + go t end) ms
  | SRec sq _ _ _ => compile_alloc sq
  | _ => 0
  end.

(* Go: the capacity expression is int64 (wraps), a PathSegment is 24 bytes, maxAlloc is 2^47 on linux/amd64:
   makeslice panics ("cap out of range", recoverable) when the capacity is negative or too large for the address
   space; below that the allocation is attempted for real (fatal out-of-memory when it does not fit) *)
Definition range_cap_panics (a b : Z) : bool := (9223372036854775808 <=? b - a) || (140737488355328 <? (b - a) * 24).

Section G.
  Variable g : list (bytes * dm).

  (* every link inside v that resolves in g satisfies chk *)
  Fixpoint links_ok (chk : dm -> bool) (v : dm) : bool :=
    match v with
    | DLink c => match assoc c g with Some b => chk b | None => true end
    | DList l => forallb (links_ok chk) l
    | DMap m => forallb (fun kv => links_ok chk (snd kv)) m
    | _ => true
    end.

  (* no chain of more than k link crossings starts in v.  In a content-addressed graph links cannot form a cycle,
     so [chain_ok (length g) v] holds for every value over every real block store. *)
  Fixpoint chain_ok (k : nat) (v : dm) : bool :=
    match k with
    | O => links_ok (fun _ => false) v
    | S k' => links_ok (chain_ok k') v
    end.

  Definition blocks_depth : nat := fold_right (fun cb a => Nat.max (dm_depth (snd cb)) a) O g.

  (* one unit of fuel per nesting level of walkAdv: the depth of the root plus, per link crossing, the depth
     of the deepest block plus one *)
  Definition walk_fuel (root : dm) : nat := S (dm_depth root) + length g * S blocks_depth.
End G.
