(* Trav/Selector.v — executable model of traversal/selector (runtime selectors and the Parse*
   functions) and of datamodel.PathSegment.  MODEL file: definitions only.

   Mirrors, branch for branch:
     datamodel/pathSegment.go  PathSegmentOfInt (negative => the string segment ""), String, Index
                               (strconv.ParseInt base 10, 64 bit), Equals
     node/basicnode            LookupBySegment on maps / lists / scalars, the segment iterator
     selector/*.go             Interests / Explore / Match of Matcher (+subset), ExploreAll, ExploreFields,
                               ExploreIndex, ExploreRange, ExploreUnion, ExploreRecursive (stop-at, the
                               bare-edge fence, hasRecursiveEdge, replaceRecursiveEdge, depth < 2),
                               ExploreRecursiveEdge (Explore panics);
                               ParseSelector and every Parse* (compile).
   sliceBounds is NOT written here: it is [go_sliceBounds] from Gen/FromGo.v, regenerated from
   matcher.go on every run.
   Not modelled: ExploreInterpretAs ("~"): [compile] answers CUnsupported; conditions other than the
   link condition do not exist in the Go code either. *)
Require Import IP.Base.Bytes IP.DM.Value IP.Base.GoSem IP.Gen.FromGo.
Open Scope Z_scope.

(* ------------------------------------------------------------------ path segments *)

Inductive seg := SegS (s : bytes) | SegI (i : Z).

(* PathSegment{i: i}: containsString() is [i < 0], and then the string is "" *)
Definition seg_of_int (i : Z) : seg := if i <? 0 then SegS [] else SegI i.

Fixpoint dec_digits (fuel : nat) (n : N) (acc : bytes) : bytes :=
  match fuel with
  | O => acc
  | S f => let acc' := (48 + n mod 10)%N :: acc in
           if (n <? 10)%N then acc' else dec_digits f (n / 10)%N acc'
  end.
(* strconv.FormatInt(i, 10) for 64-bit values (at most 20 digits) *)
Definition format_int (z : Z) : bytes :=
  if z <? 0 then 45%N :: dec_digits 20 (Z.to_N (- z)) [] else dec_digits 20 (Z.to_N z) [].

Fixpoint parse_digits (s : bytes) (acc : Z) : option Z :=
  match s with
  | [] => Some acc
  | c :: r => if ((48 <=? c) && (c <=? 57))%N then parse_digits r (acc * 10 + Z.of_N (c - 48)) else None
  end.
Definition int64_lim : Z := 9223372036854775808.
(* strconv.ParseInt(s, 10, 64): optional sign, at least one digit, digits only, value in range;
   any error (syntax or range) is "err != nil" for the callers *)
Definition parse_int (s : bytes) : option Z :=
  match s with
  | [] => None
  | c :: r =>
    let neg := (c =? 45)%N in
    let ds := if ((c =? 43) || (c =? 45))%N then r else s in
    match ds with
    | [] => None
    | _ => match parse_digits ds 0 with
           | None => None
           | Some u => if neg then (if int64_lim <? u then None else Some (- u))
                       else (if int64_lim <=? u then None else Some u)
           end
    end
  end.

Definition seg_string (p : seg) : bytes := match p with SegS s => s | SegI i => format_int i end.
Definition seg_index (p : seg) : option Z := match p with SegS s => parse_int s | SegI i => Some i end.
Definition seg_equals (a b : seg) : bool :=
  match a, b with
  | SegI x, SegI y => x =? y
  | _, _ => bytes_eqb (seg_string a) (seg_string b)
  end.

(* ------------------------------------------------------------------ node access (basicnode) *)

Fixpoint assoc {V} (k : bytes) (l : list (bytes * V)) : option V :=
  match l with [] => None | (k', v) :: r => if bytes_eqb k k' then Some v else assoc k r end.

Definition list_at {A} (l : list A) (i : Z) : option A :=
  if (i <? 0) || (Z.of_nat (length l) <=? i) then None else nth_error l (Z.to_nat i).

(* Node.LookupBySegment; None = any error *)
Definition lookup_seg (n : dm) (p : seg) : option dm :=
  match n with
  | DMap m => assoc (seg_string p) m
  | DList l => match seg_index p with Some i => list_at l i | None => None end
  | _ => None
  end.

Fixpoint index_from (i : Z) (l : list dm) : list (seg * dm) :=
  match l with [] => [] | x :: r => (SegI i, x) :: index_from (i + 1) r end.

(* selector.NewSegmentIterator: children in the node's own iteration order *)
Definition kids (n : dm) : list (seg * dm) :=
  match n with
  | DMap m => map (fun kv => (SegS (fst kv), snd kv)) m
  | DList l => index_from 0 l
  | _ => []
  end.

Definition is_container (n : dm) : bool := match n with DMap _ | DList _ => true | _ => false end.

(* ------------------------------------------------------------------ runtime selectors *)

Inductive sel :=
| SMatch (sl : option (Z * Z))                     (* Matcher{*Slice} *)
| SAll (nx : sel)                                  (* ExploreAll *)
| SFields (fs : list (bytes * sel))                (* ExploreFields: interests = keys in order *)
| SIndex (i : Z) (nx : sel)                        (* ExploreIndex *)
| SRange (a b : Z) (nx : sel)                      (* ExploreRange [a, b) *)
| SUnion (ms : list sel)                           (* ExploreUnion *)
| SRec (sq cur : sel) (lim : option Z) (stop : option bytes)  (* ExploreRecursive: limit None = "none" *)
| SEdge.                                           (* ExploreRecursiveEdge *)

Inductive xr (A : Type) := XOk (a : A) | XErr | XPanic.
Arguments XOk {A} a.
Arguments XErr {A}.
Arguments XPanic {A}.

Fixpoint zrange (a : Z) (n : nat) : list Z :=
  match n with O => [] | S k => a :: zrange (a + 1) k end.
Definition range_segs (a b : Z) : list seg := map seg_of_int (zrange a (Z.to_nat (b - a))).

(* Selector.Interests: None = nil (everything); Some l = explicit list (possibly empty) *)
Fixpoint interests (s : sel) : option (list seg) :=
  match s with
  | SMatch _ => Some []
  | SAll _ => None
  | SFields fs => Some (map (fun kv => SegS (fst kv)) fs)
  | SIndex i _ => Some [seg_of_int i]
  | SRange a b _ => Some (range_segs a b)
  | SUnion ms =>
      (fix go (l : list sel) : option (list seg) :=
         match l with
         | [] => Some []
         | m :: t => match interests m, go t with
                     | Some a, Some b => Some (a ++ b)
                     | _, _ => None
                     end
         end) ms
  | SRec _ cur _ _ => interests cur
  | SEdge => Some []
  end.

Fixpoint has_edge (s : sel) : bool :=
  match s with
  | SEdge => true
  | SUnion ms => (fix go (l : list sel) : bool :=
                    match l with [] => false | m :: t => has_edge m || go t end) ms
  | _ => false
  end.

Definition union_of (l : list sel) : option sel :=
  match l with [] => None | [x] => Some x | _ => Some (SUnion l) end.

(* replaceRecursiveEdge(next, replacement); replacement None = nil *)
Fixpoint replace_edge (s : sel) (r : option sel) : option sel :=
  match s with
  | SEdge => r
  | SUnion ms =>
      union_of ((fix go (l : list sel) : list sel :=
                   match l with
                   | [] => []
                   | m :: t => match replace_edge m r with Some m' => m' :: go t | None => go t end
                   end) ms)
  | _ => Some s
  end.

(* Condition.Match for the link condition: the target is a link with the same CID *)
Definition cond_match (c : bytes) (t : dm) : bool :=
  match t with DLink c' => bytes_eqb c c' | _ => false end.

Definition is_edge (s : sel) : bool := match s with SEdge => true | _ => false end.

(* The confirmed deviations of the pinned code from the specified semantics (C07), as switches:
   [pinned] is the code as it is; flipping a switch gives the repaired behaviour.
     q_union_dup        ExploreUnion.Interests concatenates its members' interests without de-duplication
                        ("TODO: Dedup?"): a child named by two members is walked once per occurrence
     q_bare_edge_panic  ExploreRecursiveEdge.Explore panics; reached when an edge is a direct member of the
                        union that is a recursion's current selector (repaired: such an edge is dead)
     q_exhausted_unwrap when the depth limit is exhausted the ExploreRecursive wrapper is dropped from what
                        remains, so an edge nested in the remainder later shows up bare and its node is
                        visited as a candidate (repaired: the wrapper stays)
     q_shared_depth     one depth counter serves all members of the current selector: every member's
                        remaining depth drops whenever any member passes an edge (repaired: each member is
                        wrapped with its own counter) *)
Record quirks := { q_union_dup : bool; q_bare_edge_panic : bool; q_exhausted_unwrap : bool; q_shared_depth : bool }.
Definition pinned : quirks :=
  {| q_union_dup := true; q_bare_edge_panic := true; q_exhausted_unwrap := true; q_shared_depth := true |}.
Definition repaired : quirks :=
  {| q_union_dup := false; q_bare_edge_panic := false; q_exhausted_unwrap := false; q_shared_depth := false |}.

Definition exhausted (lim : option Z) : bool := match lim with Some d => d <? 2 | None => false end.
Definition lim_pred (lim : option Z) : option Z := match lim with Some d => Some (d - 1) | None => None end.

(* repaired wrapping: every member of the (possibly nested) union gets its own ExploreRecursive with its own
   remaining depth; an edge becomes a fresh iteration with the depth decremented, or dies when exhausted *)
Fixpoint wrap_members (sq : sel) (lim : option Z) (stop : option bytes) (nx : sel) : option sel :=
  match nx with
  | SEdge => if exhausted lim then None else Some (SRec sq sq (lim_pred lim) stop)
  | SUnion [] => Some (SRec sq nx lim stop)
  | SUnion ms =>
      union_of ((fix go (l : list sel) : list sel :=
                   match l with
                   | [] => []
                   | m :: t => match wrap_members sq lim stop m with Some m' => m' :: go t | None => go t end
                   end) ms)
  | _ => Some (SRec sq nx lim stop)
  end.

(* what ExploreRecursive.Explore does with the selector its current clause returned *)
Definition rec_wrap (q : quirks) (sq : sel) (lim : option Z) (stop : option bytes) (nx : sel) : xr (option sel) :=
  if q_shared_depth q then
    (* the code as written *)
    if negb (has_edge nx) then XOk (Some (SRec sq nx lim stop))
    else if exhausted lim then
      (if q_exhausted_unwrap q then XOk (replace_edge nx None)
       else match replace_edge nx None with
            | Some c => XOk (Some (SRec sq c lim stop))
            | None => XOk None
            end)
    else match replace_edge nx (Some sq) with
         | Some c => XOk (Some (SRec sq c (lim_pred lim) stop))
         | None => XPanic (* unreachable: a nil current selector would be dereferenced later *)
         end
  else
    if q_exhausted_unwrap q && has_edge nx && exhausted lim then XOk (replace_edge nx None)
    else XOk (wrap_members sq lim stop nx).

(* Selector.Explore(node, segment) *)
Fixpoint explore (q : quirks) (s : sel) (n : dm) (p : seg) {struct s} : xr (option sel) :=
  match s with
  | SMatch _ => XOk None
  | SAll nx => XOk (Some nx)
  | SFields fs => XOk (assoc (seg_string p) fs)
  | SIndex i nx =>
      match n with
      | DList _ => match seg_index p, seg_index (seg_of_int i) with
                   | Some a, Some b => if a =? b then XOk (Some nx) else XOk None
                   | _, _ => XOk None
                   end
      | _ => XOk None
      end
  | SRange a b nx =>
      match n with
      | DList _ => match seg_index p with
                   | Some i => if (i <? a) || (b <=? i) then XOk None else XOk (Some nx)
                   | None => XOk None
                   end
      | _ => XOk None
      end
  | SUnion ms =>
      match (fix go (l : list sel) : xr (list sel) :=
               match l with
               | [] => XOk []
               | m :: t => match explore q m n p with
                           | XOk r => match go t with
                                      | XOk rs => XOk (match r with Some x => x :: rs | None => rs end)
                                      | XErr => XErr
                                      | XPanic => XPanic
                                      end
                           | XErr => XErr
                           | XPanic => XPanic
                           end
               end) ms with
      | XOk l => XOk (union_of l)
      | XErr => XErr
      | XPanic => XPanic
      end
  | SRec sq cur lim stop =>
      let stopped : xr bool :=
        match stop with
        | None => XOk false
        | Some c => match lookup_seg n p with
                    | None => XErr
                    | Some t => XOk (cond_match c t)
                    end
        end in
      match stopped with
      | XErr => XErr
      | XPanic => XPanic
      | XOk true => XOk None
      | XOk false =>
          if is_edge cur then XOk None
          else match explore q cur n p with
               | XPanic => XPanic
               | XErr => XOk None            (* nextSelector, _ := s.current.Explore(n, p) *)
               | XOk None => XOk None
               | XOk (Some nx) => rec_wrap q sq lim stop nx
               end
      end
  | SEdge => if q_bare_edge_panic q then XPanic   (* "Traversed Explore Recursive Edge Node With No Parent" *)
             else XOk None
  end.

(* Slice.Slice: the bounds come from the generated sliceBounds; str[from:to] *)
Definition slice_bytes (ft : Z * Z) (s : bytes) : option bytes :=
  match go_sliceBounds (fst ft) (snd ft) (len64 s) with
  | (true, from, to) => Some (firstn (Z.to_nat (to - from)) (skipn (Z.to_nat from) s))
  | (false, _, _) => None
  end.
Definition slice_node (ft : Z * Z) (n : dm) : option dm :=
  match n with
  | DString s => match slice_bytes ft s with Some r => Some (DString r) | None => None end
  | DBytes s => match slice_bytes ft s with Some r => Some (DBytes r) | None => None end
  | _ => None
  end.

(* Selector.Match: Some m = matched (m is the possibly sliced node) *)
Fixpoint match_sel (s : sel) (n : dm) : option dm :=
  match s with
  | SMatch None => Some n
  | SMatch (Some ft) => slice_node ft n
  | SUnion ms => (fix go (l : list sel) : option dm :=
                    match l with
                    | [] => None
                    | m :: t => match match_sel m n with Some r => Some r | None => go t end
                    end) ms
  | SRec _ cur _ _ => match_sel cur n
  | _ => None
  end.

(* ------------------------------------------------------------------ compile: the Parse functions *)

Inductive cr (A : Type) := COk (a : A) | CErr | CUnsupported.
Arguments COk {A} a.
Arguments CErr {A}.
Arguments CUnsupported {A}.

Definition as_int (v : dm) : option Z :=
  match v with DInt z => if (- int64_lim <=? z) && (z <? int64_lim) then Some z else None | _ => None end.

Definition k_matcher : bytes := [46%N].
Definition k_all : bytes := [97%N].
Definition k_fields : bytes := [102%N].
Definition k_index : bytes := [105%N].
Definition k_range : bytes := [114%N].
Definition k_rec : bytes := [82%N].
Definition k_union : bytes := [124%N].
Definition k_edge : bytes := [64%N].
Definition k_interp : bytes := [126%N].
Definition k_next : bytes := [62%N].
Definition k_fieldsmap : bytes := [102%N; 62%N].
Definition k_start : bytes := [94%N].
Definition k_end : bytes := [36%N].
Definition k_seq : bytes := [58%N; 62%N].
Definition k_limit : bytes := [108%N].
Definition k_depth : bytes := [100%N; 101%N; 112%N; 116%N; 104%N].
Definition k_none : bytes := [110%N; 111%N; 110%N; 101%N].
Definition k_stop : bytes := [33%N].
Definition k_condlink : bytes := [47%N].
Definition k_subset : bytes := [115%N; 117%N; 98%N; 115%N; 101%N; 116%N].
Definition k_from : bytes := [91%N].
Definition k_to : bytes := [93%N].

Definition parse_limit (v : dm) : option (option Z) :=
  match v with
  | DMap [(k, x)] =>
      if bytes_eqb k k_depth then match as_int x with Some d => Some (Some d) | None => None end
      else if bytes_eqb k k_none then Some None
      else None
  | _ => None
  end.

Definition parse_condition (v : dm) : option bytes :=
  match v with
  | DMap [(k, x)] => if bytes_eqb k k_condlink then match x with DLink c => Some c | _ => None end else None
  | _ => None
  end.

Definition parse_matcher (body : dm) : cr sel :=
  match body with
  | DMap m =>
      match assoc k_subset m with
      | None => COk (SMatch None)
      | Some (DMap sm) =>
          match assoc k_from sm with
          | None => CErr
          | Some f => match as_int f with
                      | None => CErr
                      | Some fromN =>
                          match assoc k_to sm with
                          | None => CErr
                          | Some t => match as_int t with
                                      | None => CErr
                                      | Some toN => if (0 <=? toN) && (toN <? fromN) then CErr
                                                    else COk (SMatch (Some (fromN, toN)))
                                      end
                          end
                      end
          end
      | Some _ => CErr
      end
  | _ => CErr
  end.

Definition cbind {A B} (r : cr A) (f : A -> cr B) : cr B :=
  match r with COk a => f a | CErr => CErr | CUnsupported => CUnsupported end.
Definition cget {A} (o : option A) : cr A := match o with Some a => COk a | None => CErr end.
Definition as_map (v : dm) : cr (list (bytes * dm)) := match v with DMap m => COk m | _ => CErr end.

Fixpoint compile_fields (rec : dm -> cr (sel * bool)) (l : list (bytes * dm)) : cr (list (bytes * sel) * bool) :=
  match l with
  | [] => COk ([], false)
  | (fk, x) :: t =>
      cbind (rec x) (fun se =>
      cbind (compile_fields rec t) (fun re => COk ((fk, fst se) :: fst re, snd se || snd re)))
  end.
Fixpoint compile_members (rec : dm -> cr (sel * bool)) (l : list dm) : cr (list sel * bool) :=
  match l with
  | [] => COk ([], false)
  | x :: t =>
      cbind (rec x) (fun se =>
      cbind (compile_members rec t) (fun re => COk (fst se :: fst re, snd se || snd re)))
  end.

(* [compile_f fuel inrec v]: inrec = some enclosing ExploreRecursive exists (parentStack non-empty);
   the boolean result = an ExploreRecursiveEdge bound to the nearest enclosing recursion was parsed
   (exploreRecursiveContext.edgesFound > 0). *)
Fixpoint compile_f (fuel : nat) (inrec : bool) (v : dm) {struct fuel} : cr (sel * bool) :=
  match fuel with
  | O => CErr
  | S f =>
    match v with
    | DMap [(k, body)] =>
      if bytes_eqb k k_fields then
        cbind (as_map body) (fun bm =>
        cbind (cget (assoc k_fieldsmap bm)) (fun fv =>
        cbind (as_map fv) (fun fm =>
        cbind (compile_fields (compile_f f inrec) fm) (fun r => COk (SFields (fst r), snd r)))))
      else if bytes_eqb k k_all then
        cbind (as_map body) (fun bm =>
        cbind (cget (assoc k_next bm)) (fun nx =>
        cbind (compile_f f inrec nx) (fun se => COk (SAll (fst se), snd se))))
      else if bytes_eqb k k_index then
        cbind (as_map body) (fun bm =>
        cbind (cget (assoc k_index bm)) (fun iv =>
        cbind (cget (as_int iv)) (fun i =>
        cbind (cget (assoc k_next bm)) (fun nx =>
        cbind (compile_f f inrec nx) (fun se => COk (SIndex i (fst se), snd se))))))
      else if bytes_eqb k k_range then
        cbind (as_map body) (fun bm =>
        cbind (cget (assoc k_start bm)) (fun sv =>
        cbind (cget (as_int sv)) (fun a =>
        cbind (cget (assoc k_end bm)) (fun ev =>
        cbind (cget (as_int ev)) (fun b =>
        if b <=? a then CErr else
        cbind (cget (assoc k_next bm)) (fun nx =>
        cbind (compile_f f inrec nx) (fun se => COk (SRange a b (fst se), snd se))))))))
      else if bytes_eqb k k_union then
        match body with
        | DList l =>
            cbind (compile_members (compile_f f inrec) l) (fun r => COk (SUnion (fst r), snd r))
        | _ => CErr
        end
      else if bytes_eqb k k_rec then
        cbind (as_map body) (fun bm =>
        cbind (cget (assoc k_limit bm)) (fun lv =>
        cbind (cget (parse_limit lv)) (fun lim =>
        cbind (cget (assoc k_seq bm)) (fun sv =>
        cbind (compile_f f true sv) (fun se =>
        if negb (snd se) then CErr else
        match assoc k_stop bm with
        | None => COk (SRec (fst se) (fst se) lim None, false)
        | Some cv => cbind (cget (parse_condition cv)) (fun c => COk (SRec (fst se) (fst se) lim (Some c), false))
        end)))))
      else if bytes_eqb k k_edge then
        cbind (as_map body) (fun _ => if inrec then COk (SEdge, true) else CErr)
      else if bytes_eqb k k_interp then CUnsupported
      else if bytes_eqb k k_matcher then
        cbind (parse_matcher body) (fun s => COk (s, false))
      else CErr
    | _ => CErr
    end
  end.

Definition compile (v : dm) : cr sel :=
  cbind (compile_f (S (dm_depth v)) false v) (fun se => COk (fst se)).
