(* Trav/Path.v — datamodel.Path (ParsePath / String) and traversal.Progress.get (Get / Focus).
   MODEL file: definitions only.

   get: for each segment, LookupByString(seg.String()) on maps, seg.Index() then LookupByIndex on lists,
   "cannot traverse terminals" otherwise; after each step, while the node is a link it is loaded
   through the link system (so a block whose root is itself a link is followed further).
   The optional Budget of get (decrement first, then test "<= 0") is not modelled: C14 runs without. *)
Require Import IP.Base.Bytes IP.DM.Value IP.Trav.Selector.
Open Scope Z_scope.

(* ParsePath: strings.FieldsFunc(s, r == '/') — split at '/', drop empty fields.  Byte-level split is
   the same as the rune-level one: '/' (0x2f) never occurs inside a multi-byte UTF-8 sequence, and an
   invalid byte decodes to U+FFFD of width 1. *)
Fixpoint split_slash (s : bytes) (cur : bytes) : list bytes :=
  match s with
  | [] => match cur with [] => [] | _ => [rev cur] end
  | c :: r => if (c =? 47)%N then match cur with [] => split_slash r [] | _ => rev cur :: split_slash r [] end
              else split_slash r (c :: cur)
  end.
Definition parse_path (s : bytes) : list seg := map SegS (split_slash s []).

(* Path.String: segments joined by '/' *)
Fixpoint join_slash (l : list bytes) : bytes :=
  match l with
  | [] => []
  | [x] => x
  | x :: r => x ++ 47%N :: join_slash r
  end.
Definition format_path (p : list seg) : bytes := join_slash (map seg_string p).

Inductive gerr := GNotExists | GBadIndex | GTerminal | GLoad | GFuel.

Section Get.
  Variable g : list (bytes * dm).

  (* the "for n.Kind() == Kind_Link" loop *)
  Fixpoint deref (fuel : nat) (v : dm) : res gerr dm :=
    match v with
    | DLink c => match fuel with
                 | O => Err GFuel
                 | S f => match assoc c g with None => Err GLoad | Some b => deref f b end
                 end
    | _ => Ok v
    end.

  Definition step (n : dm) (sg : seg) : res gerr dm :=
    match n with
    | DMap m => match assoc (seg_string sg) m with Some v => Ok v | None => Err GNotExists end
    | DList l => match seg_index sg with
                 | None => Err GBadIndex
                 | Some i => match list_at l i with Some v => Ok v | None => Err GNotExists end
                 end
    | _ => Err GTerminal
    end.

  Definition step_deref (n : dm) (sg : seg) : res gerr dm :=
    do v <- step n sg; deref (S (length g)) v.

  Fixpoint get (n : dm) (p : list seg) : res gerr dm :=
    match p with
    | [] => Ok n
    | sg :: r => do v <- step_deref n sg; get v r
    end.

  (* Focus (get with trackProgress) started from a Progress that already carries a path: the reported path is the
     carried path followed by the focused one; LastBlock becomes (p.Truncate(i+1), link) of the last link loaded on the
     way — a path RELATIVE to the node the focus started from, as coded — or stays what it was when no link is crossed *)
  Fixpoint deref_last (fuel : nat) (v : dm) (last : option bytes) : res gerr (dm * option bytes) :=
    match v with
    | DLink c => match fuel with
                 | O => Err GFuel
                 | S f => match assoc c g with None => Err GLoad | Some b => deref_last f b (Some c) end
                 end
    | _ => Ok (v, last)
    end.

  Fixpoint get_last (n : dm) (done p : list seg) (lb : option (list seg * bytes))
    : res gerr (dm * option (list seg * bytes)) :=
    match p with
    | [] => Ok (n, lb)
    | sg :: r =>
        do v <- step n sg;
        do vl <- deref_last (S (length g)) v None;
        let done' := done ++ [sg] in
        get_last (fst vl) done' r (match snd vl with Some c => Some (done', c) | None => lb end)
    end.

  (* node reached, reported Progress.Path, new LastBlock (None = unchanged) *)
  Definition focus_from (pre : list seg) (n : dm) (q : list seg)
    : res gerr (dm * list seg * option (list seg * bytes)) :=
    do r <- get_last n [] q None; Ok (fst r, pre ++ q, snd r).

  (* the LinkContext get hands to the prototype chooser and the loader at every link it dereferences, as coded:
     LinkPath = p.Truncate(i) (the path of the CONTAINER, relative to the node the focus started from — the walk passes
     the path of the link itself), LinkNode = the link node, ParentNode = the container, or the previous link node
     when a block's root is itself a link.  The log is kept also when a later step fails. *)
  Fixpoint deref_ctx (fuel : nat) (lp : list seg) (v prev : dm) : list (list seg * dm * dm) * res gerr dm :=
    match v with
    | DLink c => match fuel with
                 | O => ([], Err GFuel)
                 | S f => match assoc c g with
                          | None => ([(lp, v, prev)], Err GLoad)
                          | Some b => let '(l, r) := deref_ctx f lp b v in ((lp, v, prev) :: l, r)
                          end
                 end
    | _ => ([], Ok v)
    end.

  Fixpoint get_ctx (n : dm) (done p : list seg) : list (list seg * dm * dm) * res gerr dm :=
    match p with
    | [] => ([], Ok n)
    | sg :: r =>
        match step n sg with
        | Err e => ([], Err e)
        | Ok v => match deref_ctx (S (length g)) done v n with
                  | (l, Err e) => (l, Err e)
                  | (l, Ok v') => let '(l', r') := get_ctx v' (done ++ [sg]) r in (l ++ l', r')
                  end
        end
    end.
End Get.

(* traversal.WalkLocal: every node of the tree, pre-order, children in iteration order, links not followed; the path of
   a map child is built with AppendSegmentString(key) — ONE segment, whatever the key contains — of a list child with
   AppendSegmentInt(index) *)
Fixpoint walk_local (fuel : nat) (P : list seg) (n : dm) : list (list seg * dm) :=
  match fuel with
  | O => []
  | S f => (P, n) :: flat_map (fun k => walk_local f (P ++ [fst k]) (snd k)) (kids n)
  end.
Definition walk_local_all (root : dm) : list (list seg * dm) := walk_local (S (dm_depth root)) [] root.

(* resolution by segments without loading links *)
Fixpoint get_local (n : dm) (p : list seg) : res gerr dm :=
  match p with [] => Ok n | sg :: r => do v <- step n sg; get_local v r end.

(* the Path API the walks use *)
Definition path_append_string (p : list seg) (s : bytes) : list seg := p ++ [SegS s].
Definition path_append_int (p : list seg) (i : Z) : list seg := p ++ [seg_of_int i].
Definition path_join (p q : list seg) : list seg := p ++ q.
(* Truncate(i): p.segments[0:i] — a slice-bounds panic outside 0..len *)
Definition path_truncate (p : list seg) (i : Z) : option (list seg) :=
  if (i <? 0) || (Z.of_nat (length p) <? i) then None else Some (firstn (Z.to_nat i) p).
Definition path_pop (p : list seg) : list seg := removelast p.
Definition path_shift (p : list seg) : option seg * list seg :=
  match p with [] => (None, []) | x :: r => (Some x, r) end.
Definition path_last (p : list seg) : option seg := last (map Some p) None.
