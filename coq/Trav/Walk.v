(* Trav/Walk.v — executable model of the unrestricted selector walk of traversal/walk.go:
   Progress.WalkAdv / walkBlock / walkAdv / visit / explore / loadLink with no Budget, no StartAtPath,
   LinkVisitOnlyOnce = false, no Preloader, a loader that never answers SkipMe.
   MODEL file: definitions only.

   The graph is a finite map from CID bytes to the decoded block ([assoc c g]); the walk runs on fuel
   (one unit per walkAdv nesting level) and emits the trace of observable events:
     EVisit path node reason ls   the AdvVisitFn call (node = Match result when matched)
     ELoad  path cid ls           the StorageReadOpener call for a link (path = LinkContext.LinkPath)
   [ls] is the stack of links crossed so far, innermost first; its head is Progress.LastBlock.Link.
   Outcomes: OOk | OErr class | OPanic (ExploreRecursiveEdge.Explore) | OFuel (model artefact: fuel ran out;
   unreachable on acyclic graphs with enough fuel).

   Children of a node are enumerated as walkAdv does: all children in iteration order when
   Interests() is nil, otherwise the Interests() list in its own order, each looked up with
   LookupBySegment and silently dropped when the lookup fails. *)
Require Import IP.Base.Bytes IP.DM.Value IP.Trav.Selector.
Open Scope Z_scope.

Inductive reason := RMatch | RCand.
Inductive event :=
| EVisit (p : list seg) (n : dm) (r : reason) (ls : list bytes)
| ELoad (p : list seg) (c : bytes) (ls : list bytes).

Inductive werr := WLoad | WExplore | WNodeBudget | WLinkBudget.
Inductive outcome := OOk | OErr (e : werr) | OPanic | OFuel.

Definition is_ok (o : outcome) : bool := match o with OOk => true | _ => false end.

Definition visit_event (P : list seg) (n : dm) (s : sel) (ls : list bytes) : event :=
  match match_sel s n with
  | Some m => EVisit P m RMatch ls
  | None => EVisit P n RCand ls
  end.

Definition interest_kids (n : dm) (attn : list seg) : list (seg * dm) :=
  flat_map (fun ps => match lookup_seg n ps with Some v => [(ps, v)] | None => [] end) attn.

(* first occurrences only, compared by segment string (what PathSegment.Equals compares) *)
Fixpoint dedup_segs (seen : list bytes) (l : list seg) : list seg :=
  match l with
  | [] => []
  | p :: r => if (fix mem (x : bytes) (l : list bytes) : bool :=
                    match l with [] => false | y :: t => bytes_eqb x y || mem x t end) (seg_string p) seen
              then dedup_segs seen r else p :: dedup_segs (seg_string p :: seen) r
  end.

Definition children (q : quirks) (n : dm) (s : sel) : list (seg * dm) :=
  match interests s with
  | None => kids n
  | Some attn => interest_kids n (if q_union_dup q then attn else dedup_segs [] attn)
  end.

(* run the steps in order, stop at the first outcome that is not OOk *)
Fixpoint seqk {A} (step : A -> list event * outcome) (ks : list A) : list event * outcome :=
  match ks with
  | [] => ([], OOk)
  | k :: r => match step k with
              | (e, OOk) => let '(e', o) := seqk step r in (e ++ e', o)
              | (e, o) => (e, o)
              end
  end.

Section Walk.
  Variable q : quirks.
  Variable g : list (bytes * dm).

  (* Progress.explore for one child (segment, value) of node n under selector s *)
  Definition explore_step (rec : list bytes -> list seg -> dm -> sel -> list event * outcome)
             (ls : list bytes) (P : list seg) (n : dm) (s : sel) (k : seg * dm) : list event * outcome :=
    match explore q s n (fst k) with
    | XPanic => ([], OPanic)
    | XErr => ([], OErr WExplore)
    | XOk None => ([], OOk)
    | XOk (Some s') =>
        let P' := P ++ [fst k] in
        match snd k with
        | DLink c =>
            match assoc c g with
            | None => ([ELoad P' c ls], OErr WLoad)
            | Some b => let '(e, o) := rec (c :: ls) P' b s' in (ELoad P' c ls :: e, o)
            end
        | v => rec ls P' v s'
        end
    end.

  (* Progress.walkAdv *)
  Fixpoint walk (f : nat) (ls : list bytes) (P : list seg) (n : dm) (s : sel) {struct f}
    : list event * outcome :=
    match f with
    | O => ([], OFuel)
    | S f' =>
        let ev := visit_event P n s ls in
        if is_container n then
          let '(e, o) := seqk (explore_step (walk f') ls P n s) (children q n s) in (ev :: e, o)
        else ([ev], OOk)
    end.

  (* Progress.WalkAdv from the root *)
  Definition walk_adv (f : nat) (root : dm) (s : sel) : list event * outcome := walk f [] [] root s.
End Walk.

Definition is_visit (e : event) : bool := match e with EVisit _ _ _ _ => true | _ => false end.
Definition is_load (e : event) : bool := match e with ELoad _ _ _ => true | _ => false end.
Definition is_match_visit (e : event) : bool := match e with EVisit _ _ RMatch _ => true | _ => false end.
Definition visits (t : list event) : list event := filter is_visit t.
Definition loads (t : list event) : list event := filter is_load t.
(* Progress.WalkMatching: the same walk, the callback fires for SelectionMatch visits only *)
Definition walk_matching (q : quirks) (g : list (bytes * dm)) (f : nat) (root : dm) (s : sel) : list event * outcome :=
  let '(e, o) := walk_adv q g f root s in (filter (fun x => is_match_visit x || is_load x) e, o).

Definition ev_path (e : event) : list seg := match e with EVisit p _ _ _ => p | ELoad p _ _ => p end.
Definition ev_stack (e : event) : list bytes := match e with EVisit _ _ _ ls => ls | ELoad _ _ ls => ls end.
Definition load_cid (e : event) : option bytes := match e with ELoad _ c _ => Some c | _ => None end.
