(* Trav/QuirkFree.v — the decidable condition "no deviation of the pinned code fires along this walk"
   (C07_walk_denotes_quirk_free).  Definitions only; mirrors Explore and the walk. *)
Require Import IP.Base.Bytes IP.DM.Value IP.Trav.Selector IP.Trav.Walk IP.Trav.Controls.
Open Scope Z_scope.

Fixpoint nodup_strs_b (l : list bytes) : bool :=
  match l with [] => true | x :: r => negb (mem_bytes x r) && nodup_strs_b r end.

Fixpoint all_edges (s : sel) : bool :=
  match s with
  | SEdge => true
  | SUnion [] => false
  | SUnion ms => (fix go (l : list sel) : bool := match l with [] => true | m :: t => all_edges m && go t end) ms
  | _ => false
  end.

(* does the selector stand for no thread at all (only dead edges)? *)
Fixpoint emptyrep (s : sel) : bool :=
  match s with
  | SEdge => true
  | SUnion [] => false
  | SUnion ms => (fix go (l : list sel) : bool := match l with [] => true | m :: t => emptyrep m && go t end) ms
  | _ => false
  end.

Definition live (sq : sel) : bool := negb (emptyrep sq).

(* the condition on what the current clause of a recursion handed back *)
Definition wrap_cond (q : quirks) (sq : sel) (lim : option Z) (nx : sel) : bool :=
  if q_shared_depth q then negb (has_edge nx) || (all_edges nx && live sq)
  else negb (q_exhausted_unwrap q && has_edge nx && exhausted lim).

(* no deviation fires in this Explore call *)
Fixpoint quirk_free (q : quirks) (s : sel) (n : dm) (p : seg) {struct s} : bool :=
  match s with
  | SUnion ms => (fix go (l : list sel) : bool :=
                    match l with [] => true | m :: t => quirk_free q m n p && go t end) ms
  | SRec sq cur lim stop =>
      let continue :=
        if is_edge cur then true
        else quirk_free q cur n p &&
             match explore q cur n p with
             | XOk (Some nx) => wrap_cond q sq lim nx
             | _ => true
             end in
      match stop with
      | None => continue
      | Some c => match lookup_seg n p with
                  | Some t => if cond_match c t then true else continue
                  | None => true
                  end
      end
  | SEdge => negb (q_bare_edge_panic q)
  | _ => true
  end.

(* the interests of the selector name no child twice, or de-duplication is repaired *)
Definition interests_ok (q : quirks) (s : sel) : bool :=
  negb (q_union_dup q) ||
  match interests s with Some attn => nodup_strs_b (map seg_string attn) | None => true end.

(* no deviation fires anywhere along the walk (decidable; mirrors the walk) *)
Fixpoint walk_quirk_free (q : quirks) (g : list (bytes * dm)) (f : nat) (n : dm) (s : sel) : bool :=
  match f with
  | O => true
  | S f' =>
      if is_container n then
        interests_ok q s &&
        forallb (fun k =>
                   quirk_free q s n (fst k) &&
                   match explore q s n (fst k) with
                   | XOk (Some s') =>
                       match snd k with
                       | DLink c => match assoc c g with Some b => walk_quirk_free q g f' b s' | None => true end
                       | v => walk_quirk_free q g f' v s'
                       end
                   | _ => true
                   end) (children q n s)
      else true
  end.

(* ------------------------------------------------------------------ the current tree (C07_walk_denotes_current_tree)
   Since b8b93dd / 873f3b3 / 87fc183 only the shared depth counter is left. *)
Definition current : quirks :=
  {| q_union_dup := false; q_bare_edge_panic := false; q_exhausted_unwrap := false; q_shared_depth := true |}.

(* step depths (number of explore clauses passed) of the edges that belong to the recursion whose sequence s is;
   edges beneath a nested ExploreRecursive belong to that one *)
Fixpoint edge_depths (d : nat) (s : sel) : list nat :=
  match s with
  | SEdge => [d]
  | SAll nx | SIndex _ nx | SRange _ _ nx => edge_depths (S d) nx
  | SFields fs => (fix go (l : list (bytes * sel)) : list nat :=
                     match l with [] => [] | kv :: t => edge_depths (S d) (snd kv) ++ go t end) fs
  | SUnion ms => (fix go (l : list sel) : list nat :=
                    match l with [] => [] | m :: t => edge_depths d m ++ go t end) ms
  | _ => []
  end.

(* all edges of the sequence sit at the same step depth: every iteration takes the same number of steps, so all
   members of the current selector pass their edges together *)
Definition uniform (sq : sel) : bool :=
  match edge_depths 0 sq with [] => true | d :: r => forallb (Nat.eqb d) r end.

(* The shared depth counter of ExploreRecursive cannot be observed: every recursion of the declaration has a live
   sequence and either no depth limit or a sequence all of whose edges sit at the same step depth. *)
Fixpoint nsd_rec (s : sel) : bool :=
  match s with
  | SAll nx | SIndex _ nx | SRange _ _ nx => nsd_rec nx
  | SFields fs => (fix go (l : list (bytes * sel)) : bool :=
                     match l with [] => true | kv :: t => nsd_rec (snd kv) && go t end) fs
  | SUnion ms => (fix go (l : list sel) : bool :=
                    match l with [] => true | m :: t => nsd_rec m && go t end) ms
  | SRec sq _ lim _ =>
      nsd_rec sq && live sq && match lim with None => true | Some _ => uniform sq end
  | _ => true
  end.

(* no empty union anywhere (an empty union next to an edge is dropped by replaceRecursiveEdge, see
   C07_refuted_empty_union_dropped) *)
Fixpoint noempty (s : sel) : bool :=
  match s with
  | SUnion [] => false
  | SUnion ms => (fix go (l : list sel) : bool :=
                    match l with [] => true | m :: t => noempty m && go t end) ms
  | SAll nx | SIndex _ nx | SRange _ _ nx => noempty nx
  | SFields fs => (fix go (l : list (bytes * sel)) : bool :=
                     match l with [] => true | kv :: t => noempty (snd kv) && go t end) fs
  | SRec sq cur _ _ => noempty sq && noempty cur
  | _ => true
  end.

Definition no_shared_depth (s : sel) : bool := noempty s && nsd_rec s.
