(* Trav/ControlsSpec.v — the SPEC side of C15: what each traversal control is allowed to do, expressed
   on the trace of the unrestricted walk.  Definitions only. *)
Require Import IP.Base.Bytes IP.DM.Value IP.Trav.Selector IP.Trav.Walk IP.Trav.Controls.
Open Scope Z_scope.

(* Budgets: the restricted trace is the unrestricted one cut right before the first event whose budget is
   used up.  Result: the surviving prefix, the budget error if one occurred, the remaining budgets. *)
Fixpoint cut (nb lb : Z) (t : list event) : list event * option werr * (Z * Z) :=
  match t with
  | [] => ([], None, (nb, lb))
  | e :: r =>
      if is_visit e then
        if nb <=? 0 then ([], Some WNodeBudget, (nb, lb))
        else let '(t', o, b) := cut (nb - 1) lb r in (e :: t', o, b)
      else
        if lb <=? 0 then ([], Some WLinkBudget, (nb, lb))
        else let '(t', o, b) := cut nb (lb - 1) r in (e :: t', o, b)
  end.

(* the whole budgeted run in terms of the unrestricted run *)
Definition cut_run (nb lb : Z) (u : list event * outcome) : list event * outcome :=
  match cut nb lb (fst u) with
  | (t', Some e, _) => (t', OErr e)
  | (_, None, _) => u
  end.

(* sub-sequence *)
Inductive subseq {A} : list A -> list A -> Prop :=
| sub_nil : forall l, subseq [] l
| sub_take : forall x a b, subseq a b -> subseq (x :: a) (x :: b)
| sub_drop : forall x a b, subseq a b -> subseq a (x :: b).

Definition load_cids (t : list event) : list bytes :=
  flat_map (fun e => match e with ELoad _ c _ => [c] | _ => [] end) t.

(* Skipping: an event survives iff no link on its stack (the links crossed to reach it) is skipped *)
Definition under_skipped (k : list bytes) (e : event) : bool :=
  existsb (fun c => mem_bytes c k) (ev_stack e).
Definition skip_spec (k : list bytes) (t : list event) : list event :=
  filter (fun e => negb (under_skipped k e)) t.

(* Start-at: paths are compared segment-wise by PathSegment.Equals, i.e. by their strings *)
Definition path_strs (p : list seg) : list bytes := map seg_string p.
Fixpoint strs_eqb (a b : list bytes) : bool :=
  match a, b with
  | [], [] => true
  | x :: a', y :: b' => bytes_eqb x y && strs_eqb a' b'
  | _, _ => false
  end.
Fixpoint strs_prefixb (a b : list bytes) : bool :=
  match a, b with
  | [], _ => true
  | x :: a', y :: b' => bytes_eqb x y && strs_prefixb a' b'
  | _ :: _, [] => false
  end.
Definition at_path (sp : list seg) (e : event) : bool :=
  is_visit e && strs_eqb (path_strs (ev_path e)) (path_strs sp).
Definition on_path_load (sp : list seg) (e : event) : bool :=
  is_load e && strs_prefixb (path_strs (ev_path e)) (path_strs sp).

(* split at the first visit of the start path *)
Fixpoint split_at (sp : list seg) (t : list event) : list event * list event :=
  match t with
  | [] => ([], [])
  | e :: r => if at_path sp e then ([], t) else let '(b, a) := split_at sp r in (e :: b, a)
  end.
(* the restricted trace: the links on the way to the start path are still loaded; everything from the
   first visit of the start path on is unchanged *)
Definition start_spec (sp : list seg) (t : list event) : list event :=
  let '(b, a) := split_at sp t in filter (on_path_load sp) b ++ a.
