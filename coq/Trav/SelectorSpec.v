(* Trav/SelectorSpec.v — the SPECIFIED semantics of selectors (C07), written differently from the code on
   purpose.  Definitions only.

   The code (Selector.v) rewrites a selector tree at every step: Explore returns a new selector, unions are
   recombined, ExploreRecursive wraps what its current clause returned and substitutes edges.  Here there
   is no rewriting.  A walk carries a list of active THREADS; a thread is a position inside the declared
   selector (one of its explore/match clauses) plus the stack of recursion FRAMES it is inside of:

     frame  = (sequence of the enclosing ExploreRecursive, remaining depth, stop-at condition)
     thread = Thr clause frames

   [enter]  epsilon closure: a union forks one thread per member (in member order); an ExploreRecursive
            pushes a frame and enters its sequence; an edge re-enters the innermost frame's sequence with
            the depth decremented, or dies when that frame is exhausted (depth < 2: depth d = the
            sequence is entered d times).  An edge met again before any step was taken is dead ([enter0]):
            R(l, @) and the @ of R(l, |[@, x]) contribute nothing.
   [sstep]  one step to a child: a thread dies if the child is a link named by the stop-at condition of any
            enclosing frame; otherwise its clause decides (all / fields / index / range) and the
            continuation is entered.  Each thread has its own depth counters.
   [smatch] the node is matched if some thread is a matcher that accepts it (first such thread gives the
            slice); otherwise it is a candidate.
   [schildren] all children in the node's iteration order if some thread explores all; otherwise the
            threads' explicit interests in first-occurrence order, EACH CHILD ONCE.
   [denote] depth-first pre-order; a child is visited iff some thread continues into it; links are crossed
            by loading.

   Choices where the prose specification is silent (each matches what the existing walk tests assume):
   the root is always visited; index/range clauses apply to lists only; a field clause "01" addresses list
   element 1 under the path segment "01"; an empty union visits its node as a candidate and explores
   nothing; entering a recursion whose sequence is dead still visits the node where it was entered. *)
Require Import IP.Base.Bytes IP.DM.Value IP.Base.GoSem IP.Trav.Selector IP.Trav.Walk.
Open Scope Z_scope.

Record frame := { fr_seq : sel; fr_lim : option Z; fr_stop : option bytes }.
Inductive thr := Thr (pos : sel) (fr : list frame).

Definition nop_thread (fr : list frame) : thr := Thr (SUnion []) fr.
Definition or_nop (fr : list frame) (l : list thr) : list thr := match l with [] => [nop_thread fr] | _ => l end.

(* closure with edges dead: right after a recursion was entered or re-entered *)
Fixpoint enter0 (s : sel) (fr : list frame) : list thr :=
  match s with
  | SUnion [] => [Thr s fr]
  | SUnion ms => (fix go (l : list sel) : list thr :=
                    match l with [] => [] | m :: t => enter0 m fr ++ go t end) ms
  | SRec sq _ lim stop =>
      let fr' := {| fr_seq := sq; fr_lim := lim; fr_stop := stop |} :: fr in
      or_nop fr' (enter0 sq fr')
  | SEdge => []
  | _ => [Thr s fr]
  end.

(* closure after a step was taken: edges are live *)
Fixpoint enter (s : sel) (fr : list frame) : list thr :=
  match s with
  | SUnion [] => [Thr s fr]
  | SUnion ms => (fix go (l : list sel) : list thr :=
                    match l with [] => [] | m :: t => enter m fr ++ go t end) ms
  | SRec sq _ lim stop =>
      let fr' := {| fr_seq := sq; fr_lim := lim; fr_stop := stop |} :: fr in
      or_nop fr' (enter0 sq fr')
  | SEdge =>
      match fr with
      | [] => []
      | f :: rest =>
          if exhausted (fr_lim f) then []
          else let fr' := {| fr_seq := fr_seq f; fr_lim := lim_pred (fr_lim f); fr_stop := fr_stop f |} :: rest in
               or_nop fr' (enter0 (fr_seq f) fr')
      end
  | _ => [Thr s fr]
  end.

Definition stopped (fr : list frame) (v : dm) : bool :=
  existsb (fun f => match fr_stop f with Some c => cond_match c v | None => false end) fr.

Definition is_list (n : dm) : bool := match n with DList _ => true | _ => false end.

(* one thread, one step: from node n to its child v under segment ps *)
Definition sstep (n : dm) (ps : seg) (v : dm) (t : thr) : list thr :=
  match t with
  | Thr pos fr =>
      if stopped fr v then [] else
      match pos with
      | SAll nx => enter nx fr
      | SFields fs => match assoc (seg_string ps) fs with Some nx => enter nx fr | None => [] end
      | SIndex i nx =>
          match seg_index ps with
          | Some a => if is_list n && (0 <=? i) && (a =? i) then enter nx fr else []
          | None => []
          end
      | SRange a b nx =>
          match seg_index ps with
          | Some i => if is_list n && (a <=? i) && (i <? b) then enter nx fr else []
          | None => []
          end
      | _ => []
      end
  end.

(* Subset matching, from Slice's documentation — written here independently of the code's sliceBounds:
   [from,to); negative values are offsets from the end (a negative from is clamped to 0); to is clamped to the
   length; from beyond the end or beyond to is a non-match.  Only strings and bytes can be sliced. *)
Definition slice_spec (from to len : Z) : bool * Z * Z :=
  let to' := if to <? 0 then len + to else Z.min to len in
  let from' := if from <? 0 then Z.max 0 (len + from) else from in
  if (from' >? to') || (from' >=? len) then (false, 0, 0) else (true, from', to').
Definition spec_slice_bytes (ft : Z * Z) (s : bytes) : option bytes :=
  match slice_spec (fst ft) (snd ft) (len64 s) with
  | (true, from, to) => Some (firstn (Z.to_nat (to - from)) (skipn (Z.to_nat from) s))
  | (false, _, _) => None
  end.
Definition spec_slice_node (ft : Z * Z) (n : dm) : option dm :=
  match n with
  | DString s => match spec_slice_bytes ft s with Some r => Some (DString r) | None => None end
  | DBytes s => match spec_slice_bytes ft s with Some r => Some (DBytes r) | None => None end
  | _ => None
  end.

Definition thr_match (t : thr) (n : dm) : option dm :=
  match t with
  | Thr (SMatch None) _ => Some n
  | Thr (SMatch (Some ft)) _ => spec_slice_node ft n
  | _ => None
  end.
Fixpoint smatch (ts : list thr) (n : dm) : option dm :=
  match ts with
  | [] => None
  | t :: r => match thr_match t n with Some m => Some m | None => smatch r n end
  end.

Definition thr_interests (t : thr) : option (list seg) :=
  match t with
  | Thr (SAll _) _ => None
  | Thr (SFields fs) _ => Some (map (fun kv => SegS (fst kv)) fs)
  | Thr (SIndex i _) _ => Some [seg_of_int i]
  | Thr (SRange a b _) _ => Some (range_segs a b)
  | _ => Some []
  end.
Fixpoint sinterests (ts : list thr) : option (list seg) :=
  match ts with
  | [] => Some []
  | t :: r => match thr_interests t, sinterests r with
              | Some a, Some b => Some (a ++ b)
              | _, _ => None
              end
  end.
Definition schildren (n : dm) (ts : list thr) : list (seg * dm) :=
  match sinterests ts with
  | None => kids n
  | Some attn => interest_kids n (dedup_segs [] attn)
  end.

Section Denote.
  Variable g : list (bytes * dm).

  Definition denote_step (rec : list bytes -> list seg -> dm -> list thr -> list event * outcome)
             (ls : list bytes) (P : list seg) (n : dm) (ts : list thr) (k : seg * dm) : list event * outcome :=
    match flat_map (sstep n (fst k) (snd k)) ts with
    | [] => ([], OOk)
    | ts' =>
        let P' := P ++ [fst k] in
        match snd k with
        | DLink c =>
            match assoc c g with
            | None => ([ELoad P' c ls], OErr WLoad)
            | Some b => let '(e, o) := rec (c :: ls) P' b ts' in (ELoad P' c ls :: e, o)
            end
        | v => rec ls P' v ts'
        end
    end.

  Fixpoint denote (f : nat) (ls : list bytes) (P : list seg) (n : dm) (ts : list thr) {struct f}
    : list event * outcome :=
    match f with
    | O => ([], OFuel)
    | S f' =>
        let ev := match smatch ts n with
                  | Some m => EVisit P m RMatch ls
                  | None => EVisit P n RCand ls
                  end in
        if is_container n then
          let '(e, o) := seqk (denote_step (denote f') ls P n ts) (schildren n ts) in (ev :: e, o)
        else ([ev], OOk)
    end.

  (* what the selector denotes on the graph, from the root *)
  Definition denote_sel (f : nat) (root : dm) (s : sel) : list event * outcome :=
    denote f [] [] root (enter s []).
End Denote.
