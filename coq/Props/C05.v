(* Props/C05.v — links are a function of value and prototype; store then load returns the value.
   Property theorems only; each closed by [exact] of a lemma proved in Proofs/LinkC05.v.
   [hasher_ok], [hash] (an arbitrary function) and the codec registry are universally quantified. *)
Require Import IP.Base.Bytes IP.DM.Value IP.Codec.Cbor IP.Link.LinkSys IP.Link.LinkSpec.
Require Import IP.Gen.FromGo IP.Proofs.CborEnc IP.Proofs.CborDec.
Require Import IP.Proofs.LinkBase IP.Proofs.LinkC06 IP.Proofs.LinkC05 IP.Proofs.LinkCbor.
Open Scope N_scope.

(* after any history of store / compute / load operations, Store returns (status and link) exactly
   what ComputeLink returns: no state of the link system or the storage enters the link *)
Theorem C05_store_eq_compute :
  forall (hasher_ok : N -> bool) (hash : N -> bytes -> bytes) (encoders decoders : N -> option codec)
         (sk : skind) (trusted : bool) (h : list lop) (lp : lproto) (v : dm),
    fst (store hasher_ok hash encoders true sk honest_w (snd (run hasher_ok hash encoders decoders true sk trusted [] h)) lp v) =
    compute hasher_ok hash encoders lp v.
Proof. exact store_eq_compute_history. Qed.
Print Assumptions C05_store_eq_compute.

(* ... and whatever the storage WRITER does during a Store (transient or sticky failures, short
   writes — the storage itself stays honest): a Store that reports Ok returns ComputeLink's result *)
Theorem C05_store_faulty_writer_eq_compute :
  forall (hasher_ok : N -> bool) (hash : N -> bytes -> bytes) (encoders : N -> option codec)
         (sk : skind) (w : wbeh) (st : storage) (lp : lproto) (v : dm),
    so_status (fst (store hasher_ok hash encoders true sk w st lp v)) = SOk ->
    fst (store hasher_ok hash encoders true sk w st lp v) = compute hasher_ok hash encoders lp v.
Proof. exact storeW_ok_eq_compute. Qed.
Print Assumptions C05_store_faulty_writer_eq_compute.

(* the link of (prototype, value) is the same after any two histories *)
Theorem C05_link_fn :
  forall (hasher_ok : N -> bool) (hash : N -> bytes -> bytes) (encoders decoders : N -> option codec)
         (sk : skind) (trusted : bool) (h1 h2 : list lop) (lp : lproto) (v : dm),
    fst (store hasher_ok hash encoders true sk honest_w (snd (run hasher_ok hash encoders decoders true sk trusted [] h1)) lp v) =
    fst (store hasher_ok hash encoders true sk honest_w (snd (run hasher_ok hash encoders decoders true sk trusted [] h2)) lp v).
Proof. exact link_fn_history. Qed.
Print Assumptions C05_link_fn.

(* for a codec whose encoder is insensitive to map entry order (the key-sorting DAG codecs), two
   values that differ only in entry order get the same link *)
Theorem C05_link_fn_perm :
  forall (hasher_ok : N -> bool) (hash : N -> bytes -> bytes) (encoders : N -> option codec)
         (same : dm -> dm -> Prop) (lp : lproto) (c : codec) (dom : dm -> Prop) (v1 v2 : dm),
    encoders (lp_codec lp) = Some c ->
    order_insensitive same c dom ->
    dom v1 -> dom v2 -> same v1 v2 ->
    compute hasher_ok hash encoders lp v1 = compute hasher_ok hash encoders lp v2.
Proof. exact link_fn_perm. Qed.
Print Assumptions C05_link_fn_perm.

(* invariant of every history from an empty store: each block sits under the key of a link that
   its bytes hash to *)
Theorem C05_blocks_ok :
  forall (hasher_ok : N -> bool) (hash : N -> bytes -> bytes) (encoders decoders : N -> option codec)
         (sk : skind) (tr : bool) (h : list lop),
    blocks_ok hash sk (snd (run hasher_ok hash encoders decoders true sk tr [] h)).
Proof. exact blocks_ok_history. Qed.
Print Assumptions C05_blocks_ok.

(* a link returned by a store anywhere in a history loads back, with every load form, as the
   decoding of exactly the bytes written, which hash to the link — provided no other store of the
   history put different bytes under the same storage key (possible only when (truncated) digests
   collide; see collision_possible in Proofs/LinkC05.v) *)
Theorem C05_store_load :
  forall (hasher_ok : N -> bool) (hash : N -> bytes -> bytes) (encoders decoders : N -> option codec)
         (sk : skind) (tr : bool) (h1 h2 : list lop) (lp : lproto) (v : dm) (l : link)
         (b : bytes) (f : lform) (cl : codec) (v' : dm) (e : bool),
    store_plan hasher_ok hash encoders lp v = Some (l, b) ->
    no_collision hasher_ok hash encoders sk (skey sk l) b (h1 ++ OStore lp v :: h2) ->
    decoders (lp_codec (link_proto l)) = Some cl ->
    c_dec cl b = Some (v', lenN b, e) ->
    let st := snd (run hasher_ok hash encoders decoders true sk tr [] (h1 ++ OStore lp v :: h2)) in
    load_any hasher_ok hash decoders f tr (honest_read sk st l) l = loaded f v' b /\ verify hash l b = VOk.
Proof. exact store_load. Qed.
Print Assumptions C05_store_load.

(* with the codec's round-trip law (decode (encode v) = canonical form of v, consuming everything)
   and a CIDv1 prototype: the node read back is the canonicalised value *)
Theorem C05_store_load_roundtrip :
  forall (hasher_ok : N -> bool) (hash : N -> bytes -> bytes) (encoders decoders : N -> option codec)
         (sk : skind) (tr : bool) (h1 h2 : list lop) (lp : lproto) (v : dm) (l : link)
         (b : bytes) (f : lform) (c : codec) (dom : dm -> Prop) (canon : dm -> dm),
    lp_version lp = 1 ->
    encoders (lp_codec lp) = Some c -> decoders (lp_codec lp) = Some c ->
    roundtrips c dom canon ->
    dom v ->
    store_plan hasher_ok hash encoders lp v = Some (l, b) ->
    no_collision hasher_ok hash encoders sk (skey sk l) b (h1 ++ OStore lp v :: h2) ->
    let st := snd (run hasher_ok hash encoders decoders true sk tr [] (h1 ++ OStore lp v :: h2)) in
    load_any hasher_ok hash decoders f tr (honest_read sk st l) l = loaded f (canon v) b /\
    verify hash l b = VOk.
Proof. exact store_load_roundtrip. Qed.
Print Assumptions C05_store_load_roundtrip.

(* BuildLink is idempotent through the link's own prototype (what makes a stored block verify) *)
Theorem C05_build_link_idem :
  forall (lp : lproto) (d : bytes) (l : link),
    build_link lp d = Some l -> build_link (link_proto l) d = Some l.
Proof. exact build_link_idem. Qed.
Print Assumptions C05_build_link_idem.

(* the round-trip law for the raw codec *)
Theorem C05_raw_roundtrips : roundtrips raw_codec (fun _ => True) (fun v => v).
Proof. exact raw_roundtrips. Qed.
Print Assumptions C05_raw_roundtrips.

(* ---- dag-cbor: the two codec laws are discharged against coq/Codec/Cbor.v by C02's theorems
   (encb_perm_invariant, decode_encode), so the statements below have no codec premise left *)

Theorem C05_dagcbor_order_insensitive :
  forall reject_tags : bool, order_insensitive perm_eq (dagcbor_codec reject_tags) keys_nodup.
Proof. exact dagcbor_order_insensitive. Qed.
Print Assumptions C05_dagcbor_order_insensitive.

Theorem C05_dagcbor_roundtrips :
  forall reject_tags : bool, roundtrips (dagcbor_codec reject_tags) dagcbor_dom (sort_maps rfc_ltb).
Proof. exact dagcbor_roundtrips. Qed.
Print Assumptions C05_dagcbor_roundtrips.

(* under any registry that maps 0x71 to dag-cbor (the default registry does), for any hash: values
   equal up to map entry order, with duplicate-free keys, get the same link *)
Theorem C05_dagcbor_link_fn_perm :
  forall (hasher_ok : N -> bool) (hash : N -> bytes -> bytes) (encoders : N -> option codec) (rt : bool),
    encoders 113 = Some (dagcbor_codec rt) ->
    forall (lp : lproto) (v1 v2 : dm),
      lp_codec lp = 113 -> keys_nodup v1 -> keys_nodup v2 -> perm_eq v1 v2 ->
      compute hasher_ok hash encoders lp v1 = compute hasher_ok hash encoders lp v2.
Proof. exact dagcbor_link_fn_perm. Qed.
Print Assumptions C05_dagcbor_link_fn_perm.

(* ... and a stored dag-cbor link (CIDv1) loads back, with every load form, as the value with its
   maps in RFC 7049 order and the stored bytes, which hash to the link *)
Theorem C05_dagcbor_store_load :
  forall (hasher_ok : N -> bool) (hash : N -> bytes -> bytes) (encoders decoders : N -> option codec) (rt : bool),
    encoders 113 = Some (dagcbor_codec rt) -> decoders 113 = Some (dagcbor_codec rt) ->
    forall (sk : skind) (tr : bool) (h1 h2 : list lop) (lp : lproto) (v : dm) (l : link) (b : bytes) (f : lform),
      lp_version lp = 1 -> lp_codec lp = 113 -> dagcbor_dom v ->
      store_plan hasher_ok hash encoders lp v = Some (l, b) ->
      no_collision hasher_ok hash encoders sk (skey sk l) b (h1 ++ OStore lp v :: h2) ->
      let st := snd (run hasher_ok hash encoders decoders true sk tr [] (h1 ++ OStore lp v :: h2)) in
      load_any hasher_ok hash decoders f tr (honest_read sk st l) l = loaded f (sort_maps rfc_ltb v) b /\
      verify hash l b = VOk.
Proof. exact dagcbor_store_load. Qed.
Print Assumptions C05_dagcbor_store_load.
