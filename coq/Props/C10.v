(* Props/C10.v — parsers are total and bounded (decoder part; the selector/path parts are added
   by the traversal cluster). Property theorems only. *)
Require Import IP.Base.Bytes IP.DM.Value IP.Codec.Cbor.
Require Import IP.Proofs.CborDec IP.Proofs.CborBound.
Open Scope N_scope.

(* Total: for every configuration and every byte string the DAG-CBOR decoder model returns a value
   or an error; the model's out-of-fuel outcome is unreachable and it has no Panic outcome at all
   (every Go-level panic site of the modelled code — slice bounds, nil dereference, huge make —
   is an explicit Err branch of the model, tied by the correspondence run under recover). *)
Theorem C10_decode_total : forall o bs, decode o bs <> Err DFuel.
Proof. exact decode_total. Qed.
Print Assumptions C10_decode_total.

(* Bounded: the nesting depth of anything accepted is within MaxDepth, and its allocation ledger
   (declared lengths, per-entry costs, string/bytes lengths — exactly what [cost] adds up, using the
   constants regenerated from unmarshal.go) is within AllocationBudget. *)
Theorem C10_decode_bounded : forall o bs v rest, decode o bs = Ok (v, rest) ->
  (0 <= max_depth o -> Z.of_nat (dm_depth v) <= max_depth o)%Z /\ (0 <= budget0 o -> cost v <= budget0 o)%Z.
Proof. exact decode_bounded. Qed.
Print Assumptions C10_decode_bounded.

(* the ledger really counts allocations: every list element / map entry / content byte costs >= 1 *)
Theorem C10_cost_counts_cells : forall l, (Z.of_nat (length l) <= cost (DList l))%Z.
Proof.
  intros l. cbn [cost]. unfold lenN.
  assert (0 <= fold_right (fun x a => IP.Gen.FromGo.go_listEntryCost + cost x + a) 0 l)%Z.
  { induction l as [|x r IH]; cbn [fold_right]; [lia|]. pose proof (cost_nonneg x). unfold IP.Gen.FromGo.go_listEntryCost in *. lia. }
  lia.
Qed.
Print Assumptions C10_cost_counts_cells.
