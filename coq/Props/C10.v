(* Props/C10.v — parsers are total and bounded (decoder part; the selector/path parts are added
   by the traversal cluster). Property theorems only. *)
Require Import IP.Base.Bytes IP.DM.Value IP.Codec.Cbor.
Require Import IP.Proofs.CborDec IP.Proofs.CborBound.
Open Scope N_scope.

(* Total: for every configuration and every byte string the DAG-CBOR decoder model returns a value
   or an error; the model's out-of-fuel outcome is unreachable and it has no Panic outcome at all
   (every Go-level panic site of the modelled code — slice bounds, nil dereference, huge make —
   is an explicit Err branch of the model, tied by the correspondence run under recover). *)
Theorem C10_decode_total : forall o bs, decode o bs <> Err DFuel.
Proof. exact decode_total. Qed.
Print Assumptions C10_decode_total.

(* Bounded: the nesting depth of anything accepted is within MaxDepth, and its allocation ledger
   (declared lengths, per-entry costs, string/bytes lengths — exactly what [cost] adds up, using the
   constants regenerated from unmarshal.go) is within AllocationBudget. *)
Theorem C10_decode_bounded : forall o bs v rest, decode o bs = Ok (v, rest) ->
  (0 <= max_depth o -> Z.of_nat (dm_depth v) <= max_depth o)%Z /\ (0 <= budget0 o -> cost v <= budget0 o)%Z.
Proof. exact decode_bounded. Qed.
Print Assumptions C10_decode_bounded.

(* the ledger really counts allocations: every list element / map entry / content byte costs >= 1 *)
Theorem C10_cost_counts_cells : forall l, (Z.of_nat (length l) <= cost (DList l))%Z.
Proof.
  intros l. cbn [cost]. unfold lenN.
  assert (0 <= fold_right (fun x a => IP.Gen.FromGo.go_listEntryCost + cost x + a) 0 l)%Z.
  { induction l as [|x r IH]; cbn [fold_right]; [lia|]. pose proof (cost_nonneg x). unfold IP.Gen.FromGo.go_listEntryCost in *. lia. }
  lia.
Qed.
Print Assumptions C10_cost_counts_cells.

(* ====================================================================================================
   Selector part (traversal cluster): selector compilation and selector walks are total.
   Models: Trav/Selector.v (compile = every Parse* function; Explore/Interests/Match), Trav/Walk.v (walk),
   Trav/Total.v (compile-time allocation of ranges, link-cycle freedom, sufficient fuel). *)
Require Import IP.Trav.Selector IP.Trav.Walk IP.Trav.Total IP.Proofs.TravDenote IP.Proofs.TravC07Refuted
  IP.Proofs.TravTotal.

(* Compilation ends, for every data-model value, in a closed well-formed selector, an error, or "unsupported"
   (ExploreInterpretAs is not modelled).  The model has no panic outcome for compilation: the Parse* functions
   contain exactly one Go panic site, the makeslice of ParseExploreRange, which is the subject of
   C10_compile_range_alloc_refuted below; every other failure path of Parse* is an explicit error return. *)
Theorem C10_compile_total : forall v,
  (exists s, compile v = COk s /\ srcw false s) \/ compile v = CErr \/ compile v = CUnsupported.
Proof. exact compile_outcomes. Qed.
Print Assumptions C10_compile_total.

(* ... and an error is never an artefact of the model's fuel: beyond the nesting depth of the declaration the
   result does not depend on the fuel *)
Theorem C10_compile_fuel_enough : forall v k,
  compile_f (S (dm_depth v) + k) false v = compile_f (S (dm_depth v)) false v.
Proof. exact compile_fuel_enough. Qed.
Print Assumptions C10_compile_fuel_enough.

(* The walk of ANY selector over ANY graph without a link cycle (every content-addressed graph) and any root, with
   fuel >= walk_fuel g root = depth(root)+1 + |g|*(deepest block+1), ends in a result or an error: never in Panic
   and never out of fuel — for the advanced and the matching walk, for every setting of the C07 switches in which
   ExploreRecursiveEdge.Explore does not panic (the repaired model, and the tree since b8b93dd; for the earlier
   code the panic is C07_refuted_bare_edge_panic). *)
Theorem C10_walk_total : forall q, q_bare_edge_panic q = false -> forall g root s f,
  chain_ok g (length g) root = true -> (walk_fuel g root <= f)%nat ->
  total_outcome (snd (walk_adv q g f root s)) /\ total_outcome (snd (walk_matching q g f root s)).
Proof. exact walk_total. Qed.
Print Assumptions C10_walk_total.

Theorem C10_explore_no_panic : forall q, q_bare_edge_panic q = false ->
  forall s n p, explore q s n p <> XPanic.
Proof. exact explore_no_panic. Qed.
Print Assumptions C10_explore_no_panic.

Theorem C10_walk_total_hypotheses_satisfiable :
  let g := [([1; 113; 18; 1; 170]%N, DMap [([118%N], DInt 7)])] in
  let root := DMap [([97%N], DLink [1; 113; 18; 1; 170]%N); ([98%N], DList [DInt 1; DLink [1; 113; 18; 1; 170]%N])] in
  chain_ok g (length g) root = true /\ walk_fuel g root = 5%nat /\
  chain_ok [([1%N], DList [DLink [1%N]])] 1 (DLink [1%N]) = false.
Proof. exact walk_total_example. Qed.
Print Assumptions C10_walk_total_hypotheses_satisfiable.

(* Bounded?  NO for compilation as coded: ParseExploreRange materialises end-start path segments, so a declaration
   of 6 nodes makes the compiler allocate K segments for every K (24 bytes each; a fatal out-of-memory for
   2^40, a makeslice panic when the int64 capacity wraps) — allocation proportional to an attacker-chosen number. *)
Theorem C10_range_interests_length : forall a b nx l,
  interests (SRange a b nx) = Some l -> length l = Z.to_nat (b - a).
Proof. exact range_interests_length. Qed.
Print Assumptions C10_range_interests_length.

Theorem C10_compile_range_alloc_refuted : forall K, (0 < K < int64_lim)%Z ->
  exists s, compile (d_range 0 K d_match) = COk s /\ dm_nodes (d_range 0 K d_match) = 6%nat /\ compile_alloc s = K.
Proof. exact compile_alloc_unbounded. Qed.
Print Assumptions C10_compile_range_alloc_refuted.

Theorem C10_compile_range_alloc_witnesses :
  (exists s, compile (d_range 0 1099511627776 d_match) = COk s /\ compile_alloc s = 1099511627776%Z) /\
  (exists s, compile (d_range (-9223372036854775808) 9223372036854775807 d_match) = COk s /\
             range_cap_panics (-9223372036854775808) 9223372036854775807 = true /\
             compile_alloc s = 18446744073709551615%Z).
Proof. exact range_alloc_witnesses. Qed.
Print Assumptions C10_compile_range_alloc_witnesses.

(* ====================================================================================================
   DAG-JSON part (json cluster): the dag-json / json decoder is total and bounded.
   Model: Codec/DagJson.v (refmt JSON tokenizer + dagjson unmarshal with its look-ahead window + Decode),
   proofs: Proofs/JsonTotal.v.  strconv.ParseFloat and cid.Decode are universally quantified functions. *)
Require Import IP.Codec.DagJson IP.Proofs.JsonTotal.

(* Total: for every option setting, every byte list and every behaviour of ParseFloat / cid.Decode the decoder
   model ends in a value or an error.  Its two abnormal outcomes are unreachable: JDFuel (out of fuel) and
   JDStale (a look-ahead slot read before it was filled: ensure(k) is only ever called with k-1 slots filled).
   Measure: mu = tokens held in the look-ahead window + unread input bytes; every token costs >= 1 byte and
   every value >= 1 token, unmarshal needs fuel 2*mu + 2, the model supplies 3*|input| + 4.
   The model has no panic outcome: the modelled Go code indexes only the fixed 7-slot window at constant
   indices and its panic("unreachable") statements sit behind exhaustive switches; tied by the recover()-wrapped run. *)
Theorem C10_json_decode_total : forall parse_float cid_parse o bs,
  jdecode parse_float cid_parse o bs <> Err JDFuel /\ jdecode parse_float cid_parse o bs <> Err JDStale.
Proof. exact json_decode_total. Qed.
Print Assumptions C10_json_decode_total.

(* Bounded: whatever is accepted nests at most MaxDepth deep (default go_json_defaultMaxDepth, regenerated from
   codec/dagjson/unmarshal.go) and has at most one node per input byte.  The Go dag-json decoder has NO
   allocation budget (unlike dag-cbor): JSON carries no length claims, so allocation is bounded by the input
   length alone, which is what the node bound states. *)
Theorem C10_json_decode_bounded : forall parse_float cid_parse o bs v rest,
  jdecode parse_float cid_parse o bs = Ok (v, rest) ->
  (Z.of_nat (dm_depth v) <= jmax_depth o)%Z /\ (jnodes v <= length bs)%nat.
Proof. exact json_decode_bounded. Qed.
Print Assumptions C10_json_decode_bounded.

(* non-vacuity: 1024 nested lists are accepted with depth 1024 under the default options, 1025 are rejected with
   the depth error; same at a configured MaxDepth of 3, where the reserved bytes form counts as one level *)
Theorem C10_json_depth_limit_witnesses :
  (exists v, jdecode no_float no_cid dagjson_dopts (nest 1024 []) = Ok (v, []) /\ dm_depth v = 1024%nat) /\
  jdecode no_float no_cid dagjson_dopts (nest 1025 []) = Err JDDepth /\
  (exists v, jdecode no_float no_cid {| jd_links := true; jd_bytes := true; jd_dont_parse_beyond := false; jd_max_depth := 3 |}
               (nest 3 [49]) = Ok (v, []) /\ dm_depth v = 3%nat) /\
  jdecode no_float no_cid {| jd_links := true; jd_bytes := true; jd_dont_parse_beyond := false; jd_max_depth := 3 |}
    (nest 4 [49]) = Err JDDepth /\
  jdecode no_float no_cid {| jd_links := true; jd_bytes := true; jd_dont_parse_beyond := false; jd_max_depth := 3 |}
    (nest 3 [123; 34; 47; 34; 58; 123; 34; 98; 121; 116; 101; 115; 34; 58; 34; 89; 81; 34; 125; 125]) = Err JDDepth /\
  jdecode no_float no_cid {| jd_links := true; jd_bytes := true; jd_dont_parse_beyond := false; jd_max_depth := 3 |}
    (nest 2 [123; 34; 47; 34; 58; 123; 34; 98; 121; 116; 101; 115; 34; 58; 34; 89; 81; 34; 125; 125]) = Ok (DList [DList [DBytes [97]]], []).
Proof. exact json_depth_limit_example. Qed.
Print Assumptions C10_json_depth_limit_witnesses.
