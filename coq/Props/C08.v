(* Props/C08.v — type-level and representation views of a typed node obey the schema's strategy.
   Property theorems only; proofs are in Proofs/Schema*.v.
   Model: Schema/Sem.v (engines), Schema/Conform.v (specification), Schema/Types.v (wf). *)
Require Import IP.Base.Bytes IP.DM.Value IP.Schema.Types IP.Schema.View IP.Schema.Conform IP.Schema.Sem
  IP.Proofs.SchemaBuild IP.Proofs.SchemaRepr IP.Proofs.SchemaRefute IP.Proofs.SchemaTop IP.Proofs.SchemaCopy IP.Schema.Perm IP.Proofs.SchemaPerm.
Require Import IP.Codec.Cbor IP.Proofs.CborEnc IP.Proofs.CborDec IP.Proofs.SchemaCbor.

(* every strategy: the representation view is the canonical view of the specified representation, its
   data is the specified representation, and the type-level view is the specified one.
   [views_off e q]: the four view defects are off for engine e (true of (Bind, qoff) and of Gen). *)
Theorem C08_views : forall e q t v, views_off e q -> on e q q_union_any = false ->
  wf t = true -> has_type t v = true ->
  repr_view e q t v = ov_of_dm (repr_spec t v) /\
  repr e q t v = Some (repr_spec t v) /\
  type_view e q t v = tview_spec t v.
Proof. exact views_top. Qed.
Print Assumptions C08_views.

Theorem C08_views_bind : views_off Bind qoff /\ on Bind qoff q_union_any = false.
Proof. split; [exact views_off_bind|reflexivity]. Qed.
Print Assumptions C08_views_bind.

(* both build routes rebuild the value, on both engines, for every strategy *)
Theorem C08_two_routes : forall e t v, (e = Bind \/ e = Gen) -> wf t = true -> has_type t v = true ->
  tbuild e qoff t (tdm_spec t v) = BOk v /\ rbuild e qoff t (repr_spec t v) = BOk v /\
  conforms_t t (tdm_spec t v) = Some v /\ conforms_r t (repr_spec t v) = Some v.
Proof. exact two_routes_top. Qed.
Print Assumptions C08_two_routes.

(* the literal form: copy either view of the node (datamodel.Copy skips absent struct fields) and feed
   the builder of that level *)
Theorem C08_two_routes_views : forall e t v, (e = Bind \/ e = Gen) -> wf t = true -> has_type t v = true ->
  (exists d, ov_copy (type_view e qoff t v) = Some d /\ tbuild e qoff t d = BOk v) /\
  (exists d, ov_copy (repr_view e qoff t v) = Some d /\ rbuild e qoff t d = BOk v).
Proof. exact two_routes_views. Qed.
Print Assumptions C08_two_routes_views.

(* bytes, over any codec, for representations the codec reproduces exactly (maps in canonical order) *)
Theorem C08_bytes_partial : forall (encode : dm -> option bytes) (decode : bytes -> option dm) e t v bs,
  (e = Bind \/ e = Gen) -> wf t = true -> has_type t v = true ->
  reproduced encode decode (repr_spec t v) ->
  match repr e qoff t v with Some d => encode d | None => None end = Some bs ->
  exists d', decode bs = Some d' /\ rbuild e qoff t d' = BOk v /\
             match repr e qoff t v with Some d => encode d | None => None end = Some bs.
Proof. exact bytes_top. Qed.
Print Assumptions C08_bytes_partial.

(* bytes, in full: over any codec that gives a tree back up to the order of map entries ([peq]) and whose
   encoding of a value does not depend on that order (for dag-cbor these two hypotheses are C02_roundtrip
   and C02_order_independent): encode the representation, decode, feed the representation builder — the
   result is v up to the entry order of typed maps and of Any content ([veq]), it is a value of the type,
   and its representation encodes to the same bytes *)
Theorem C08_bytes : forall (encode : dm -> option bytes) (decode : bytes -> option dm),
  (forall d bs, dm_wf d = true -> encode d = Some bs -> exists d', decode bs = Some d' /\ peq d d') ->
  (forall d d', dm_wf d = true -> peq d d' -> encode d = encode d') ->
  forall e t v bs, (e = Bind \/ e = Gen) -> wf t = true -> has_type t v = true ->
    encode (repr_spec t v) = Some bs ->
    exists d' v', decode bs = Some d' /\ rbuild e qoff t d' = BOk v' /\ veq v v' /\ has_type t v' = true /\
                  repr e qoff t v' = Some (repr_spec t v') /\ encode (repr_spec t v') = Some bs.
Proof. exact bytes_full. Qed.
Print Assumptions C08_bytes.

(* the statement about the unchanged tree is false (witnesses below) *)
Definition C08_full : Prop :=
  forall t v, wf t = true -> has_type t v = true ->
    repr_view Bind pinned t v = ov_of_dm (repr_spec t v) /\ rbuild Bind pinned t (repr_spec t v) = BOk v.
Theorem C08_full_refuted : ~ C08_full.
Proof.
  intros H. destruct refuted_listpairs_iter_index as [Hwf [Hh Hn]]. exact (Hn (proj1 (H _ _ Hwf Hh))).
Qed.
Print Assumptions C08_full_refuted.

(* the hypotheses are satisfiable, and the theorems compute on a deep example *)
Theorem C08_example : has_type tBig vBig = true /\ wf tBig = true /\
  rbuild Bind qoff tBig (repr_spec tBig vBig) = BOk vBig.
Proof. vm_compute. auto. Qed.
Print Assumptions C08_example.

(* the unchanged tree: one witness per confirmed view defect *)
Theorem C08_refuted_listpairs_iter_index :
  view_deviates tLP (VStruct [MAbsent; MVal (VString sq); MVal (VInt 1)]).
Proof. exact refuted_listpairs_iter_index. Qed.
Theorem C08_refuted_kinded_enum_kind : view_deviates tKE (VUnion 0 (VEnum nAa)).
Proof. exact refuted_kinded_enum_kind. Qed.
Theorem C08_refuted_kinded_len : view_deviates tKD (VUnion 2 vSM).
Proof. exact refuted_kinded_len. Qed.
Theorem C08_refuted_union_any : view_deviates tUA (VUnion 0 (VAny (DString sx))).
Proof. exact refuted_union_any. Qed.
Theorem C08_refuted_two_routes :
  wf tNL = true /\ has_type tNL (VList [MVal (VUnion 0 (VInt 1)); MNull]) = true /\
  rbuild Bind pinned tNL (repr_spec tNL (VList [MVal (VUnion 0 (VInt 1)); MNull])) = BPanic.
Proof. exact refuted_two_routes. Qed.
Print Assumptions C08_refuted_two_routes.

(* ---- the bytes clause over the concrete DAG-CBOR codec of Codec/Cbor.v (the model the C02/C03
   correspondence ties to codec/dagcbor); proofs in Proofs/SchemaCbor.v ---- *)
(* encode the representation of a typed value with the registered encoder, decode with the registered
   decoder, feed the representation builder: the value comes back up to the entry order of typed maps and
   Any content, is a value of the type, and its representation encodes to the same bytes — for every
   wf type, every value of it, both engines, every decoder configuration that allows links, whenever the
   representation is within that configuration's limits *)
Theorem C08_bytes_dagcbor : forall e o t v,
  (e = Bind \/ e = Gen) -> wf t = true -> has_type t v = true ->
  d_allow_links o = true -> within_limits o (repr_spec t v) ->
  exists d' v', decode o (cbor_bytes (repr_spec t v)) = Ok (d', []) /\
                rbuild e qoff t d' = BOk v' /\ veq v v' /\ has_type t v' = true /\
                repr e qoff t v' = Some (repr_spec t v') /\
                cbor_bytes (repr_spec t v') = cbor_bytes (repr_spec t v).
Proof. exact typed_dagcbor_roundtrip. Qed.
Print Assumptions C08_bytes_dagcbor.

(* dag-cbor meets the two hypotheses C08_bytes makes of "any codec", on every tree within the limits *)
Theorem C08_dagcbor_is_such_a_codec : forall o d d', d_allow_links o = true -> within_limits o d ->
  (exists d1, decode o (cbor_bytes d) = Ok (d1, []) /\ peq d d1) /\
  (dm_wf d = true -> peq d d' -> cbor_bytes d = cbor_bytes d').
Proof. intros o d d' Hl Hw. split; [exact (dagcbor_dec_enc o d Hl Hw)|exact (dagcbor_enc_peq d d')]. Qed.
Print Assumptions C08_dagcbor_is_such_a_codec.

(* the premises are satisfiable: the deep example type and value are within the default limits *)
Theorem C08_bytes_dagcbor_example :
  wf tBig = true /\ has_type tBig vBig = true /\ within_limits (dagcbor_dopts true) (repr_spec tBig vBig).
Proof.
  split; [vm_compute; reflexivity|]. split; [vm_compute; reflexivity|].
  unfold within_limits. split; [|split; vm_compute; discriminate].
  exact within_big.
Qed.
Print Assumptions C08_bytes_dagcbor_example.

(* ====================================================================================================
   DAG-JSON instance (json cluster): the typed round trip over the concrete DAG-JSON model
   (Codec/DagJson.v; proofs Proofs/SchemaJson.v over Proofs/JsonPerm.v, from C04's theorems).
   Hypotheses that remain, as premises (definitions at the end of Proofs/JsonMain.v, sampled on the real
   code by ./check C04):  A1  strconv.ParseFloat inverts refmt's emitFloat on finite floats;
                          A2  emitFloat's text is a JSON number with '.'/exponent iff the float is not an
                              integer below 1e21;
                          CID cid.Decode inverts Cid.String() on defined CIDs, CID strings are valid UTF-8.
   json_within cid_ok d  =  json_safe cid_ok nonintegral d = true /\ jdepth d <= 1024: dag-json's domain
   (finite floats none of which is an integer below 1e21 — the known C04 finding float_integral_text —,
   valid UTF-8 strings and keys, int64 ints, defined CIDs, distinct keys, none of the two reserved shapes
   {"/":string} / {"/":{"bytes":string}} inside Any content, decoder depth within the default limit). *)
Require Import IP.Codec.DagJson IP.Proofs.JsonMain IP.Proofs.JsonPerm IP.Proofs.SchemaJson.

Theorem C08_bytes_dagjson : forall fmt_float parse_float cid_str cid_parse cid_ok,
  JsonMain.A1 fmt_float parse_float -> JsonMain.A2 fmt_float -> JsonMain.CID cid_str cid_parse cid_ok ->
  forall e t v,
  (e = Bind \/ e = Gen) -> wf t = true -> has_type t v = true ->
  json_within cid_ok (repr_spec t v) ->
  exists d' v', json_decode parse_float cid_parse (json_enc fmt_float cid_str (repr_spec t v)) = Ok (d', []) /\
                rbuild e qoff t d' = BOk v' /\ veq v v' /\ has_type t v' = true /\
                repr e qoff t v' = Some (repr_spec t v') /\
                json_enc fmt_float cid_str (repr_spec t v') = json_enc fmt_float cid_str (repr_spec t v).
Proof. exact typed_dagjson_roundtrip. Qed.
Print Assumptions C08_bytes_dagjson.

(* json_enc is what the registered encoder writes, for every tree it accepts *)
Theorem C08_dagjson_encoder : forall fmt_float cid_str cid_ok d, JsonEnc.encodable cid_ok d = true ->
  jenc fmt_float cid_str dagjson_eopts cid_ok d = Ok (json_enc fmt_float cid_str d).
Proof. exact json_enc_is_encode. Qed.
Print Assumptions C08_dagjson_encoder.

(* dag-json meets the two hypotheses C08_bytes makes of "any codec", on every tree of its domain *)
Theorem C08_dagjson_is_such_a_codec : forall fmt_float parse_float cid_str cid_parse cid_ok,
  JsonMain.A1 fmt_float parse_float -> JsonMain.A2 fmt_float -> JsonMain.CID cid_str cid_parse cid_ok ->
  forall d d', json_within cid_ok d ->
  (exists d1, json_decode parse_float cid_parse (json_enc fmt_float cid_str d) = Ok (d1, []) /\ peq d d1) /\
  (dm_wf d = true -> peq d d' -> json_enc fmt_float cid_str d = json_enc fmt_float cid_str d').
Proof.
  intros fmt_float parse_float cid_str cid_parse cid_ok H1 H2 H3 d d' Hw.
  split; [exact (dagjson_dec_enc fmt_float parse_float cid_str cid_parse cid_ok H1 H2 H3 d Hw)|exact (dagjson_enc_peq fmt_float cid_str d d')].
Qed.
Print Assumptions C08_dagjson_is_such_a_codec.

(* the premises are satisfiable: the deep example type and value are in dag-json's domain (for any notion of
   defined CID), and A1, A2, CID have a model (C04_assumptions_consistent) *)
Theorem C08_bytes_dagjson_example : forall cid_ok,
  wf tBig = true /\ has_type tBig vBig = true /\ json_within cid_ok (repr_spec tBig vBig).
Proof.
  intros cid_ok. split; [vm_compute; reflexivity|]. split; [vm_compute; reflexivity|].
  split; [vm_compute; reflexivity|vm_compute; discriminate].
Qed.
Print Assumptions C08_bytes_dagjson_example.
