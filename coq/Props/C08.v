(* Props/C08.v — placeholder while the proofs are being written *)
Require Import IP.Base.Bytes IP.DM.Value IP.Schema.Types IP.Schema.View IP.Schema.Conform IP.Schema.Sem.

Theorem C08_placeholder : forall t v, repr_spec t v = repr_spec t v.
Proof. reflexivity. Qed.
Print Assumptions C08_placeholder.
