(* Props/C11.v — a finished node never changes; reads are repeatable.
   Property theorems only: each is closed by [exact] of a lemma proved in coq/Proofs/Heap*.v.

   Model: coq/Heap/GoMem.v (heap, append semantics, readers), coq/Heap/BasicHeap.v (node/basicnode
   and the subset matcher as heap programs), coq/Heap/Script.v (library clients as API call sequences).
   A history is a list of API calls ([prim]) whose operands are the handles earlier calls returned.
   [legalh] = the call orders the builder contract allows (no Begin on a finished assembler, no
   second Assign on a scalar builder, no Build before Assign) and no caller writes into byte slices.
   [read_obs ps r a] = what accessor [a] of node [r] returns in state [ps]. *)
Require Import IP.Base.Bytes IP.DM.Value IP.Heap.GoMem IP.Heap.BasicHeap.
Require Import IP.Heap.Script.
Require Import IP.Proofs.HeapMem IP.Proofs.HeapLogic IP.Proofs.HeapOps IP.Proofs.HeapPrims IP.Proofs.HeapC11 IP.Proofs.HeapScript IP.Proofs.HeapReaders IP.Proofs.HeapEngine.
From Coq Require Import List ZArith Bool.
Import ListNotations.
Local Open Scope nat_scope.

(* The full statement: for every Legal history, every node handed out during a prefix of it, and
   every accessor, the read returns the same before and after the rest of the history. *)
Definition C11_full (cf : cfg) : Prop :=
  forall hs1 hs2, legalh cf pinit (hs1 ++ hs2) = true ->
  forall r, known_b (kn (runh cf pinit hs1)) (HNode r) = true ->
  forall a, read_obs cf (runh cf pinit hs1) r a = read_obs cf (runh cf pinit (hs1 ++ hs2)) r a.

(* It holds — for every append growth policy — once streamBytes reads are position-independent
   (the repaired tree: fixes/streambytes-rewind.diff). *)
Theorem C11_stable : forall cf, cf_stream_shared cf = false -> C11_full cf.
Proof. intros cf H hs1 hs2 Hl r Hk a. apply stable_gen; auto. Qed.
Print Assumptions C11_stable.

(* On the pinned tree it holds for every accessor except AsBytes / AsLargeBytes of a streamBytes
   node (in particular for every node that is not a streamBytes, and for Kind, Length, lookups and
   iteration of every node). *)
Theorem C11_stable_partial : forall cf hs1 hs2, legalh cf pinit (hs1 ++ hs2) = true ->
  forall r, known_b (kn (runh cf pinit hs1)) (HNode r) = true ->
  forall a, stream_acc r a = false ->
  read_obs cf (runh cf pinit hs1) r a = read_obs cf (runh cf pinit (hs1 ++ hs2)) r a.
Proof. intros cf hs1 hs2 Hl r Hk a Hs. apply stable_gen; auto. Qed.
Print Assumptions C11_stable_partial.

(* Two reads of the same accessor are equal (the second read is performed in the state the first left). *)
Theorem C11_repeat : forall cf, cf_stream_shared cf = false ->
  forall hs, legalh cf pinit hs = true ->
  forall r, known_b (kn (runh cf pinit hs)) (HNode r) = true ->
  forall a, read_obs cf (runh cf pinit hs) r a =
            read_obs cf (fst (pstep cf (runh cf pinit hs) (PRead (HNode r) a))) r a.
Proof. intros cf H hs Hl r Hk a. apply repeat_gen; auto. Qed.
Print Assumptions C11_repeat.

Theorem C11_repeat_partial : forall cf hs, legalh cf pinit hs = true ->
  forall r, known_b (kn (runh cf pinit hs)) (HNode r) = true ->
  forall a, stream_acc r a = false ->
  read_obs cf (runh cf pinit hs) r a =
  read_obs cf (fst (pstep cf (runh cf pinit hs) (PRead (HNode r) a))) r a.
Proof. intros cf hs Hl r Hk a Hs. apply repeat_gen; auto. Qed.
Print Assumptions C11_repeat_partial.

(* The ownership invariant behind both: along every Legal history there is a tagging of the heap
   under which every backing array / map / struct is either owned by exactly one unfinished assembler
   or frozen, frozen cells refer to frozen cells only, and every node the client holds is frozen. *)
Theorem C11_ownership_invariant : forall cf hs, legalh cf pinit hs = true ->
  exists tg, Inv tg (hp (runh cf pinit hs)) /\
             Forall (fun hd => handle_ok hd tg (hp (runh cf pinit hs))) (kn (runh cf pinit hs)).
Proof. exact legal_history_invariant. Qed.
Print Assumptions C11_ownership_invariant.

(* What the harness runs is covered: the library's clients as modelled in coq/Heap/Script.v
   (datamodel.Copy, FocusedTransform, value producers / decoders, encode, walk, the dumper, with the
   re-dump of every register after every step) only make API calls, so every script whose legality
   flag is still true is a Legal history … *)
Theorem C11_scripts_are_legal_histories : forall cf os,
  slegal (run_script cf sinit os) = true ->
  exists hs, legalh cf pinit hs = true /\ runh cf pinit hs = fst (sx (run_script cf sinit os)).
Proof. exact script_is_legal_history. Qed.
Print Assumptions C11_scripts_are_legal_histories.

(* … and a node read after a prefix of a script reads the same after the whole script. *)
Theorem C11_script_stable : forall cf os1 os2,
  slegal (run_script cf sinit (os1 ++ os2)) = true ->
  forall r, known_b (kn (fst (sx (run_script cf sinit os1)))) (HNode r) = true ->
  forall a, cf_stream_shared cf = false \/ stream_acc r a = false ->
  read_obs cf (fst (sx (run_script cf sinit os1))) r a = read_obs cf (fst (sx (run_script cf sinit (os1 ++ os2)))) r a.
Proof. exact script_stable. Qed.
Print Assumptions C11_script_stable.

(* ---- readers handed out by AsLargeBytes (reader-level operations: Read(n), Seek, several alive) ---- *)

(* Full statement: a handed-out reader is moved only by the reads and seeks made on it; whatever
   other readers (of the same node or of others), accessors, subset matches and builders do in
   between, its cell is untouched.  [touches x p] (coq/Proofs/HeapReaders.v) = "p is a Read or Seek
   on the reader in cell x". *)
Definition C11_readers_full (cf : cfg) : Prop :=
  forall hs1 hs2, legalh cf pinit (hs1 ++ hs2) = true ->
  forall x, known_b (kn (runh cf pinit hs1)) (HReader x) = true ->
  forallb (fun p => negb (touches x p)) hs2 = true ->
  hget (hp (runh cf pinit (hs1 ++ hs2))) x = hget (hp (runh cf pinit hs1)) x.

(* It holds on the repaired configuration (every append growth policy, either map-copy behaviour).
   Proof (coq/Proofs/HeapReaders.v): every call other than Read/Seek on a handed-out reader has a store
   footprint that contains no store of a reader value into an existing cell (prim_nrw); every
   handed-out reader is a bytes.Reader or a streamCursor, whose Read/Seek store to their own cell only
   (RInv, preserved by every Legal call: rinv_step); the ownership invariant says the cell still holds a
   reader afterwards; a cell that holds a reader before and after such a call was not stored to. *)
Theorem C11_reader_independent : forall cf, cf_stream_shared cf = false -> C11_readers_full cf.
Proof. exact reader_independent. Qed.
Print Assumptions C11_reader_independent.

(* The same with the ghost write counter: the cell was not even stored to. *)
Theorem C11_reader_untouched : forall cf, cf_stream_shared cf = false -> forall hs1 hs2,
  legalh cf pinit (hs1 ++ hs2) = true ->
  forall x, known_b (kn (runh cf pinit hs1)) (HReader x) = true ->
  forallb (fun p => negb (touches x p)) hs2 = true ->
  hgetv (hp (runh cf pinit (hs1 ++ hs2))) x = hgetv (hp (runh cf pinit hs1)) x.
Proof. exact reader_untouched. Qed.
Print Assumptions C11_reader_untouched.

(* One call: in any state that satisfies the ownership invariant and in which every reader the client
   holds is a leaf reader (both hold along every Legal history: C11_ownership_invariant,
   C11_readers_are_leaves), a Legal call that is not a Read/Seek on x has no store to x in its access log. *)
Theorem C11_reader_step_footprint : forall cf tg ps p x, cf_stream_shared cf = false ->
  SInv tg ps -> RInv ps -> legal ps p = true ->
  known_b (kn ps) (HReader x) = true -> touches x p = false ->
  hgetv (hp (fst (pstep cf ps p))) x = hgetv (hp ps) x /\ ~ In x (stores (call_log cf ps p)).
Proof. exact reader_untouched_step. Qed.
Print Assumptions C11_reader_step_footprint.

Theorem C11_readers_are_leaves : forall cf, cf_stream_shared cf = false -> forall hs tg ps,
  SInv tg ps -> RInv ps -> legalh cf ps hs = true ->
  exists tg', SInv tg' (runh cf ps hs) /\ RInv (runh cf ps hs).
Proof. exact runh_rinv. Qed.
Print Assumptions C11_readers_are_leaves.

(* Hence the oracle of the harness: the bytes a cursor yields next are content[off:] for the offset
   its OWN reads and seeks left — nothing done in between by anyone else enters. *)
Theorem C11_reader_next_read : forall cf, cf_stream_shared cf = false -> forall hs1 hs2,
  legalh cf pinit (hs1 ++ hs2) = true ->
  forall x src off, known_b (kn (runh cf pinit hs1)) (HReader x) = true ->
  hget (hp (runh cf pinit hs1)) x = Some (CRdr (RdCursor src off)) ->
  forallb (fun p => negb (touches x p)) hs2 = true ->
  forall k c, source_content (runh cf pinit hs1) src = Done c ->
    snd (pstep cf (runh cf pinit (hs1 ++ hs2)) (PReaderRead (HReader x) k))
      = RDone (PAcc (XBytes (take_k k (skipn off c)) None)).
Proof. exact reader_next_read. Qed.
Print Assumptions C11_reader_next_read.

(* What holds on EVERY configuration (on the pinned one only for cursors, which it never hands out):
   along a Legal history a cursor stays a cursor over the same source, the content that source
   denotes does not change, and a read yields exactly content[offset:] of the cursor's own offset. *)
Theorem C11_reader_independent_partial : forall cf hs1 hs2,
  legalh cf pinit (hs1 ++ hs2) = true ->
  forall x src o1,
  known_b (kn (runh cf pinit hs1)) (HReader x) = true ->
  hget (hp (runh cf pinit hs1)) x = Some (CRdr (RdCursor src o1)) ->
  exists o2,
    hget (hp (runh cf pinit (hs1 ++ hs2))) x = Some (CRdr (RdCursor src o2)) /\
    source_content (runh cf pinit (hs1 ++ hs2)) src = source_content (runh cf pinit hs1) src /\
    forall k c, source_content (runh cf pinit (hs1 ++ hs2)) src = Done c ->
      snd (pstep cf (runh cf pinit (hs1 ++ hs2)) (PReaderRead (HReader x) k))
        = RDone (PAcc (XBytes (take_k k (skipn o2 c)) None)).
Proof. exact reader_independent_partial. Qed.
Print Assumptions C11_reader_independent_partial.

Definition w_slice8 : slice := {| s_arr := Some (0, 0); s_off := 0; s_len := 8; s_cap := 8 |}.

(* repaired configuration: reader (0,2) reads 3 bytes, a second reader of the same node seeks to the
   end, the first goes on and gets the rest *)
Definition w_readers : list prim :=
  [PNewSlice [97; 98; 99; 100; 101; 102; 103; 104]%N; PNewStreamNode (HSlice w_slice8);
   PLargeBytes (HNode (RStream (0, 1))); PReaderRead (HReader (0, 2)) (Some 3);
   PLargeBytes (HNode (RStream (0, 1))); PReaderSeek (HReader (0, 3)) 0 SeekEnd].

Example C11_readers_independent_repaired :
  legalh cfg_repaired pinit w_readers = true /\
  hget (hp (runh cfg_repaired pinit w_readers)) (0, 2) = Some (CRdr (RdCursor (0, 1) 3)) /\
  snd (pstep cfg_repaired (runh cfg_repaired pinit w_readers) (PReaderRead (HReader (0, 2)) None))
    = RDone (PAcc (XBytes [100; 101; 102; 103; 104]%N None)).
Proof. vm_compute. repeat split. Qed.

(* the hypotheses of C11_reader_independent are satisfiable by two interleaved readers: reader
   A = (0,2) has read 3 bytes; then a second reader B = (0,3) of the same node is handed out, reads,
   the node is read through AsBytes and through a subset match, B seeks to the end and reads again
   — A's cell (content and write counter) is what it was, B has moved, and A goes on at "d" *)
Definition w_two_1 : list prim :=
  [PNewSlice [97; 98; 99; 100; 101; 102; 103; 104]%N; PNewStreamNode (HSlice w_slice8);
   PLargeBytes (HNode (RStream (0, 1))); PReaderRead (HReader (0, 2)) (Some 3)].
Definition w_two_2 : list prim :=
  [PLargeBytes (HNode (RStream (0, 1))); PReaderRead (HReader (0, 3)) (Some 2);
   PRead (HNode (RStream (0, 1))) ABytes; PMatchSubset (HNode (RStream (0, 1))) 1 5;
   PRead (HNode (RStream (0, 4))) ALarge;
   PReaderSeek (HReader (0, 3)) 0 SeekEnd; PReaderRead (HReader (0, 3)) None].

Example C11_two_interleaved_readers :
  legalh cfg_repaired pinit (w_two_1 ++ w_two_2) = true /\
  known_b (kn (runh cfg_repaired pinit w_two_1)) (HReader (0, 2)) = true /\
  forallb (fun p => negb (touches (0, 2) p)) w_two_2 = true /\
  hgetv (hp (runh cfg_repaired pinit w_two_1)) (0, 2) = Some (CRdr (RdCursor (0, 1) 3), 1) /\
  hgetv (hp (runh cfg_repaired pinit (w_two_1 ++ w_two_2))) (0, 2) = Some (CRdr (RdCursor (0, 1) 3), 1) /\
  hget (hp (runh cfg_repaired pinit (w_two_1 ++ w_two_2))) (0, 3) = Some (CRdr (RdCursor (0, 1) 8)) /\
  snd (pstep cfg_repaired (runh cfg_repaired pinit (w_two_1 ++ w_two_2)) (PReaderRead (HReader (0, 2)) (Some 2)))
    = RDone (PAcc (XBytes [100; 101]%N None)).
Proof. vm_compute. repeat split. Qed.

(* pinned configuration: AsLargeBytes hands out the node's one reader every time, so the "second"
   reader's seek to the end leaves nothing for the first *)
Definition w_readers_pinned : list prim :=
  [PNewSlice [97; 98; 99; 100; 101; 102; 103; 104]%N; PNewStreamNode (HSlice w_slice8);
   PLargeBytes (HNode (RStream (0, 1))); PReaderRead (HReader (0, 1)) (Some 3);
   PLargeBytes (HNode (RStream (0, 1))); PReaderSeek (HReader (0, 1)) 0 SeekEnd].

Theorem C11_reader_independent_refuted_pinned :
  legalh cfg_pinned pinit w_readers_pinned = true /\
  snd (pstep cfg_pinned (runh cfg_pinned pinit w_readers_pinned) (PReaderRead (HReader (0, 1)) None))
    = RDone (PAcc (XBytes [] None)).
Proof. vm_compute. split; reflexivity. Qed.
Print Assumptions C11_reader_independent_refuted_pinned.

(* … and the full reader statement fails there: an AsBytes read of the node (not a call on the
   reader) moves the reader AsLargeBytes handed out, because it IS the node's one reader *)
Theorem C11_readers_full_refuted_pinned : ~ C11_readers_full cfg_pinned.
Proof.
  intros F.
  specialize (F [PNewSlice [97; 98; 99; 100; 101; 102; 103; 104]%N; PNewStreamNode (HSlice w_slice8);
                 PLargeBytes (HNode (RStream (0, 1)))]
                [PRead (HNode (RStream (0, 1))) ABytes] eq_refl (0, 1) eq_refl eq_refl).
  vm_compute in F. discriminate F.
Qed.
Print Assumptions C11_readers_full_refuted_pinned.

(* ---- the pinned tree violates the full statement: streamBytes ---- *)

Definition w_slice3 : slice := {| s_arr := Some (0, 0); s_off := 0; s_len := 3; s_cap := 3 |}.
Definition w_slice4 : slice := {| s_arr := Some (0, 0); s_off := 0; s_len := 4; s_cap := 4 |}.

(* basicnode.Prototype.Bytes.NewBuilder().AssignNode(basicnode.NewBytes("abc")); Build() *)
Definition w_stream_builder : list prim :=
  [PNewSlice [97; 98; 99]%N; PNewBytesNode (HSlice w_slice3); PNewBuilder PrBytes;
   PAssignNode (HBuilder (0, 1)) (HNode (RBytesP w_slice3)); PBuild (HBuilder (0, 1))].

(* a subset matcher over a bytes node *)
Definition w_stream_subset : list prim :=
  [PNewSlice [97; 98; 99; 100]%N; PNewBytesNode (HSlice w_slice4);
   PMatchSubset (HNode (RBytesP w_slice4)) 1 3].

Theorem C11_refuted_stream :
  legalh cfg_pinned pinit w_stream_builder = true /\
  known_b (kn (runh cfg_pinned pinit w_stream_builder)) (HNode (RStream (0, 2))) = true /\
  read_obs cfg_pinned (runh cfg_pinned pinit w_stream_builder) (RStream (0, 2)) ABytes
    = RDone (PAcc (XBytes [97; 98; 99]%N None)) /\
  read_obs cfg_pinned (fst (pstep cfg_pinned (runh cfg_pinned pinit w_stream_builder) (PRead (HNode (RStream (0, 2))) ABytes)))
           (RStream (0, 2)) ABytes
    = RDone (PAcc (XBytes [] None)).
Proof. vm_compute. repeat split. Qed.
Print Assumptions C11_refuted_stream.

Theorem C11_refuted_stream_subset :
  legalh cfg_pinned pinit w_stream_subset = true /\
  known_b (kn (runh cfg_pinned pinit w_stream_subset)) (HNode (RStream (0, 2))) = true /\
  read_obs cfg_pinned (runh cfg_pinned pinit w_stream_subset) (RStream (0, 2)) ABytes
    = RDone (PAcc (XBytes [98; 99]%N None)) /\
  read_obs cfg_pinned (fst (pstep cfg_pinned (runh cfg_pinned pinit w_stream_subset) (PRead (HNode (RStream (0, 2))) ABytes)))
           (RStream (0, 2)) ABytes
    = RDone (PAcc (XBytes [] None)).
Proof. vm_compute. repeat split. Qed.
Print Assumptions C11_refuted_stream_subset.

Theorem C11_full_refuted_pinned : ~ C11_full cfg_pinned.
Proof.
  intros F.
  specialize (F w_stream_builder [PRead (HNode (RStream (0, 2))) ABytes] eq_refl (RStream (0, 2)) eq_refl ABytes).
  vm_compute in F. discriminate F.
Qed.
Print Assumptions C11_full_refuted_pinned.

(* the same histories on the repaired configuration read "abc" both times *)
Example C11_repaired_stream_reads :
  read_obs cfg_repaired (fst (pstep cfg_repaired (runh cfg_repaired pinit w_stream_builder) (PRead (HNode (RStream (0, 2))) ABytes)))
           (RStream (0, 2)) ABytes
    = RDone (PAcc (XBytes [97; 98; 99]%N None)).
Proof. vm_compute. reflexivity. Qed.

(* ---- other engines: what a model of bindnode / gendemo has to supply ---- *)

(* The typed engines have no model; the check covers them at the oracle level only (docs/C11.md).
   The history part of C11 does not depend on the engine: for ANY engine modelled over the Go heap
   — states with a heap, calls, a Legal predicate, handles handed out, reads through handles — the
   all-histories statement follows from two facts about single calls and single reads:
   (E1) every Legal call preserves the ownership invariant, keeps handed-out handles referring to
   frozen cells, and does not store to frozen cells; (E2) a read through a handed-out handle depends
   on frozen cells only.  These are the obligations a bindnode model would have to discharge. *)
Theorem C11_any_engine : forall (St Call Hd Obs : Type) (hp_of : St -> mheap) (stepE : St -> Call -> St)
    (legalE : St -> Call -> bool) (knownE : St -> Hd -> Prop) (readE : mheap -> Hd -> Obs)
    (okE : Hd -> tags -> mheap -> Prop) (KE : tags -> St -> Prop),
  (forall tg s hd, KE tg s -> knownE s hd -> okE hd tg (hp_of s)) ->
  (forall tg s c, Inv tg (hp_of s) -> KE tg s -> legalE s c = true ->
     exists tg', Inv tg' (hp_of (stepE s c)) /\ KE tg' (stepE s c) /\ Ext tg (hp_of s) tg' (hp_of (stepE s c))) ->
  (forall tg h tg' h' hd, Inv tg h -> Ext tg h tg' h' -> okE hd tg h -> readE h hd = readE h' hd) ->
  forall tg0 s0, Inv tg0 (hp_of s0) -> KE tg0 s0 ->
  forall cs1 cs2, legalhE St Call stepE legalE s0 (cs1 ++ cs2) = true ->
  forall hd, knownE (runE St Call stepE s0 cs1) hd ->
  readE (hp_of (runE St Call stepE s0 cs1)) hd = readE (hp_of (runE St Call stepE s0 (cs1 ++ cs2))) hd.
Proof. exact engine_stable. Qed.
Print Assumptions C11_any_engine.

(* the hypotheses are satisfiable: basicnode is such an engine ((E1) = pstep_inv, (E2) = acc_stable),
   and the instance is C11_stable / C11_stable_partial again *)
Theorem C11_basicnode_is_an_engine : forall cf hs1 hs2, legalh cf pinit (hs1 ++ hs2) = true ->
  forall r a, bknown cf (runh cf pinit hs1) (r, a) ->
  bread cf (hp (runh cf pinit hs1)) (r, a) = bread cf (hp (runh cf pinit (hs1 ++ hs2))) (r, a).
Proof. exact basic_engine_stable. Qed.
Print Assumptions C11_basicnode_is_an_engine.

(* ---- the hypotheses are satisfiable, and Legal excludes what it must ---- *)

(* a list built with spare capacity, shared by the AssignNode shortcut, its builder reset and reused *)
Definition w_sharing : list prim :=
  [PNewBuilder PrList; PBeginList (HBuilder (0, 1)) 4; PAssembleValue (HListAsm (0, 1));
   PAssign (HValL (0, 1)) (AvScalar (SInt 1)); PFinish (HListAsm (0, 1)); PBuild (HBuilder (0, 1));
   PNewBuilder PrList; PAssignNode (HBuilder (0, 5)) (HNode (RList (0, 0))); PBuild (HBuilder (0, 5));
   PReset (HBuilder (0, 1)); PBeginList (HBuilder (0, 1)) 0; PAssembleValue (HListAsm (0, 1));
   PAssign (HValL (0, 1)) (AvScalar (SInt 7)); PFinish (HListAsm (0, 1)); PBuild (HBuilder (0, 1))].

Example C11_hypotheses_satisfiable :
  legalh cfg_pinned pinit w_sharing = true /\
  known_b (kn (runh cfg_pinned pinit (firstn 6 w_sharing))) (HNode (RList (0, 0))) = true /\
  read_obs cfg_pinned (runh cfg_pinned pinit w_sharing) (RList (0, 0)) ALength = RDone (PAcc (XLen 1)) /\
  read_obs cfg_pinned (runh cfg_pinned pinit w_sharing) (RList (0, 4)) ALength = RDone (PAcc (XLen 1)).
Proof. vm_compute. repeat split. Qed.

(* misuse the contract forbids: BeginMap on a builder after Build without Reset overwrites the
   tables of the node already returned — such a history is not Legal *)
Definition w_misuse : list prim :=
  [PNewBuilder PrMap; PBeginMap (HBuilder (0, 1)) 1; PAssembleEntry (HMapAsm (0, 1)) [107]%N;
   PAssign (HValM (0, 1)) (AvScalar (SInt 1)); PFinish (HMapAsm (0, 1)); PBuild (HBuilder (0, 1))].

Example C11_misuse_is_outside_legal :
  legalh cfg_pinned pinit w_misuse = true /\
  legalh cfg_pinned pinit (w_misuse ++ [PBeginMap (HBuilder (0, 1)) 0]) = false /\
  read_obs cfg_pinned (runh cfg_pinned pinit w_misuse) (RMap (0, 0)) ALength = RDone (PAcc (XLen 1)) /\
  read_obs cfg_pinned (runh cfg_pinned pinit (w_misuse ++ [PBeginMap (HBuilder (0, 1)) 0])) (RMap (0, 0)) ALength
    = RDone (PAcc (XLen 0)).
Proof. vm_compute. repeat split. Qed.
