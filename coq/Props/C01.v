(* Props/C01.v — "what is built through the builder API is exactly what the node API reads back".
   Property theorems only; each is closed by [exact] of a lemma proved in coq/Proofs/Node*.v.
   The model: coq/Node/Basic.v; the legal scripts: coq/Node/Protocol.v ([Scripts]). *)
Require Import IP.Base.Bytes IP.DM.Value IP.Node.Basic IP.Node.Protocol
  IP.Proofs.NodeBuild IP.Proofs.NodeRoot IP.Proofs.NodeRead IP.Proofs.NodeEq IP.Proofs.NodeSeg.

(* Every legal way to assemble v (entry shortcut or key+value, key as string or as a node, scalar
   assignment or AssignNode of a well-formed node of any implementation, any size hint), in a builder
   of any prototype that can hold v, builds a node whose abstract value is v — kinds, scalars, list
   order, map entries in insertion order — and the node satisfies the invariant behind
   C01_views_agree.  For all quirk settings; on the pinned tree [Scripts] leaves out exactly
   "Prototype.Map + AssignNode of a non-empty map of another implementation" (pmap_takes). *)
Theorem C01_build_read : forall q p v ops,
  Scripts q p v ops -> exists n, run q p ops = Some n /\ abs n = v /\ wf n.
Proof. exact build_read. Qed.
Print Assumptions C01_build_read.

Theorem C01_hint_independent : forall q s h h',
  step q s (BeginMap h) = step q s (BeginMap h') /\ step q s (BeginList h) = step q s (BeginList h').
Proof. exact hint_irrelevant. Qed.
Print Assumptions C01_hint_independent.

(* the full statement: also the scripts the repaired code admits run on the pinned code *)
Definition C01_build_read_full : Prop := forall p v ops,
  Scripts repaired p v ops -> exists n, run pinned p ops = Some n /\ abs n = v.

Theorem C01_build_read_refuted : ~ C01_build_read_full.
Proof.
  intros H. destruct pmap_foreign_refuted as (n & _ & Hs & Hr).
  destruct (H PMap (abs n) [AssignNode n] Hs) as (n' & Hn & _). congruence.
Qed.
Print Assumptions C01_build_read_refuted.

(* On every well-formed node (hence every built node): the length is the number of iterated entries,
   iteration yields every entry once in table order and then an over-read error, LookupByString k is
   the (only) entry with key k or not-exists, LookupByNode and LookupBySegment agree with it,
   LookupByIndex on a list is the i-th iterated element, and index/segment forms agree. *)
Theorem C01_views_agree_map : forall n, wf n -> kind_of n = KMap ->
  length_of n = Z.of_nat (length (entries_of n)) /\
  (exists es, map_entries n = Some es /\ iterate es = (es, Some EOverread) /\
              es = map (fun kv => (NString (fst kv), snd kv)) (entries_of n)) /\
  NoDup (map fst (entries_of n)) /\
  (forall k, lookup_by_string n k = look n k) /\
  (forall k v, In (k, v) (entries_of n) -> lookup_by_string n k = Ok v) /\
  (forall k, lookup_by_node n (NString k) = lookup_by_string n k) /\
  (forall kn e, as_string kn = Err e -> lookup_by_node n kn = Err e) /\
  (forall sg, lookup_by_segment n sg = lookup_by_string n (seg_string sg)) /\
  (forall i, lookup_by_index n i = Err EWrongKind).
Proof. exact map_views. Qed.
Print Assumptions C01_views_agree_map.

Theorem C01_views_agree_list : forall n, kind_of n = KList ->
  length_of n = Z.of_nat (length (items_of n)) /\
  (exists xs, list_entries n = Some xs /\ iterate xs = (xs, Some EOverread) /\ xs = items_of n) /\
  (forall i, lookup_by_index n i = at_index n i) /\
  (forall sg, lookup_by_segment n sg =
              match seg_index sg with Some i => lookup_by_index n i | None => Err EInvalidSegment end) /\
  (forall i, (0 <= i)%Z -> lookup_by_segment n (seg_of_int i) = lookup_by_index n i) /\
  (forall s i, parse_int s = Some i -> lookup_by_segment n (seg_of_string s) = lookup_by_index n i) /\
  (forall k, lookup_by_string n k = Err EWrongKind).
Proof. exact list_views. Qed.
Print Assumptions C01_views_agree_list.

(* strconv.ParseInt (FormatInt i) = i on int64 as modelled, hence on a list the segment forms
   PathSegmentOfInt(i) and PathSegmentOfString("<decimal i>") address the same element as LookupByIndex *)
Theorem C01_segment_forms_agree : forall n i,
  kind_of n = KList -> (0 <= i < two63z)%Z ->
  lookup_by_segment n (seg_of_string (format_int i)) = lookup_by_segment n (seg_of_int i) /\
  lookup_by_segment n (seg_of_int i) = lookup_by_index n i.
Proof. exact segment_forms_agree. Qed.
Print Assumptions C01_segment_forms_agree.

(* every kind-inappropriate accessor / lookup / iterator answers wrong-kind (an error value); the
   result type of these functions has no panic outcome at all *)
Theorem C01_wrong_kind : forall n,
  (kind_of n <> KBool -> as_bool n = Err EWrongKind) /\
  (kind_of n <> KInt -> as_int n = Err EWrongKind) /\
  (kind_of n <> KFloat -> as_float n = Err EWrongKind) /\
  (kind_of n <> KString -> as_string n = Err EWrongKind) /\
  (kind_of n <> KBytes -> as_bytes n = Err EWrongKind) /\
  (kind_of n <> KLink -> as_link n = Err EWrongKind) /\
  (kind_of n <> KMap -> forall k, lookup_by_string n k = Err EWrongKind) /\
  (kind_of n <> KList -> forall i, lookup_by_index n i = Err EWrongKind) /\
  (kind_of n <> KMap -> kind_of n <> KList ->
     (forall k, lookup_by_node n k = Err EWrongKind) /\
     (forall sg, lookup_by_segment n sg = Err EWrongKind)) /\
  (kind_of n <> KMap -> map_entries n = None) /\
  (kind_of n <> KList -> list_entries n = None) /\
  (kind_of n <> KMap -> kind_of n <> KList -> length_of n = (-1)%Z).
Proof. exact wrong_kind_table. Qed.
Print Assumptions C01_wrong_kind.

(* DeepEqual is Go-equality of the abstract values (float ==: NaN differs from itself, +0 = -0; maps
   in iteration order), across implementations; Copy reproduces the abstract value.  Proved for
   every quirk setting under [eq_total]: the repaired tree, or no int above MaxInt64 involved. *)
Theorem C01_equal_copy_partial : forall q,
  (forall x y, eq_total q x y -> deep_equal q x y = ROk (dm_goeq (abs x) (abs y))) /\
  (forall n, wf n -> (q_copy_asint q = false \/ forall z, n = NUint z -> (z < two63z)%Z) ->
     exists n', copy q PAny n = ROk n' /\ abs n' = abs n /\ wf n') /\
  (forall n, wf n -> kind_of n = KMap -> exists n', copy q PMap n = ROk n' /\ abs n' = abs n /\ wf n') /\
  (forall n, wf n -> kind_of n = KList -> exists n', copy q PList n = ROk n' /\ abs n' = abs n /\ wf n').
Proof.
  intros q. split; [|split; [|split]].
  - intros x y. exact (deep_equal_spec q x y).
  - exact (copy_any q).
  - exact (copy_map q).
  - exact (copy_list q).
Qed.
Print Assumptions C01_equal_copy_partial.

Definition C01_equal_copy_full : Prop :=
  (forall x y, wf x -> wf y -> deep_equal pinned x y = ROk (dm_goeq (abs x) (abs y))) /\
  (forall n, wf n -> exists n', copy pinned PAny n = ROk n' /\ abs n' = abs n).

(* the full statement holds of the repaired model ... *)
Theorem C01_equal_copy_repaired :
  (forall x y, deep_equal repaired x y = ROk (dm_goeq (abs x) (abs y))) /\
  (forall n, wf n -> exists n', copy repaired PAny n = ROk n' /\ abs n' = abs n /\ wf n').
Proof.
  split.
  - intros x y. apply deep_equal_spec. left. reflexivity.
  - intros n Hw. apply copy_any; auto.
Qed.
Print Assumptions C01_equal_copy_repaired.

(* ... and fails on the pinned one (ints above MaxInt64: DeepEqual panics, Copy fails) *)
Theorem C01_equal_copy_refuted : ~ C01_equal_copy_full.
Proof.
  intros [H _]. destruct deep_equal_uint_refuted as (n & Hw & Hp).
  rewrite (H n n Hw Hw) in Hp. discriminate.
Qed.
Print Assumptions C01_equal_copy_refuted.

(* ------------------------------------------------------------------ the tree as it is now *)
(* With the fixes applied so far ([settled]: only Copy still reads ints through AsInt) the premise
   [eq_total] is gone for DeepEqual, and Copy reproduces every well-formed node except exactly the
   known finding copy_uint_fails: a ROOT int node above MaxInt64 (children are handed over by
   AssignNode and are not affected). *)
Theorem C01_equal_copy_settled :
  (forall x y, deep_equal settled x y = ROk (dm_goeq (abs x) (abs y))) /\
  (forall n, wf n -> (forall z, n = NUint z -> (z < two63z)%Z) ->
     exists n', copy settled PAny n = ROk n' /\ abs n' = abs n /\ wf n') /\
  (forall n, wf n -> kind_of n = KMap -> exists n', copy settled PMap n = ROk n' /\ abs n' = abs n /\ wf n') /\
  (forall n, wf n -> kind_of n = KList -> exists n', copy settled PList n = ROk n' /\ abs n' = abs n /\ wf n') /\
  (forall p z, (two63z <= z)%Z -> copy settled p (NUint z) = RErr EOther).
Proof.
  split; [exact settled_equal|split; [exact settled_copy|split; [exact (copy_map settled)|split;
    [exact (copy_list settled)|exact copy_uint_fails]]]].
Qed.
Print Assumptions C01_equal_copy_settled.

Definition C01_copy_full_settled : Prop :=
  forall n, wf n -> exists n', copy settled PAny n = ROk n' /\ abs n' = abs n.

(* refuted by the witness of copy_uint_fails, and by nothing else (C01_equal_copy_settled) *)
Theorem C01_copy_full_refuted : ~ C01_copy_full_settled.
Proof.
  intros H. destruct (H (NUint two63z) (wf_uint two63z)) as (n' & Hc & _).
  rewrite (copy_uint_fails PAny two63z) in Hc; [discriminate|apply Z.le_refl].
Qed.
Print Assumptions C01_copy_full_refuted.
