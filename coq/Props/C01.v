(* Props/C01.v — property theorems only (placeholder until the proofs land). *)
Require Import IP.Base.Bytes IP.DM.Value IP.Node.Basic.

Theorem C01_placeholder : forall n, kind_of n = kind_of n.
Proof. reflexivity. Qed.
Print Assumptions C01_placeholder.
