(* Props/C17.v — block storage is a faithful key-value map: property theorems only.
   Models: Store/Storage.v (memstore, cidlink.Memory, storage/funcs.go fall-backs),
           Store/FsStore.v (fsstore over a POSIX file-system model; sharding from Gen/FromGo.v). *)
Require Import IP.Base.Bytes IP.Base.GoSem IP.Gen.FromGo IP.Store.Storage IP.Store.FsStore.
Require Import IP.Proofs.StoreBase IP.Proofs.StoreB32 IP.Proofs.StoreMem IP.Proofs.StoreFs IP.Proofs.StoreRefuted.
Require Import IP.Proofs.StoreCrash IP.Proofs.StoreCrashTop IP.Proofs.StoreSeq IP.Proofs.StoreGood IP.Proofs.StoreFsRefine IP.Proofs.StoreUsable.
From Coq Require Import List Bool.
Import ListNotations.

(* --- the in-memory stores refine the finite map  (projected) key -> bytes ---------------------
   For EVERY history inside the quantifier ([hist_ok]: handles exist, each projected key is only
   ever given one content, the caller does not write to slices obtained from Peek) the model of
   memstore / cidlink.Memory answers exactly as the specification [spec_run]: has / get /
   get-stream / peek agree with the map, absent keys are absent, and a put changes the answers for
   its own key only ([spec_put_other]).  cidlink.Memory is keyed by the CID's multihash by
   documented design: its projection is [cid_hash]. *)
Theorem C17_refines : forall cfg ops,
  hist_ok (mc_proj cfg) (mc_storage_api cfg) spec_empty ops = true ->
  mem_run cfg mem_empty ops = spec_run (mc_proj cfg) (mc_storage_api cfg) spec_empty ops.
Proof. exact mem_refines. Qed.
Print Assumptions C17_refines.

Theorem C17_distinct_keys_never_alias : forall s pk pk' c,
  pk <> pk' -> lookup pk' (s_map (s_put s pk c)) = lookup pk' (s_map s).
Proof. exact spec_put_other. Qed.
Print Assumptions C17_distinct_keys_never_alias.

Example C17_refines_hyp_satisfiable :
  hist_ok (mc_proj memstore_cfg) true spec_empty
    [ONew [1;2;3]%N; OPut [7]%N 0; OMut 0 [9;9;9]%N; OGet [7]%N; OPeek [7]%N; OHas [8]%N;
     (* two streams open at the same time, writes interleaved *)
     OOpen; OOpen; OWrite 0 0; OWrite 1 0; OWrite 0 0; OCommit 1 [5]%N; OCommit 0 [6]%N; OGet [5]%N; OGet [6]%N] = true.
Proof. reflexivity. Qed.

(* --- insulation: Put(k, slice h), then any writes of the caller to slices it owns (h included):
       Get(k) still returns what h held at the time of the put ---------------------------------- *)
Theorem C17_insulated : forall cfg m s k h c ws,
  sim m s -> s_handle s h = Some c ->
  forallb is_caller_write ws = true ->
  hist_ok (mc_proj cfg) (mc_storage_api cfg) s (OPut k h :: ws ++ [OGet k]) = true ->
  last (mem_run cfg m (OPut k h :: ws ++ [OGet k])) OUnit = OBytes c.
Proof. exact mem_insulated. Qed.
Print Assumptions C17_insulated.

Example C17_insulated_hyp_satisfiable :
  sim mem_empty spec_empty /\
  hist_ok (mc_proj memstore_cfg) true spec_empty
    [ONew [1;2;3]%N; OPut [7]%N 0; OMut 0 [9;9;9]%N; OGet [7]%N] = true.
Proof. split. exact sim_empty. reflexivity. Qed.

(* --- the file-system store, when the escaping function is applied and has the shape of base32
       (injective, output in [A-Z2-7], non-empty on non-empty keys) ----------------------------- *)

(* every path handed to a system call by any operation of any history has the base directory as a
   PROPER prefix, and no "..", "." or "/" in what follows *)
Theorem C17_fs_contained : forall cfg ops,
  escaping cfg -> cfg_wf cfg -> Forall (op_len_ok cfg) ops ->
  Forall (res_inside (f_base cfg)) (fs_run cfg (fstate0 cfg) ops).
Proof. exact fs_contained. Qed.
Print Assumptions C17_fs_contained.

Theorem C17_fs_injective : forall cfg, escaping cfg ->
  forall k1 k2 p, wfb k1 -> wfb k2 -> k1 <> [] -> k2 <> [] ->
  key_len_ok (enc_key cfg k1) -> key_len_ok (enc_key cfg k2) ->
  path_for_key cfg k1 = Some p -> path_for_key cfg k2 = Some p -> k1 = k2.
Proof. exact fs_injective. Qed.
Print Assumptions C17_fs_injective.

(* the sharding functions generated from storage/sharding/sharding.go never panic; the last
   component is the key, the others are 2-3 bytes of the key or '0' padding *)
Theorem C17_shard_total : forall sh k, key_len_ok k ->
  exists cs, shard_apply sh k = Some (cs ++ [k]) /\ length cs = shard_depth sh /\ Forall (shard_comp_ok k) cs.
Proof. exact shard_apply_spec. Qed.
Print Assumptions C17_shard_total.

(* base32 without padding (fsstore's default escaping function) HAS the required shape: injective on
   byte strings, output in [A-Z2-7], non-empty on non-empty input — so for the default configuration
   the hypothesis [escaping] of the theorems above is discharged ([wfb]: every element < 256) *)
Theorem C17_b32_shape : esc_ok b32enc.
Proof. constructor. exact b32enc_inj. exact b32enc_alpha. exact b32enc_nonempty. Qed.
Print Assumptions C17_b32_shape.

Theorem C17_repaired_cfg_escaping : forall base sh, escaping (repaired_cfg base sh).
Proof. intros. split. reflexivity. exact C17_b32_shape. Qed.
Print Assumptions C17_repaired_cfg_escaping.

(* --- the file-system store refines the same finite map (has / get / get-stream / peek agree,
       absent keys absent, distinct keys never alias), from the freshly initialised store, for every
       history inside the quantifier whose keys the store can hold ([storable]: non-empty, escaped
       form without '/', '.', NUL, at most 255 bytes).  ENOENT is the store's "not found" ([norm_obs]).
       [enc_key] injective: the escaping function is (quirk off), or no escaping at all (quirk on).
       2^254 bounds the model's counter-based staging names, nothing in the code. ----------------- *)
Theorem C17_refines_fs : forall cfg,
  path_ok (f_base cfg) -> forall ops,
  (forall k k', wfb k -> wfb k' -> enc_key cfg k = enc_key cfg k' -> k = k') ->
  hist_ok (@Some (list N)) true spec_empty ops = true -> Forall (op_storable cfg) ops ->
  (N.of_nat (length ops) < 2 ^ 254)%N ->
  fs_obs cfg (fstate0 cfg) ops = spec_run (@Some (list N)) true spec_empty ops.
Proof. exact fs_refines. Qed.
Print Assumptions C17_refines_fs.

(* The statement that was open before: the history may keep streams OPEN across other operations
   (OOpen / OWrite / OCommit as separate steps, any number at a time, commits in any order).  The
   abstraction ignores the staging files of uncommitted streams: every open stream owns one staging
   file, named by a counter value already used (so it can collide neither with a shard path nor with
   another stream's file nor with a later put's), holding exactly what was written to the stream;
   OOpen / OWrite leave the visible map unchanged, OCommit is the atomic move ([rel], [step_rel] in
   Proofs/StoreFsRefine.v).  [hist_ok]: each key one content, a stream is committed once and not
   written afterwards.  (It is the same statement as C17_refines_fs, which no longer needs its former
   premise [atomic_op].) *)
Theorem C17_refines_fs_streams_full : forall cfg,
  path_ok (f_base cfg) -> forall ops,
  (forall k k', wfb k -> wfb k' -> enc_key cfg k = enc_key cfg k' -> k = k') ->
  hist_ok (@Some (list N)) true spec_empty ops = true -> Forall (op_storable cfg) ops ->
  (N.of_nat (length ops) < 2 ^ 254)%N ->
  fs_obs cfg (fstate0 cfg) ops = spec_run (@Some (list N)) true spec_empty ops.
Proof. exact fs_refines. Qed.
Print Assumptions C17_refines_fs_streams_full.

Theorem C17_refines_fs_repaired : forall base sh ops,
  path_ok base ->
  hist_ok (@Some (list N)) true spec_empty ops = true -> Forall (op_storable (repaired_cfg base sh)) ops ->
  (N.of_nat (length ops) < 2 ^ 254)%N ->
  fs_obs (repaired_cfg base sh) (fstate0 (repaired_cfg base sh)) ops = spec_run (@Some (list N)) true spec_empty ops.
Proof.
  intros base sh ops B H S L. apply fs_refines; auto.
  apply escaping_enc_inj. split. reflexivity. constructor. exact b32enc_inj. exact b32enc_alpha. exact b32enc_nonempty.
Qed.
Print Assumptions C17_refines_fs_repaired.

(* with the escaping function applied, every non-empty key of at most 255 escaped bytes is storable *)
Theorem C17_escaping_makes_keys_storable : forall cfg k, escaping cfg -> wfb k -> k <> [] ->
  key_len_ok (enc_key cfg k) -> (lenN (enc_key cfg k) <=? name_max)%N = true -> exists d, storable cfg k d.
Proof. exact escaping_storable. Qed.
Print Assumptions C17_escaping_makes_keys_storable.

(* the pinned code (no escaping) is a faithful map exactly on keys without '/', '.', NUL *)
Theorem C17_pinned_plain_keys_storable : forall cfg k, q_no_escape cfg = true -> wfb k -> plain k -> key_len_ok k ->
  (lenN k <=? name_max)%N = true -> exists d, storable cfg k d.
Proof. exact plain_storable. Qed.
Print Assumptions C17_pinned_plain_keys_storable.

(* non-vacuity: two streams open across a Put / Get / Has of other keys AND of the key one of them
   is going to commit (same content: each key has one content); commits in the opposite order *)
Definition ex_kA : list N := [107;101;121;65].   (* "keyA" *)
Definition ex_kB : list N := [107;101;121;66].   (* "keyB" *)
Definition ex_kO : list N := [111;116;104;101;114]. (* "other" *)
Definition ex_stream_ops : list op :=
  [ONew content1; ONew [120;121]%N;
   OOpen; OOpen; OWrite 0 0;
   OPut ex_kO 1; OGet ex_kO; OHas ex_kA; OHas ex_kB;
   OWrite 1 1; OWrite 1 0;
   OPut ex_kA 0; OGet ex_kA; OMut 0 [1;2;3]%N;
   OCommit 1 ex_kB; OHas ex_kB; OGetStream ex_kB;
   OCommit 0 ex_kA; OGet ex_kA; OGet ex_kB; OHas ex_kO].

Example C17_refines_fs_hyp_satisfiable :
  let cfg := pinned_cfg wbase R12 in
  path_ok (f_base cfg) /\ (forall k k', wfb k -> wfb k' -> enc_key cfg k = enc_key cfg k' -> k = k') /\
  hist_ok (@Some (list N)) true spec_empty ex_stream_ops = true /\ Forall (op_storable cfg) ex_stream_ops /\
  (N.of_nat (length ex_stream_ops) < 2 ^ 254)%N.
Proof.
  assert (P : forall k, plain k -> (lenN k <=? name_max)%N = true -> key_len_ok k -> bytes_ok k = true ->
               exists d, storable (pinned_cfg wbase R12) k d).
  { intros. apply plain_storable; auto. apply wfb_bytes_ok. auto. }
  assert (PL : forall l, l <> [] -> forallb (fun b => negb (N.eqb b 47 || N.eqb b 46 || N.eqb b 0)) l = true -> plain l).
  { intros l NE H. split; auto. apply Forall_forall. intros b Hb. rewrite forallb_forall in H.
    specialize (H b Hb). apply negb_true_iff in H. apply orb_false_iff in H. destruct H as [H H3].
    apply orb_false_iff in H. destruct H as [H1 H2].
    apply N.eqb_neq in H1. apply N.eqb_neq in H2. apply N.eqb_neq in H3. repeat split; auto. }
  assert (SA : exists d, storable (pinned_cfg wbase R12) ex_kA d).
  { apply P. apply PL. discriminate. reflexivity. reflexivity. unfold key_len_ok. simpl. reflexivity. reflexivity. }
  assert (SB : exists d, storable (pinned_cfg wbase R12) ex_kB d).
  { apply P. apply PL. discriminate. reflexivity. reflexivity. unfold key_len_ok. simpl. reflexivity. reflexivity. }
  assert (SO : exists d, storable (pinned_cfg wbase R12) ex_kO d).
  { apply P. apply PL. discriminate. reflexivity. reflexivity. unfold key_len_ok. simpl. reflexivity. reflexivity. }
  split. { repeat constructor. }
  split. { intros k k' _ _ H. exact H. }
  split. { reflexivity. }
  split; [|reflexivity].
  unfold ex_stream_ops. repeat constructor; unfold op_storable; simpl; auto.
Qed.

(* ... and what the theorem then says about that history, computed on both sides *)
Example C17_refines_fs_streams_instance :
  fs_obs (pinned_cfg wbase R12) (fstate0 (pinned_cfg wbase R12)) ex_stream_ops
  = spec_run (@Some (list N)) true spec_empty ex_stream_ops /\
  spec_run (@Some (list N)) true spec_empty ex_stream_ops
  = [OUnit; OUnit; OOk; OOk; OOk;
     OOk; OBytes [120;121]%N; OBool false; OBool false;
     OOk; OOk;
     OOk; OBytes content1; OUnit;
     OOk; OBool true; OBytes ([120;121]%N ++ content1);
     OOk; OBytes content1; OBytes ([120;121]%N ++ content1); OBool true].
Proof. split; vm_compute; reflexivity. Qed.

(* --- the code AS IT STANDS (escapingFunc stored, never applied; commit("") = abort = success)
       violates the property: witnesses by computation on the faithful model --------------------- *)
Theorem C17_fs_contained_refuted : forall sh,
  ~ Forall (res_inside wbase)
      (fs_run (pinned_cfg wbase sh) (fstate0 (pinned_cfg wbase sh)) [ONew content1; OPut k_escape 0]).
Proof. exact fs_contained_refuted. Qed.
Print Assumptions C17_fs_contained_refuted.

Theorem C17_fs_injective_refuted : forall sh,
  k_alias1 <> k_alias2 /\
  path_for_key (pinned_cfg wbase sh) k_alias1 = path_for_key (pinned_cfg wbase sh) k_alias2 /\
  path_for_key (pinned_cfg wbase sh) k_alias1 <> None.
Proof. exact fs_injective_refuted. Qed.
Print Assumptions C17_fs_injective_refuted.

Theorem C17_refines_refuted_alias : forall sh,
  obs_of (fs_run (pinned_cfg wbase sh) (fstate0 (pinned_cfg wbase sh))
            [ONew content1; OPut k_alias1 0; OHas k_alias2; OGet k_alias2])
  = [OUnit; OOk; OBool true; OBytes content1].
Proof. exact alias_observed. Qed.
Print Assumptions C17_refines_refuted_alias.

Theorem C17_refines_refuted_empty_put : forall sh,
  obs_of (fs_run (pinned_cfg wbase sh) (fstate0 (pinned_cfg wbase sh)) [ONew content1; OPut [] 0; OGet []])
  = [OUnit; OOk; OErr ENOENT].
Proof. exact empty_key_put_refuted. Qed.
Print Assumptions C17_refines_refuted_empty_put.

Theorem C17_refines_refuted_empty_has : forall sh,
  obs_of (fs_run (pinned_cfg wbase sh) (fstate0 (pinned_cfg wbase sh)) [ONew content1; OPut k_plain 0; OHas []])
  = [OUnit; OOk; OBool true].
Proof. exact empty_key_has_refuted. Qed.
Print Assumptions C17_refines_refuted_empty_has.

Theorem C17_refines_refuted_key_is_dir :
  obs_of (fs_run (pinned_cfg wbase R12) (fstate0 (pinned_cfg wbase R12))
            [ONew content1; OHas [46;46]%N; OPut [46;46]%N 0; OGet [46;46]%N])
  = [OUnit; OBool true; OOk; OErr EISDIR].
Proof. exact key_is_dir_refuted. Qed.
Print Assumptions C17_refines_refuted_key_is_dir.
