(* Props/C17.v — property theorems only (placeholder while the proofs are being written). *)
Require Import IP.Base.Bytes IP.Store.Storage IP.Store.FsStore.
Theorem C17_placeholder : forall k, @lookup nat k [] = None.
Proof. reflexivity. Qed.
Print Assumptions C17_placeholder.
