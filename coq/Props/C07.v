(* Props/C07.v — a selector walk visits exactly what the selector denotes.  Property theorems only.
   walk_adv q  : the operational walk of Trav/Walk.v + Selector.v under the quirk switches q
                 (pinned = the code as it is, repaired = all four deviations switched off);
   denote_sel  : the specified semantics of Trav/SelectorSpec.v (threads and recursion frames). *)
Require Import IP.Base.Bytes IP.DM.Value IP.Base.GoSem IP.Gen.FromGo IP.Trav.Selector IP.Trav.Walk IP.Trav.SelectorSpec IP.Trav.QuirkFree
  IP.Proofs.TravSel IP.Proofs.TravPath IP.Proofs.TravSlice IP.Proofs.TravDenote IP.Proofs.TravDenoteWalk IP.Proofs.TravPinned IP.Proofs.TravCurrent IP.Proofs.TravCompile
  IP.Proofs.TravC07Refuted.
Open Scope Z_scope.

(* the full statement for the code as it is: REFUTED below; kept visible *)
Definition C07_full : Prop :=
  forall v s g f root,
    compile v = COk s -> keys_graph g = true -> small_graph g = true -> keys_ok root = true -> small_dm root = true ->
    walk_adv pinned g f root s = denote_sel g f root s.

(* The equivalence, for every compiled selector (all clause kinds, any nesting, any recursion limit, stop-at),
   every graph and root with unique map keys, every fuel — for the model with the four deviations repaired. *)
Theorem C07_walk_denotes_repaired : forall v s g f root,
  compile v = COk s -> keys_graph g = true -> small_graph g = true -> keys_ok root = true -> small_dm root = true ->
  walk_adv repaired g f root s = denote_sel g f root s.
Proof. intros v s g f root H Hg Hsg Hk Hsm. apply walk_denote_sel; auto. eapply compile_wf; eauto. Qed.
Print Assumptions C07_walk_denotes_repaired.

(* The code AS IT IS (any setting q of the switches, in particular [pinned]) on every walk along which no
   deviation fires.  [walk_quirk_free q g f root s] is a decidable condition that mirrors the walk: no selector's
   explicit interests name a child twice; no bare edge is Explore'd; whenever the current clause of a recursion hands
   back an edge, all union members it hands back are edges and the sequence has a live clause.  Covers recursion
   with depth limits and stop-at (e.g. the "explore everything recursively" idiom, C07_pinned_fragment_example). *)
Theorem C07_walk_denotes_quirk_free : forall q v s g f root,
  compile v = COk s -> keys_graph g = true -> small_graph g = true -> keys_ok root = true -> small_dm root = true ->
  walk_quirk_free q g f root s = true ->
  walk_adv q g f root s = denote_sel g f root s.
Proof. intros q v s g f root H Hg Hsg Hk Hsm Hq. apply walk_denote_sel_q; auto. eapply compile_wf; eauto. Qed.
Print Assumptions C07_walk_denotes_quirk_free.

(* fragment 1+2: matcher / all / fields / index / range and unions of them (no recursion), for the code as it is,
   when no selector on the walk names a child twice *)
Theorem C07_fragment_norec : forall v s g f root,
  compile v = COk s -> keys_graph g = true -> small_graph g = true -> keys_ok root = true -> small_dm root = true ->
  norec s = true -> walk_interests_ok pinned g f root s = true ->
  walk_adv pinned g f root s = denote_sel g f root s.
Proof. intros v s g f root H Hg Hsg Hk Hsm Hn Hi. apply walk_denote_norec; auto. eapply compile_wf; eauto. Qed.
Print Assumptions C07_fragment_norec.

(* the repaired model meets the condition on every walk; the pinned one on the canonical recursive selector *)
Theorem C07_repaired_quirk_free : forall g f n s, walk_quirk_free repaired g f n s = true.
Proof. exact walk_quirk_free_repaired. Qed.
Print Assumptions C07_repaired_quirk_free.
Theorem C07_pinned_fragment_example :
  let g := [([1; 113; 18; 1; 170]%N, DMap [([118%N], DInt 7)])] in
  let root := DMap [([97%N], DLink [1; 113; 18; 1; 170]%N);
                    ([98%N], DList [DInt 1; DLink [1; 113; 18; 1; 170]%N; DString [104%N; 105%N]])] in
  let sq := SUnion [SMatch None; SAll SEdge] in
  walk_quirk_free pinned g 10 root (SRec sq sq (Some 2) None) = true /\
  srcw false (SRec sq sq (Some 2) None).
Proof. exact pinned_fragment_example. Qed.
Print Assumptions C07_pinned_fragment_example.

(* the same from any node of the walk and any runtime selector (the invariant of the proof) *)
Theorem C07_walk_denotes_runtime : forall g, keys_graph g = true -> small_graph g = true -> forall f ls P n s,
  rt false s -> keys_ok n = true -> small_dm n = true ->
  walk repaired g f ls P n s = denote g f ls P n (rep s []).
Proof. exact walk_denote. Qed.
Print Assumptions C07_walk_denotes_runtime.

(* one step: Explore of the code corresponds to the specification's thread step *)
Theorem C07_explore_is_sstep : forall s b fr n ps v,
  rt b s -> lookup_seg n ps = Some v -> stopped fr v = false ->
  exists r, explore repaired s n ps = XOk r /\ (forall s', r = Some s' -> rt b s') /\
            lrep_opt r fr = flat_map (sstep n ps v) (rep s fr).
Proof. exact explore_sstep. Qed.
Print Assumptions C07_explore_is_sstep.
Theorem C07_match_is_smatch : forall s b fr n, rt b s -> small_top n -> match_sel s n = smatch (rep s fr) n.
Proof. exact match_rep. Qed.
Print Assumptions C07_match_is_smatch.
Theorem C07_interests_is_sinterests : forall s fr, interests s = sinterests (rep s fr).
Proof. exact interests_rep. Qed.
Print Assumptions C07_interests_is_sinterests.

(* the generated sliceBounds (Gen/FromGo.v, from matcher.go) meets the documented slice semantics and its
   results never make the Go slicing panic *)
Theorem C07_slice_bounds_spec : forall from to len,
  in64 from -> in64 to -> 0 <= len < two63 -> go_sliceBounds from to len = slice_spec from to len.
Proof. exact slice_bounds_spec. Qed.
Print Assumptions C07_slice_bounds_spec.
Theorem C07_slice_bounds_safe : forall from to len ok f t,
  in64 from -> in64 to -> 0 <= len < two63 ->
  go_sliceBounds from to len = (ok, f, t) -> ok = true -> 0 <= f <= t /\ t <= len /\ f < len.
Proof. exact slice_bounds_safe. Qed.
Print Assumptions C07_slice_bounds_safe.

(* compiled selectors are closed declared selectors (edges only beneath a recursion) *)
Theorem C07_compile_wf : forall v s, compile v = COk s -> srcw false s.
Proof. exact compile_wf. Qed.
Print Assumptions C07_compile_wf.

(* the matching walk is the matched sub-sequence (plus loads) of the advanced walk, by construction *)
Theorem C07_matching : forall q g f root s,
  walk_matching q g f root s =
  (filter (fun x => is_match_visit x || is_load x) (fst (walk_adv q g f root s)), snd (walk_adv q g f root s)).
Proof. intros. unfold walk_matching. destruct (walk_adv q g f root s); reflexivity. Qed.
Print Assumptions C07_matching.

(* ---- the code as it is: four refutations, each with the single repair that removes it *)
Theorem C07_refuted_union_dup : differs pinned w1_sel w1_root /\ meets fix_union_dup w1_sel w1_root.
Proof. exact refuted_union_dup. Qed.
Print Assumptions C07_refuted_union_dup.
Theorem C07_refuted_bare_edge_panic :
  differs pinned w2_sel w2_root /\ meets fix_bare_edge w2_sel w2_root /\
  exists s, compile w2_sel = COk s /\ snd (walk_adv pinned [] 20 w2_root s) = OPanic.
Proof. exact refuted_bare_edge_panic. Qed.
Print Assumptions C07_refuted_bare_edge_panic.
Theorem C07_refuted_exhausted_edge : differs pinned w3_sel w3_root /\ meets fix_unwrap w3_sel w3_root.
Proof. exact refuted_exhausted_edge. Qed.
Print Assumptions C07_refuted_exhausted_edge.
Theorem C07_refuted_shared_depth :
  differs pinned w4_sel w4_root /\ meets fix_depth w4_sel w4_root /\ meets pinned w4_alone w4_root /\
  exists s s', compile w4_sel = COk s /\ compile w4_alone = COk s' /\
               length (fst (walk_adv pinned [] 20 w4_root s)) = 5%nat /\
               length (fst (walk_adv pinned [] 20 w4_root s')) = 6%nat /\
               length (fst (denote_sel [] 20 w4_root s)) = 6%nat.
Proof. exact refuted_shared_depth. Qed.
Print Assumptions C07_refuted_shared_depth.

Theorem C07_full_refuted : ~ C07_full.
Proof.
  intros H. destruct refuted_union_dup as [(s & Hc & Hd) _].
  apply Hd. apply (H w1_sel s [] 20%nat w1_root Hc eq_refl eq_refl eq_refl eq_refl).
Qed.
Print Assumptions C07_full_refuted.

(* ====================================================================================================
   The CURRENT tree: b8b93dd, 873f3b3 and 87fc183 switched three deviations off; [current] has only the shared
   depth counter left.  For every compiled selector satisfying the syntactic condition

     no_shared_depth s  =  no empty union anywhere in s, and every ExploreRecursive in s has a live sequence (a clause
                           that is not just edges) and either no depth limit, or a sequence all of whose edges sit at
                           the same step depth ([uniform]: every iteration takes the same number of steps, so all
                           members of the current selector pass their edges together and a member that is still
                           mid-sequence when the counter drops has no edge left to consult it)

   the walk of the current tree is exactly what the selector denotes — every graph and root with unique map keys,
   every fuel.  (Proof: thread lists compared up to [norm], which erases the depth counters no thread can read.) *)
Theorem C07_walk_denotes_current_tree : forall v s g f root,
  compile v = COk s -> no_shared_depth s = true ->
  keys_graph g = true -> small_graph g = true -> keys_ok root = true -> small_dm root = true ->
  walk_adv current g f root s = denote_sel g f root s.
Proof. intros v s g f root H Hn Hg Hsg Hk Hsm. apply walk_denote_current; auto. eapply compile_wf; eauto. Qed.
Print Assumptions C07_walk_denotes_current_tree.

(* the condition holds for the realistic selectors ... *)
Theorem C07_no_shared_depth_realistic :
  exists s, compile (d_rec_depth 5 (d_union [d_match; d_all d_edge])) = COk s /\ no_shared_depth s = true.
Proof. exact no_shared_depth_realistic. Qed.
Print Assumptions C07_no_shared_depth_realistic.
Theorem C07_no_shared_depth_more :
  exists s, compile (d_rec_depth 3 (d_union [d_all d_match; d_all d_edge;
                                             d_fields [([97%N], d_rec_none (d_all d_edge))]])) = COk s /\
            no_shared_depth s = true.
Proof. exact no_shared_depth_more. Qed.
Print Assumptions C07_no_shared_depth_more.

(* ... and fails for the known witness, where the current tree does differ from the specification *)
Theorem C07_refuted_shared_depth_current :
  exists s, compile w4_sel = COk s /\ no_shared_depth s = false /\
            walk_adv current [] 20 w4_root s <> denote_sel [] 20 w4_root s.
Proof. exact shared_depth_outside. Qed.
Print Assumptions C07_refuted_shared_depth_current.

(* A fifth deviation, found by this proof: replaceRecursiveEdge drops an EMPTY union standing next to an edge, so
   R(depth 1, all(union(edge, union()))) over [[1]] does not visit the element, although all(union()) visits its
   children (1 event instead of 2); the model with per-member wrapping keeps it. *)
Theorem C07_refuted_empty_union_dropped :
  exists s, compile w5_sel = COk s /\ noempty s = false /\ nsd_rec s = true /\
            length (fst (walk_adv current [] 20 w5_root s)) = 1%nat /\
            length (fst (denote_sel [] 20 w5_root s)) = 2%nat /\
            walk_adv repaired [] 20 w5_root s = denote_sel [] 20 w5_root s.
Proof. exact empty_union_dropped. Qed.
Print Assumptions C07_refuted_empty_union_dropped.
