(* Props/C15.v — traversal controls only restrict a walk.  Property theorems only; each is closed by
   [exact] of a lemma proved in Proofs/Trav*.v.  U is always the unrestricted walk of Trav/Walk.v
   ([walk_adv]); R the walk of Trav/Controls.v under one control ([cwalk_adv]). *)
Require Import IP.Base.Bytes IP.DM.Value IP.Trav.Selector IP.Trav.Walk IP.Trav.Controls IP.Trav.ControlsSpec
  IP.Proofs.TravFacts IP.Proofs.TravBudget IP.Proofs.TravSkip IP.Proofs.TravOnce IP.Proofs.TravStart
  IP.Proofs.TravC15Examples.
Open Scope Z_scope.

(* with every control off, the controlled walk is the plain walk *)
Theorem C15_controls_off : forall q g f root s, cwalk_adv q no_ctl g f None root s = walk_adv q g f root s.
Proof. exact controls_off. Qed.
Print Assumptions C15_controls_off.

(* budgets, exact form: for all graphs, selectors, fuel and budgets, R is U cut right before the first
   visit (load) for which the node (link) budget is used up, and the error is that budget's *)
Theorem C15_budget_cut : forall q g f nb lb root s,
  cwalk_adv q no_ctl g f (Some (nb, lb)) root s = cut_run nb lb (walk_adv q g f root s).
Proof. exact budget_run. Qed.
Print Assumptions C15_budget_cut.

Theorem C15_node_budget : forall q g f N L root s,
  let U := walk_adv q g f root s in
  let R := cwalk_adv q no_ctl g f (Some (N, L)) root s in
  0 <= N -> Z.of_nat (length (loads (fst U))) <= L ->
  visits (fst R) = firstn (Z.to_nat N) (visits (fst U)) /\
  (exists r, fst U = fst R ++ r) /\
  (snd R = OErr WNodeBudget <-> N < Z.of_nat (length (visits (fst U)))) /\
  (Z.of_nat (length (visits (fst U))) <= N -> R = U).
Proof. exact node_budget_prefix. Qed.
Print Assumptions C15_node_budget.

Theorem C15_link_budget : forall q g f N L root s,
  let U := walk_adv q g f root s in
  let R := cwalk_adv q no_ctl g f (Some (N, L)) root s in
  0 <= L -> Z.of_nat (length (visits (fst U))) <= N ->
  loads (fst R) = firstn (Z.to_nat L) (loads (fst U)) /\
  (exists r, fst U = fst R ++ r) /\
  (snd R = OErr WLinkBudget <-> L < Z.of_nat (length (loads (fst U)))) /\
  (Z.of_nat (length (loads (fst U))) <= L -> R = U).
Proof. exact link_budget_prefix. Qed.
Print Assumptions C15_link_budget.

(* visit-once: if U completes, R completes, is a sub-sequence of U (so are its visits), and loads no
   link twice *)
Theorem C15_once : forall q g f root s t,
  walk_adv q g f root s = (t, OOk) ->
  exists t', cwalk_adv q once_ctl g f None root s = (t', OOk)
             /\ subseq t' t /\ subseq (visits t') (visits t) /\ NoDup (load_cids t').
Proof. exact once_run. Qed.
Print Assumptions C15_once.

(* SkipMe: if U completes, R is U without the events beneath a skipped link (the events whose link stack
   contains a link of K); the load attempt of a skipped link itself remains *)
Theorem C15_skip : forall q g K f root s t,
  walk_adv q g f root s = (t, OOk) ->
  cwalk_adv q (skip_ctl K) g f None root s = (skip_spec K t, OOk).
Proof. exact skip_run. Qed.
Print Assumptions C15_skip.

(* start-at: if U completes, visits the start path, and explored siblings are pairwise distinct, R is: the
   loads on the start path, then U from the first visit of the start path on *)
Theorem C15_start_at : forall q g sp f root s t,
  walk_adv q g f root s = (t, OOk) -> walk_distinct q g f root s = true ->
  Exists (fun e => at_path (map SegS sp) e = true) t ->
  cwalk_adv q (start_ctl sp) g f None root s = (start_spec (map SegS sp) t, OOk).
Proof. exact start_run. Qed.
Print Assumptions C15_start_at.

Theorem C15_start_at_visits : forall sp t, visits (start_spec sp t) = visits (snd (split_at sp t)).
Proof. exact start_spec_visits. Qed.
Print Assumptions C15_start_at_visits.

Theorem C15_start_at_loads : forall sp t,
  loads (start_spec sp t) = filter (on_path_load sp) (fst (split_at sp t)) ++ loads (snd (split_at sp t)).
Proof. exact start_spec_loads. Qed.
Print Assumptions C15_start_at_loads.

Theorem C15_split_at_spec : forall sp t,
  let '(b, a) := split_at sp t in
  t = b ++ a /\ Forall (fun e => at_path sp e = false) b /\
  match a with [] => True | e :: _ => at_path sp e = true end.
Proof. exact split_at_spec. Qed.
Print Assumptions C15_split_at_spec.

(* the hypotheses above are satisfiable *)
Theorem C15_hypotheses_satisfiable :
  snd ex_U = OOk /\ walk_distinct pinned ex_g 10 ex_root ex_sel = true /\
  Exists (fun e => at_path (map SegS [[98%N]; [49%N]]) e = true) (fst ex_U).
Proof. exact (conj (proj1 ex_U_ok) (conj ex_distinct ex_start_visited)). Qed.
Print Assumptions C15_hypotheses_satisfiable.
