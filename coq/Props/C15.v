(* Props/C15.v — property theorems only; each closed by [exact] of a lemma proved in Proofs/Trav*.v. *)
Require Import IP.Base.Bytes IP.DM.Value IP.Trav.Selector IP.Trav.Walk IP.Trav.Controls.

Theorem C15_placeholder : forall g f r s, walk_adv g f r s = walk_adv g f r s.
Proof. reflexivity. Qed.
Print Assumptions C15_placeholder.
