(* Props/C04.v — DAG-JSON encoding round-trips with kinds preserved and is deterministic.
   Property theorems only; each is closed by [exact] of a lemma proved in Proofs/Json*.v.

   Model: Codec/DagJson.v (+ Utf8.v, Base64.v).  External code that is not modelled concretely is
   universally quantified and constrained by the hypotheses below (they are premises of the
   theorems, never axioms):
     A1  strconv.ParseFloat inverts refmt's emitFloat on finite floats
     A2  emitFloat's text is a JSON number, has '.'/exponent iff the float is not an integer below
         1e21, with at most 19 digits before it in that case       (pinned refmt v0.90)
     A2R the same with '.'/exponent for EVERY finite float          (a repaired emitFloat)
     CID cid.Decode inverts Cid.String() on defined CIDs, and CID strings are valid UTF-8 *)
Require Import IP.Base.Bytes IP.DM.Value IP.Codec.Utf8 IP.Codec.Base64 IP.Codec.DagJson.
Require Import IP.Proofs.JsonString IP.Proofs.JsonInt IP.Proofs.JsonBase64 IP.Proofs.JsonTok IP.Proofs.JsonAbs
               IP.Proofs.JsonUnm IP.Proofs.JsonEnc IP.Proofs.JsonSort IP.Proofs.JsonMain IP.Proofs.JsonWitness.
Require IP.Gen.FromGo IP.Proofs.GoSort.
Open Scope N_scope.

(* A1, A2, A2R, CID, nonintegral, any_float, roundtrip_for are defined at the end of Proofs/JsonMain.v:
     roundtrip_for ... good := forall v, json_safe cid_ok good v = true -> jdepth v <= 1024 ->
        exists bs, jenc ... v = Ok bs /\ jdecode ... bs = Ok (sort_maps bytes_ltb v, []) *)

(* the full statement of the property *)
Definition C04_full : Prop :=
  forall fmt_float parse_float cid_str cid_parse cid_ok,
    A1 fmt_float parse_float -> A2 fmt_float -> CID cid_str cid_parse cid_ok ->
    roundtrip_for fmt_float parse_float cid_str cid_parse cid_ok any_float.

(* proved: everything except integral floats below 1e21 *)
Theorem C04_partial :
  forall fmt_float parse_float cid_str cid_parse cid_ok,
    A1 fmt_float parse_float -> A2 fmt_float -> CID cid_str cid_parse cid_ok ->
    roundtrip_for fmt_float parse_float cid_str cid_parse cid_ok nonintegral.
Proof. exact partial_lemma. Qed.
Print Assumptions C04_partial.

(* the faithful model refutes the full statement: under A2 an integral float never comes back as a float *)
Theorem C04_refuted_float :
  forall fmt_float parse_float cid_str cid_parse cid_ok,
    A2 fmt_float -> ~ roundtrip_for fmt_float parse_float cid_str cid_parse cid_ok any_float.
Proof. exact refuted_lemma. Qed.
Print Assumptions C04_refuted_float.

(* ... for every integral float below 1e21 (1.0, -0.0, 1e20, ...) *)
Theorem C04_refuted_float_all :
  forall fmt_float parse_float cid_str cid_parse cid_ok f,
    f64_finite f = true -> f64_integral_small f = true -> float_text_ok f (fmt_float f) = true ->
    jenc fmt_float cid_str dagjson_eopts cid_ok (DFloat f) = Ok (fmt_float f) /\
    forall rest, jdecode parse_float cid_parse dagjson_dopts (fmt_float f) <> Ok (DFloat f, rest).
Proof. exact refuted_float. Qed.
Print Assumptions C04_refuted_float_all.

(* with the quirk switched off (emitFloat always writes '.' or an exponent) the full statement holds *)
Theorem C04_roundtrip_repaired :
  forall fmt_float parse_float cid_str cid_parse cid_ok,
    A1 fmt_float parse_float -> A2R fmt_float -> CID cid_str cid_parse cid_ok ->
    roundtrip_for fmt_float parse_float cid_str cid_parse cid_ok any_float.
Proof. exact repaired_lemma. Qed.
Print Assumptions C04_roundtrip_repaired.

(* determinism: same bytes whatever the insertion order of (unique-keyed) maps, at every level *)
Theorem C04_deterministic :
  forall fmt_float cid_str cid_ok v1 v2 bs,
    uniq v1 = true -> pm v1 v2 ->
    jenc fmt_float cid_str dagjson_eopts cid_ok v1 = Ok bs -> jenc fmt_float cid_str dagjson_eopts cid_ok v2 = Ok bs.
Proof. exact deterministic. Qed.
Print Assumptions C04_deterministic.

(* the output is the text of the key-sorted value, whose maps are in strictly increasing bytewise key order *)
Theorem C04_sorted_keys :
  forall fmt_float cid_str cid_ok v bs,
    uniq v = true -> jenc fmt_float cid_str dagjson_eopts cid_ok v = Ok bs ->
    bs = text fmt_float cid_str (sort_maps bytes_ltb v) /\ maps_sorted (sort_maps bytes_ltb v).
Proof. exact sorted_keys_lemma. Qed.
Print Assumptions C04_sorted_keys.

(* the parts proved concretely *)
Theorem C04_string_roundtrip :
  forall s rest, utf8_valid s = true -> decode_string (emit_body (length s) s ++ 34 :: rest) = Some (s, rest).
Proof. exact string_roundtrip. Qed.
Print Assumptions C04_string_roundtrip.

Theorem C04_int_roundtrip : forall z, in_int64 z = true -> parse_int (print_int z) = PIVal z.
Proof. exact int_roundtrip. Qed.
Print Assumptions C04_int_roundtrip.

Theorem C04_base64_roundtrip :
  forall bs, Forall (fun b => b < 256) bs -> b64_decode_go (b64_encode bs) = Some bs.
Proof. exact base64_roundtrip. Qed.
Print Assumptions C04_base64_roundtrip.

(* the look-ahead: on the window machine the tokens of a json_safe value (in particular a map that
   is none of the reserved shapes, and the two reserved forms themselves) unmarshal to that value,
   from any well-formed window *)
Theorem C04_lookahead :
  forall fmt_float (parse_float : bytes -> option N) cid_str cid_parse cid_ok,
    (forall c, cid_ok c = true -> cid_parse (cid_str c) = Some c) ->
    forall o, jd_links o = true -> jd_bytes o = true ->
    forall good v, P fmt_float cid_str cid_parse cid_ok o good v.
Proof. exact U. Qed.
Print Assumptions C04_lookahead.

(* the tokenizer on the encoder's text, and the window machine vs. the tokenizer-driven unmarshal *)
Theorem C04_tokenizer :
  forall parse_float x, js_ok parse_float x -> InCtx parse_float x.
Proof. exact tok_value. Qed.
Print Assumptions C04_tokenizer.

(* the hypotheses A1, A2, CID are jointly satisfiable: the implications above are not vacuous *)
Theorem C04_assumptions_consistent :
  exists fmt_float parse_float cid_str cid_parse cid_ok,
    A1 fmt_float parse_float /\ A2 fmt_float /\ CID cid_str cid_parse cid_ok.
Proof. exact assumptions_consistent. Qed.
Print Assumptions C04_assumptions_consistent.

(* Tie to the source beyond the run: the comparison closures dagjson.Marshal hands to sort.Slice, translated from
   codec/dagjson/marshal.go by gotrans on every run (Gen/FromGo.v), are exactly the key orders the model sorts by —
   bytewise for MapSortMode_Lexical (the registered dag-json codec), length first for _RFC7049. *)
Theorem C04_source_key_order : forall a b,
  IP.Gen.FromGo.go_json_less_lexical a b = bytes_ltb a b /\ IP.Gen.FromGo.go_json_less_rfc7049 a b = rfc_ltb a b.
Proof. exact (fun a b => conj (IP.Proofs.GoSort.json_less_lexical_is_model a b) (IP.Proofs.GoSort.json_less_rfc7049_is_model a b)). Qed.
Print Assumptions C04_source_key_order.
