Require Import IP.Base.Bytes IP.DM.Value IP.Codec.DagJson.
Theorem C04_placeholder : forall (v : dm), v = v.
Proof. reflexivity. Qed.
Print Assumptions C04_placeholder.
