(* Props/C02.v — DAG-CBOR encoding is canonical, order-independent, round-trips; the predicted
   length is the produced length.  Property theorems only: each is closed by [exact] of a lemma
   proved in coq/Proofs/, with Print Assumptions beneath. *)
Require Import IP.Base.Bytes IP.DM.Value IP.Codec.Cbor IP.Codec.CborSpec.
Require Import IP.Proofs.BytesFacts IP.Proofs.CborEnc IP.Proofs.CborDec IP.Proofs.CborCanon.
Require IP.Gen.FromGo IP.Proofs.GoSort.
From Coq Require Import Permutation.
Open Scope N_scope.

(* The model encoder with links allowed never fails and equals the closed form [encb]. *)
Theorem C02_encoder_closed_form : forall o v, e_allow_links o = true -> enc o v = Ok (encb (e_sort o) v).
Proof. exact enc_ok. Qed.
Print Assumptions C02_encoder_closed_form.

(* Canonical: for every value whose ints fit a node and whose maps have distinct keys, the bytes the
   registered codec produces are in the relation Canon (shortest heads, float64 only, definite
   lengths, keys length-then-bytewise, tag 42 over 0x00-prefixed CID) ... *)
Theorem C02_canonical : forall v, int_ok v -> keys_nodup v -> Canon v (encb SortRFC7049 v).
Proof. exact canon_enc. Qed.
Print Assumptions C02_canonical.

(* ... and that relation determines the bytes: "exactly the canonical byte string". *)
Theorem C02_canonical_unique : forall v, keys_nodup v -> forall b1 b2, Canon v b1 -> Canon v b2 -> b1 = b2.
Proof. exact canon_unique. Qed.
Print Assumptions C02_canonical_unique.

(* the heads used are the shortest ones: the SPEC's strict head reader accepts exactly them *)
Theorem C02_heads_shortest : forall bs mj a r, Forall (fun b => b < 256) bs ->
  rd_head true bs = Some (mj, a, r) -> bs = head mj a ++ r /\ a < two64 /\ mj < 8.
Proof. exact rd_head_strict_inv. Qed.
Print Assumptions C02_heads_shortest.

(* Order independence: values equal up to the order of map entries (at every level) encode to the
   same bytes under both sorting modes. *)
Theorem C02_order_independent : forall m v1 v2,
  m <> SortNone -> perm_eq v1 v2 -> keys_nodup v1 -> encb m v1 = encb m v2.
Proof. exact encb_perm_invariant. Qed.
Print Assumptions C02_order_independent.

(* Round trip: decoding the produced bytes gives the value with maps in the emitted order, for all
   values within the decoder's configured limits (depth, allocation budget, 32 MiB strings). *)
Theorem C02_roundtrip : forall m o v,
  d_allow_links o = true -> rt_ok v ->
  (Z.of_nat (dm_depth v) <= max_depth o)%Z -> (cost v <= budget0 o)%Z ->
  decode o (encb m v) = Ok (sortv m v, []).
Proof. exact decode_encode. Qed.
Print Assumptions C02_roundtrip.

Theorem C02_roundtrip_sorted_is_sort_maps : forall v, sortv SortRFC7049 v = sort_maps rfc_ltb v.
Proof. exact sortv_rfc. Qed.
Print Assumptions C02_roundtrip_sorted_is_sort_maps.

(* Length law (on the repaired tree: EncodedLength goes through AsUint for uint nodes). *)
Theorem C02_length : forall m v, int_ok v -> enc_len true v = Ok (Z.of_nat (length (encb m v))).
Proof. exact enc_len_correct. Qed.
Print Assumptions C02_length.

(* The defect that was repaired (fix: 6abf683): with AsInt only, the length of a uint above int64 fails. *)
Theorem C02_length_refuted_pinned : exists v, int_ok v /\ enc_len false v = Err LEIntRange.
Proof. exists (DInt 9223372036854775808). split; [cbn; unfold two63z, two64z; lia|reflexivity]. Qed.
Print Assumptions C02_length_refuted_pinned.

(* Tie to the source beyond the run: the comparison closures marshalMap hands to sort.Slice, translated from
   codec/dagcbor/marshal.go by gotrans on every run (Gen/FromGo.v), are exactly the key orders the model sorts
   by — length first then bytewise for MapSortMode_RFC7049 (the registered codec), bytewise for _Lexical. *)
Theorem C02_source_key_order : forall a b,
  IP.Gen.FromGo.go_cbor_less_rfc7049 a b = rfc_ltb a b /\ IP.Gen.FromGo.go_cbor_less_lexical a b = bytes_ltb a b.
Proof. exact (fun a b => conj (IP.Proofs.GoSort.cbor_less_rfc7049_is_model a b) (IP.Proofs.GoSort.cbor_less_lexical_is_model a b)). Qed.
Print Assumptions C02_source_key_order.

(* non-vacuity: a value with a nested map, a link-free list and boundary ints meets every hypothesis *)
Example C02_hypotheses_satisfiable :
  let v := DMap [([98;98], DList [DInt 65536; DInt (-25); DString [104;105]]); ([97], DMap [([], DNull)])] in
  int_ok v /\ keys_nodup v /\ rt_ok v /\
  decode (dagcbor_dopts true) (encb SortRFC7049 v) = Ok (sort_maps rfc_ltb v, []).
Proof.
  cbv zeta. repeat split; try (cbn; unfold two63z, two64z, str_cap, two63; lia);
    try (repeat constructor; cbn; intuition discriminate).
Qed.
