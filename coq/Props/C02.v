(* Props/C02.v — property theorems only; each closed by [exact] of a lemma proved elsewhere. *)
Require Import IP.Base.Bytes IP.DM.Value IP.Codec.Cbor.

Theorem C02_placeholder : forall v, enc dagcbor_eopts v = enc dagcbor_eopts v.
Proof. reflexivity. Qed.
Print Assumptions C02_placeholder.
