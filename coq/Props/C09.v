(* Props/C09.v — typed builders accept exactly the data that conforms to the schema.
   Property theorems only; proofs are in Proofs/SchemaBuild.v, SchemaRefute.v, SchemaTop.v. *)
Require Import IP.Base.Bytes IP.DM.Value IP.Schema.Types IP.Schema.View IP.Schema.Conform IP.Schema.Sem
  IP.Proofs.SchemaBuild IP.Proofs.SchemaShape IP.Proofs.SchemaRefute IP.Proofs.SchemaTop.
Require Import IP.Codec.Cbor IP.Codec.CborSpec IP.Proofs.CborDec IP.Proofs.CborSound IP.Proofs.CborComplete IP.Proofs.SchemaCborAccept.

(* every strategy, both levels, both engines, leniencies off: accepted <-> conforms, same value *)
Theorem C09_accept_iff : forall e t d v, (e = Bind \/ e = Gen) -> wf t = true ->
  (rbuild e qoff t d = BOk v <-> conforms_r t d = Some v) /\
  (tbuild e qoff t d = BOk v <-> conforms_t t d = Some v).
Proof. exact accept_iff_top. Qed.
Print Assumptions C09_accept_iff.

(* the same for every setting of the quirk record in which the acceptance-relevant switches are off *)
Theorem C09_accept_iff_strict : forall e q lvl t d v, strict e q -> wf t = true ->
  (build e q lvl t d = BOk v <-> conf_f lvl (fuel_of t) t d = Some v).
Proof. exact accept_iff. Qed.
Print Assumptions C09_accept_iff_strict.

Theorem C09_no_panic : forall e t d, (e = Bind \/ e = Gen) -> wf t = true ->
  rbuild e qoff t d <> BPanic /\ tbuild e qoff t d <> BPanic.
Proof. exact no_panic_top. Qed.
Print Assumptions C09_no_panic.

Theorem C09_reject_is_error : forall e t d, (e = Bind \/ e = Gen) -> wf t = true ->
  (conforms_r t d = None -> exists c, rbuild e qoff t d = BErr c) /\
  (conforms_t t d = None -> exists c, tbuild e qoff t d = BErr c).
Proof. exact reject_top. Qed.
Print Assumptions C09_reject_is_error.

(* never a node outside the type: what a builder returns lies in the value space of the type *)
Theorem C09_built_in_type : forall e q lvl t d v, strict e q -> wf t = true ->
  build e q lvl t d = BOk v -> has_shape t v = true.
Proof. exact built_in_type. Qed.
Print Assumptions C09_built_in_type.

(* the hypotheses are satisfiable *)
Theorem C09_example : wf tBig = true /\ strict Bind qoff /\ strict Gen qoff.
Proof. split; [vm_compute; reflexivity|split; [exact strict_bind_qoff|exact strict_gen_qoff]]. Qed.
Print Assumptions C09_example.

(* the full statement about the unchanged tree is false; one witness per confirmed leniency *)
Definition C09_full : Prop := accept_iff_pinned /\ no_panic_pinned.
Theorem C09_full_refuted : ~ C09_full.
Proof. intros [H _]. exact (accept_iff_pinned_false H). Qed.
Print Assumptions C09_full_refuted.

Theorem C09_refuted_dup_field :
  accepts_nonconforming LRepr tSM (DMap [(sx, DInt 1); (sx, DInt 2); (sc, DInt 1)]).
Proof. exact refuted_dup_field. Qed.
Theorem C09_refuted_dup_mapkey : accepts_nonconforming LRepr tMS (DMap [(sa, DInt 1); (sa, DInt 2)]).
Proof. exact refuted_dup_mapkey. Qed.
Theorem C09_refuted_union_two : accepts_nonconforming LRepr tUK (DMap [([105], DInt 1); ([115], DString sx)]).
Proof. exact refuted_union_two. Qed.
Theorem C09_refuted_rename_alias : accepts_nonconforming LRepr tSM (DMap [(sa, DInt 1); (sc, DInt 1)]).
Proof. exact refuted_rename_alias. Qed.
Theorem C09_refuted_member_alias : accepts_nonconforming LRepr tUK (DMap [(nInt, DInt 1)]).
Proof. exact refuted_member_alias. Qed.
Theorem C09_refuted_listpairs_dup :
  accepts_nonconforming LRepr tLP (DList [DList [DString sc; DInt 1]; DList [DString sc; DInt 2]]).
Proof. exact refuted_listpairs_dup. Qed.
Theorem C09_refuted_listpairs_short :
  accepts_nonconforming LRepr tLP (DList [DList [DString sc; DInt 1]; DList [DString sa]]).
Proof. exact refuted_listpairs_short. Qed.
Theorem C09_refuted_enum_name_alias : accepts_nonconforming LRepr tEn (DString nAa).
Proof. exact refuted_enum_name_alias. Qed.
Theorem C09_refuted_enum_type_unchecked : accepts_nonconforming LType tEn (DString [103]).
Proof. exact refuted_enum_type_unchecked. Qed.
Theorem C09_refuted_int_narrow : accepts_nonconforming LRepr tI8 (DMap [([118], DInt 300)]).
Proof. exact refuted_int_narrow. Qed.
Theorem C09_refuted_listpairs_unknown_panic :
  wf tLP = true /\
  rbuild Bind pinned tLP (DList [DList [DString sc; DInt 1]; DList [DString sq; DInt 1]]) = BPanic.
Proof. exact refuted_listpairs_unknown_panic. Qed.
Theorem C09_refuted_nullable_sum_panic :
  wf tNL = true /\ conforms_r tNL (DList [DInt 1; DNull]) <> None /\
  rbuild Bind pinned tNL (DList [DInt 1; DNull]) = BPanic.
Proof. exact refuted_nullable_sum_panic. Qed.
Print Assumptions C09_refuted_nullable_sum_panic.

(* through the codec: a typed builder fed by the strict dag-cbor decoder (repaired tree, links allowed,
   whole input consumed) accepts exactly the byte strings that are one well-formed DAG-CBOR item ([chk],
   Codec/CborSpec.v) denoting a tree within the decoder's limits that conforms to the type — and builds
   the value that tree denotes.  Composition of C03's decode_iff with C09_accept_iff. *)
Theorem C09_bytes_accept_iff : forall e o t bs v,
  (e = Bind \/ e = Gen) -> wf t = true -> strict_dagcbor o -> wfb bs ->
  ((exists d, decode o bs = Ok (d, []) /\ rbuild e qoff t d = BOk v) <->
   (exists d, chk true true true d bs = Some [] /\ fits o d /\ conforms_r t d = Some v)).
Proof. exact bytes_accept_iff. Qed.
Print Assumptions C09_bytes_accept_iff.

Theorem C09_bytes_built_in_type : forall e o t bs d v,
  (e = Bind \/ e = Gen) -> wf t = true ->
  decode o bs = Ok (d, []) -> rbuild e qoff t d = BOk v -> has_shape t v = true.
Proof. exact bytes_built_in_type. Qed.
Print Assumptions C09_bytes_built_in_type.

Theorem C09_bytes_no_panic : forall e o t bs d,
  (e = Bind \/ e = Gen) -> wf t = true -> decode o bs = Ok (d, []) -> rbuild e qoff t d <> BPanic.
Proof. exact bytes_no_panic. Qed.
Print Assumptions C09_bytes_no_panic.

(* satisfiable, both sides inhabited: {"c":null,"x":1} into struct {a Int (rename "x"), b optional nullable
   String, c nullable Int, d optional String} *)
Theorem C09_bytes_example :
  strict_dagcbor ex_opts /\ wfb ex_bytes /\ wf tSM = true /\
  decode ex_opts ex_bytes = Ok (DMap [(sc, DNull); (sx, DInt 1)], []) /\
  rbuild Bind qoff tSM (DMap [(sc, DNull); (sx, DInt 1)]) = BOk (VStruct [MVal (VInt 1); MAbsent; MNull; MAbsent]) /\
  chk true true true (DMap [(sc, DNull); (sx, DInt 1)]) ex_bytes = Some [].
Proof. exact bytes_accept_example. Qed.
Print Assumptions C09_bytes_example.
