(* Props/C06.v — no load returns data that does not hash to its link, whatever the storage does.
   Property theorems only; each closed by [exact] of a lemma proved in Proofs/LinkC06.v.
   [hasher_ok], [hash] (arbitrary function: no collision-freedom, no output-length law) and the
   codec registry are universally quantified; the one law asked of the codecs is
   [registry_consumes_all] (a successful decode has pulled the whole stream), which is proved below
   for dag-cbor, cbor and raw and remains a premise for dag-json and json. *)
Require Import IP.Base.Bytes IP.DM.Value IP.Codec.Cbor IP.Link.LinkSys IP.Link.LinkSpec.
Require Import IP.Proofs.LinkBase IP.Proofs.LinkC06 IP.Proofs.LinkInj.
Open Scope N_scope.

(* Unless storage is declared trusted, a load (any of the four forms) that reports success was
   given a complete stream whose bytes hash to the link; the node returned is what the link's
   decoder makes of exactly those bytes, the raw bytes returned are exactly those bytes. *)
Theorem C06_sound :
  forall (hasher_ok : N -> bool) (hash : N -> bytes -> bytes) (decoders : N -> option codec),
    registry_consumes_all decoders ->
    forall (f : lform) (ro : ropen) (l : link),
      lo_status (load_any hasher_ok hash decoders f false ro l) = SOk ->
      exists chunks : list bytes,
        ro = RStream chunks TEof /\
        verify hash l (concat chunks) = VOk /\
        (forall n : dm,
            lo_node (load_any hasher_ok hash decoders f false ro l) = Some n ->
            exists (c : codec) (p : N) (e : bool),
              decoders (lp_codec (link_proto l)) = Some c /\ c_dec c (concat chunks) = Some (n, p, e)) /\
        (forall raw : bytes,
            lo_raw (load_any hasher_ok hash decoders f false ro l) = Some raw -> raw = concat chunks).
Proof. exact sound. Qed.
Print Assumptions C06_sound.

(* the same in link terms: BuildLink of the link's own prototype over the hash of the delivered
   bytes has the binary form of the requested link *)
Theorem C06_sound_binary :
  forall (hasher_ok : N -> bool) (hash : N -> bytes -> bytes) (decoders : N -> option codec),
    registry_consumes_all decoders ->
    forall (f : lform) (ro : ropen) (l : link),
      lo_status (load_any hasher_ok hash decoders f false ro l) = SOk ->
      exists (chunks : list bytes) (l2 : link),
        ro = RStream chunks TEof /\
        build_link (link_proto l) (hash (lp_mhtype (link_proto l)) (concat chunks)) = Some l2 /\
        link_binary l2 = link_binary l.
Proof. exact sound_binary. Qed.
Print Assumptions C06_sound_binary.

(* Link.Binary() is injective on well-formed links (64-bit codes and digest length; CIDv0 = dag-pb +
   sha2-256), so for such a link and a hash whose output length fits 64 bits the conclusion is an
   equality of links: BuildLink over the hash of the delivered bytes gives back the requested link *)
Theorem C06_link_binary_inj :
  forall a b : link, wf_link a -> wf_link b -> link_binary a = link_binary b -> a = b.
Proof. exact link_binary_inj. Qed.
Print Assumptions C06_link_binary_inj.

Theorem C06_sound_eq :
  forall (hasher_ok : N -> bool) (hash : N -> bytes -> bytes) (decoders : N -> option codec),
    (forall mht bs, u64 (lenN (hash mht bs))) ->
    registry_consumes_all decoders ->
    forall (f : lform) (ro : ropen) (l : link), wf_link l ->
      lo_status (load_any hasher_ok hash decoders f false ro l) = SOk ->
      exists chunks : list bytes,
        ro = RStream chunks TEof /\
        build_link (link_proto l) (hash (lp_mhtype (link_proto l)) (concat chunks)) = Some l.
Proof. exact sound_eq. Qed.
Print Assumptions C06_sound_eq.

(* NodeReifier: Load and LoadPlusRaw hand the reifier the link system the call was made on (same
   TrustedStorage, same read opener), and only after the load itself succeeded *)
Theorem C06_reifier_handle :
  forall (hasher_ok : N -> bool) (hash : N -> bytes -> bytes) (decoders : N -> option codec)
         (rm : rmode) (f : lform) (h : handle) (l : link) (h' : handle),
    reifier_handle hasher_ok hash decoders rm f h l = Some h' ->
    h' = h /\ (f = FLoad \/ f = FLoadPlusRaw) /\
    lo_status (load_any hasher_ok hash decoders f (h_trusted h) (h_open h l) l) = SOk.
Proof.
  intros hasher_ok hash decoders rm f h l h' R. split.
  - exact (reifier_handle_is_users hasher_ok hash decoders rm f h l h' R).
  - exact (reifier_invoked_only_after_ok hasher_ok hash decoders rm f h l h' R).
Qed.
Print Assumptions C06_reifier_handle.

(* C06_sound for every load a reifier (an ADL) makes through the link system it was handed, during
   the outer call or later: unless the USER declared the storage trusted, such a load that reports
   success was given a complete stream that verifies against the requested link *)
Theorem C06_reifier_loads_sound :
  forall (hasher_ok : N -> bool) (hash : N -> bytes -> bytes) (decoders : N -> option codec),
    registry_consumes_all decoders ->
    forall (rm : rmode) (f : lform) (h : handle) (l : link) (h' : handle) (rm' : rmode) (f' : lform) (l' : link),
      reifier_handle hasher_ok hash decoders rm f h l = Some h' ->
      h_trusted h = false ->
      lo_status (load_h hasher_ok hash decoders rm' f' h' l') = SOk ->
      exists chunks : list bytes,
        h_open h l' = RStream chunks TEof /\
        verify hash l' (concat chunks) = VOk /\
        (forall n : dm,
            lo_node (load_h hasher_ok hash decoders rm' f' h' l') = Some n ->
            exists (c : codec) (p : N) (e : bool),
              decoders (lp_codec (link_proto l')) = Some c /\ c_dec c (concat chunks) = Some (n, p, e)) /\
        (forall raw : bytes,
            lo_raw (load_h hasher_ok hash decoders rm' f' h' l') = Some raw -> raw = concat chunks).
Proof. exact reifier_loads_sound. Qed.
Print Assumptions C06_reifier_loads_sound.

(* LoadRaw and LoadPlusRaw verify the hash even under TrustedStorage *)
Theorem C06_raw_forms_ignore_trust :
  forall (hasher_ok : N -> bool) (hash : N -> bytes -> bytes) (decoders : N -> option codec)
         (f : lform) (trusted : bool) (ro : ropen) (l : link),
    f = FLoadRaw \/ f = FLoadPlusRaw ->
    load_any hasher_ok hash decoders f trusted ro l = load_any hasher_ok hash decoders f false ro l.
Proof. exact raw_forms_ignore_trust. Qed.
Print Assumptions C06_raw_forms_ignore_trust.

(* bytes that do not hash to the link, no I/O error: hash mismatch from every load form, whatever
   the decoder does with them *)
Theorem C06_precedence :
  forall (hasher_ok : N -> bool) (hash : N -> bytes -> bytes) (decoders : N -> option codec),
    registry_consumes_all decoders ->
    forall (f : lform) (chunks : list bytes) (l : link) (c : codec),
      decoders (lp_codec (link_proto l)) = Some c ->
      hasher_ok (lp_mhtype (link_proto l)) = true ->
      verify hash l (concat chunks) = VMismatch ->
      load_any hasher_ok hash decoders f false (RStream chunks TEof) l = lfail EHashMismatch.
Proof. exact precedence. Qed.
Print Assumptions C06_precedence.

(* an error from the read opener is returned as such, trusted or not *)
Theorem C06_io_open :
  forall (hasher_ok : N -> bool) (hash : N -> bytes -> bytes) (decoders : N -> option codec)
         (f : lform) (trusted : bool) (l : link) (c : codec),
    decoders (lp_codec (link_proto l)) = Some c ->
    hasher_ok (lp_mhtype (link_proto l)) = true ->
    load_any hasher_ok hash decoders f trusted ROpenErr l = lfail EOpen.
Proof. exact io_open. Qed.
Print Assumptions C06_io_open.

(* a read error at any offset of the stream is returned as the I/O error by an untrusted load *)
Theorem C06_io_read :
  forall (hasher_ok : N -> bool) (hash : N -> bytes -> bytes) (decoders : N -> option codec),
    registry_consumes_all decoders ->
    forall (f : lform) (chunks : list bytes) (l : link) (c : codec),
      decoders (lp_codec (link_proto l)) = Some c ->
      hasher_ok (lp_mhtype (link_proto l)) = true ->
      load_any hasher_ok hash decoders f false (RStream chunks TErr) l = lfail EIo.
Proof. exact io_read. Qed.
Print Assumptions C06_io_read.

(* ... and never yields Ok, a node or bytes, in any configuration (trusted, unknown codec, ...) *)
Theorem C06_io :
  forall (hasher_ok : N -> bool) (hash : N -> bytes -> bytes) (decoders : N -> option codec),
    registry_consumes_all decoders ->
    forall (f : lform) (trusted : bool) (ro : ropen) (l : link),
      ro = ROpenErr \/ (exists chunks : list bytes, ro = RStream chunks TErr) ->
      let o := load_any hasher_ok hash decoders f trusted ro l in
      lo_status o <> SOk /\ lo_node o = None /\ lo_raw o = None.
Proof. exact io_never_ok. Qed.
Print Assumptions C06_io.

(* a store that does not report success (encoder refused the value, open/commit failure, reported
   write failure, BuildLink panic) leaves the storage unchanged — with or without the write-error
   latch in Store *)
Theorem C06_store_atomic :
  forall (hasher_ok : N -> bool) (hash : N -> bytes -> bytes) (encoders : N -> option codec)
         (latch : bool) (sk : skind) (w : wbeh) (st : storage) (lp : lproto) (v : dm) (s : sout) (st' : storage),
    store hasher_ok hash encoders latch sk w st lp v = (s, st') -> so_status s <> SOk -> st' = st.
Proof. exact store_atomic. Qed.
Print Assumptions C06_store_atomic.

Theorem C06_store_encode_error :
  forall (hasher_ok : N -> bool) (hash : N -> bytes -> bytes) (encoders : N -> option codec)
         (latch : bool) (sk : skind) (w : wbeh) (st : storage) (lp : lproto) (v : dm) (c : codec),
    encoders (lp_codec lp) = Some c ->
    hasher_ok (lp_mhtype lp) = true ->
    w_open_err w = false ->
    c_enc c v = None -> store hasher_ok hash encoders latch sk w st lp v = (sfail EEncode, st).
Proof. exact store_encode_error. Qed.
Print Assumptions C06_store_encode_error.

(* Whatever the storage writer does — sticky or transient failures, short writes, any per-Write
   schedule — a store that gets as far as the committer (reports Ok, or the committer's own error)
   has handed the writer exactly the encoder's output, returns the link ComputeLink returns, and
   (when Ok) commits exactly that output under it.  Holds when Store has the write-error latch (the
   repaired tree) for EVERY encoder, and without it for encoders that report failed writes. *)
Theorem C06_store_commits_whole :
  forall (hasher_ok : N -> bool) (hash : N -> bytes -> bytes) (encoders : N -> option codec)
         (latch : bool) (sk : skind) (w : wbeh) (st : storage) (lp : lproto) (v : dm)
         (c : codec) (chunks : list bytes) (s : sout) (st' : storage),
    encoders (lp_codec lp) = Some c ->
    c_enc c v = Some chunks ->
    latch || negb (c_werr_ignored c) = true ->
    store hasher_ok hash encoders latch sk w st lp v = (s, st') ->
    so_status s = SOk \/ so_status s = SErr ECommit ->
    s = {| so_status := so_status s; so_link := so_link (compute hasher_ok hash encoders lp v) |} /\
    so_status (compute hasher_ok hash encoders lp v) = SOk /\
    (so_status s = SOk ->
     exists l : link, so_link s = Some l /\ st' = put sk st (skey sk l) (concat chunks)).
Proof. exact store_commits_whole. Qed.
Print Assumptions C06_store_commits_whole.

(* Full store-side statement for the capacity-limited (sticky) writer: running out of room during
   the encoder's output makes the store fail and commit nothing. *)
Definition C06_store_write_error_full (latch : bool) : Prop :=
  forall (hasher_ok : N -> bool) (hash : N -> bytes -> bytes) (encoders : N -> option codec)
         (sk : skind) (w : wbeh) (st : storage) (lp : lproto) (v : dm) (c : codec)
         (chunks : list bytes) (k : N),
    encoders (lp_codec lp) = Some c ->
    hasher_ok (lp_mhtype lp) = true ->
    w_open_err w = false ->
    c_enc c v = Some chunks ->
    w_cap w = Some k ->
    k < lenN (concat chunks) ->
    store hasher_ok hash encoders latch sk w st lp v = (sfail (wfail_class w chunks), st).

(* with the latch (repaired tree, fix 4c486a6) it holds for every encoder ... *)
Theorem C06_store_write_error : C06_store_write_error_full true.
Proof.
  intros hasher_ok hash encoders sk w st lp v c chunks k C H O E K L.
  exact (store_write_error hasher_ok hash encoders true sk w st lp v c chunks k C H O eq_refl E K L).
Qed.
Print Assumptions C06_store_write_error.

(* ... without it, for every encoder that reports a failed write (dag-cbor, cbor, raw) ... *)
Theorem C06_store_write_error_partial :
  forall (hasher_ok : N -> bool) (hash : N -> bytes -> bytes) (encoders : N -> option codec)
         (latch : bool) (sk : skind) (w : wbeh) (st : storage) (lp : lproto) (v : dm) (c : codec)
         (chunks : list bytes) (k : N),
    encoders (lp_codec lp) = Some c ->
    hasher_ok (lp_mhtype lp) = true ->
    w_open_err w = false ->
    latch || negb (c_werr_ignored c) = true ->
    c_enc c v = Some chunks ->
    w_cap w = Some k ->
    k < lenN (concat chunks) ->
    store hasher_ok hash encoders latch sk w st lp v = (sfail (wfail_class w chunks), st).
Proof. exact store_write_error. Qed.
Print Assumptions C06_store_write_error_partial.

(* ... and fails without the latch for an encoder that drops write errors, as refmt's JSON encoder
   (dag-json, json) does: on the pinned tree the store reports success and commits the truncated
   block *)
Theorem C06_store_write_error_refuted :
  exists (encoders : N -> option codec) (w : wbeh) (lp : lproto) (v : dm) (s : sout) (st' : storage),
    store toy_ok toy_hash encoders false memstore_kind w [] lp v = (s, st') /\
    w_cap w = Some 1 /\
    (exists (c : codec) (chunks : list bytes),
        encoders (lp_codec lp) = Some c /\ c_enc c v = Some chunks /\ 1 < lenN (concat chunks)) /\
    so_status s = SOk /\ st' <> [].
Proof. exact store_write_error_refuted. Qed.
Print Assumptions C06_store_write_error_refuted.

(* a single failing Write anywhere in the schedule (later writes succeed): never Ok, nothing
   committed — with the latch, or with an encoder that reports it *)
Theorem C06_store_transient_write_error :
  forall (hasher_ok : N -> bool) (hash : N -> bytes -> bytes) (encoders : N -> option codec)
         (latch : bool) (sk : skind) (w : wbeh) (st : storage) (lp : lproto) (v : dm)
         (c : codec) (pre : list bytes) (x : bytes) (post : list bytes),
    encoders (lp_codec lp) = Some c ->
    hasher_ok (lp_mhtype lp) = true ->
    w_open_err w = false ->
    latch || negb (c_werr_ignored c) = true ->
    c_enc c v = Some (pre ++ x :: post) ->
    w_cap w = None ->
    nth_error (w_sched w) (length pre) = Some WFail ->
    so_status (fst (store hasher_ok hash encoders latch sk w st lp v)) <> SOk /\
    snd (store hasher_ok hash encoders latch sk w st lp v) = st.
Proof. exact store_transient_write_error. Qed.
Print Assumptions C06_store_transient_write_error.

(* without the latch and with an encoder that ignores the failed write: success is reported for a
   block with a hole, under a link that is not ComputeLink's *)
Theorem C06_store_transient_refuted :
  let encoders := fun _ : N => Some sloppy3_codec in
  let w := {| w_open_err := false; w_cap := None; w_sched := [WOk; WFail]; w_commit_err := false |} in
  exists (l : link) (st' : storage),
    store toy_ok toy_hash encoders false memstore_kind w [] toy_lp DNull =
    ({| so_status := SOk; so_link := Some l |}, st') /\
    lookup st' (skey memstore_kind l) = Some [1; 3] /\
    so_link (compute toy_ok toy_hash encoders toy_lp DNull) <> Some l.
Proof. exact store_transient_refuted. Qed.
Print Assumptions C06_store_transient_refuted.

(* the codec law, for the codecs that are modelled concretely *)
Theorem C06_dagcbor_consumes_all :
  forall (links : bool) (sm : sortmode) (reject_tags : bool),
    consumes_all (cbor_family_codec links sm reject_tags).
Proof. exact cbor_family_consumes_all. Qed.
Print Assumptions C06_dagcbor_consumes_all.

Theorem C06_raw_consumes_all : consumes_all raw_codec.
Proof. exact raw_consumes_all. Qed.
Print Assumptions C06_raw_consumes_all.

(* so, for the default registry, the law is only assumed of the two JSON codecs *)
Theorem C06_default_registry_law :
  forall (reject_tags : bool) (dagjson json : codec),
    consumes_all dagjson -> consumes_all json ->
    registry_consumes_all (default_registry reject_tags dagjson json).
Proof. exact default_registry_consumes_all. Qed.
Print Assumptions C06_default_registry_law.

(* the law cannot be dropped: a decoder that succeeds on a prefix makes Fill return a node for a
   block that does not hash to the link *)
Theorem C06_sound_needs_consumes_all :
  exists (decoders : N -> option codec) (l : link) (chunks : list bytes),
    lo_status (fill toy_ok toy_hash decoders false (RStream chunks TEof) l) = SOk /\
    verify toy_hash l (concat chunks) = VMismatch.
Proof. exact sound_needs_consumes_all. Qed.
Print Assumptions C06_sound_needs_consumes_all.
