(* Props/C18.v — file-system store writes are atomic (partial by nature): property theorems only.
   Model: Store/FsCrash.v (interleavings of the writer machine of Store/FsStore.v, crashes = any
   prefix, failures = any step replaced by an error; a failing write may be short).
   OUTSIDE the model, exercised but not proved: durability without fsync, the kernel's actual
   rename atomicity, real thread scheduling. *)
Require Import IP.Base.Bytes IP.Base.GoSem IP.Gen.FromGo IP.Store.Storage IP.Store.FsStore IP.Store.FsCrash.
Require Import IP.Proofs.StoreBase IP.Proofs.StoreB32 IP.Proofs.StoreFs IP.Proofs.StoreCrash IP.Proofs.StoreCrashTop
               IP.Proofs.StoreSeq IP.Proofs.StoreGood IP.Proofs.StoreFsRefine IP.Proofs.StoreUsable IP.Proofs.StoreRefuted.
From Coq Require Import List Bool.
Import ListNotations.

(* For every set of writers (Put / PutVec / PutStream+commit / aborted streams, same or different
   keys), every interleaving of their system calls, cut after any number of steps (process death,
   abandoned stream), with any step replaced by a failure: every key path is ABSENT or holds EXACTLY
   the whole content some writer committed for THAT key.
   [keypath cfg k p]: p = pathForKey(k) and k is not subject to the C17 defect (its escaped form has
   no '/', '.', NUL and is not empty) — with the escaping function applied that is every non-empty
   key ([C18_escaping_keys]); without it the excluded keys are exactly the C17 finding. *)
Theorem C18_atomic : forall cfg ws sched,
  (forall k k', wfb k -> wfb k' -> enc_key cfg k = enc_key cfg k' -> k = k') ->
  Forall (writer_started cfg) ws ->
  forall k p, keypath cfg k p ->
    let f := fst (exec (fs_fresh cfg) ws sched) in
    fs_lookup f p = None \/ exists c, fs_lookup f p = Some (File c) /\ committed ws k c.
Proof. exact crash_atomic. Qed.
Print Assumptions C18_atomic.

(* for the repaired default configuration (base32 applied) no hypothesis about the escaping
   function is left, and [keypath] covers every non-empty key ([C18_escaping_keys]) *)
Theorem C18_atomic_repaired : forall base sh ws sched,
  Forall (writer_started (repaired_cfg base sh)) ws ->
  forall k p, keypath (repaired_cfg base sh) k p ->
    let f := fst (exec (fs_fresh (repaired_cfg base sh)) ws sched) in
    fs_lookup f p = None \/ exists c, fs_lookup f p = Some (File c) /\ committed ws k c.
Proof.
  intros base sh ws sched F k p K. apply crash_atomic; auto.
  apply escaping_enc_inj. split. reflexivity. constructor. exact b32enc_inj. exact b32enc_alpha. exact b32enc_nonempty.
Qed.
Print Assumptions C18_atomic_repaired.

(* the same from any state satisfying the invariant, e.g. the state left by an earlier crash;
   [C0] = what was committed before *)
Theorem C18_atomic_from : forall cfg C0 f0 ws0 ws sched,
  (forall k k', wfb k -> wfb k' -> enc_key cfg k = enc_key cfg k' -> k = k') ->
  inv cfg C0 f0 ws0 ->
  Forall (writer_started cfg) ws ->
  forall k p, keypath cfg k p ->
    let f := fst (exec f0 ws sched) in
    fs_lookup f p = None \/ exists c, fs_lookup f p = Some (File c) /\ (C0 k c \/ committed ws k c).
Proof. exact crash_atomic_from. Qed.
Print Assumptions C18_atomic_from.

(* the invariant behind it holds in EVERY reachable state: this is what a concurrent reader sees *)
Theorem C18_invariant : forall cfg C sched f ws, inv cfg C f ws -> inv cfg C (fst (exec f ws sched)) (snd (exec f ws sched)).
Proof. exact exec_inv. Qed.
Print Assumptions C18_invariant.

(* staging on ANOTHER file system (.temp a symlink or mount): the kernel refuses the rename with
   EXDEV and nothing changes — one of the step effects ([eff]) under which [step_inv] preserves the
   invariant, i.e. an instance of "this step fails" *)
Theorem C18_cross_device_rename_is_covered : forall x f s,
  eff f s (fst (sys_exec_x x f s)) (snd (sys_exec_x x f s)).
Proof. exact sys_exec_x_eff. Qed.
Print Assumptions C18_cross_device_rename_is_covered.

(* staging files never collide with key paths *)
Theorem C18_staging_disjoint : forall cfg name k p,
  keypath cfg k p -> stage_path (f_base cfg) name <> p.
Proof. exact staging_never_a_key_path. Qed.
Print Assumptions C18_staging_disjoint.

(* with the escaping function applied, every non-empty key is covered *)
Theorem C18_escaping_keys : forall cfg k p, escaping cfg -> wfb k -> k <> [] -> key_len_ok (enc_key cfg k) ->
  path_for_key cfg k = Some p -> keypath cfg k p.
Proof. exact escaping_keypath. Qed.
Print Assumptions C18_escaping_keys.

(* the writers the theorems quantify over are what the store creates *)
Theorem C18_writers_exist : forall cfg names kind k chunks w,
  wfb k -> plain (enc_key cfg k) -> key_len_ok (enc_key cfg k) ->
  mk_writer cfg names kind k chunks = Some w -> writer_started cfg w.
Proof. exact mk_writer_started. Qed.
Print Assumptions C18_writers_exist.

Example C18_atomic_hyp_satisfiable :
  let cfg := pinned_cfg wbase R12 in
  (forall k k', wfb k -> wfb k' -> enc_key cfg k = enc_key cfg k' -> k = k') /\
  exists w, mk_writer cfg (fun i => stage_name (N.of_nat i)) WPut [107;101;121]%N [[1;2]%N; [3]%N] = Some w.
Proof. split. intros k k' _ _ H. exact H. eexists. reflexivity. Qed.

(* C18_usable: after ANY such execution a new process can open the store (Init succeeds and changes
   nothing), and a put of any storable key under an unused staging name runs to success and the
   content can be read back *)
Theorem C18_usable : forall cfg ws sched,
  path_ok (f_base cfg) ->
  (forall k k', wfb k -> wfb k' -> enc_key cfg k = enc_key cfg k' -> k = k') ->
  Forall (writer_started cfg) ws ->
  let f := fst (exec (fs_fresh cfg) ws sched) in
  good cfg f /\
  fs_init cfg f = (f, Ok tt) /\
  forall k d env chunks, storable cfg k d ->
    we_base env = f_base cfg -> we_dest env = Some d -> comp_ok (we_names env 0) ->
    fs_lookup f (stage_path (f_base cfg) (we_names env 0)) = None ->
    exists f' log, w_run (w_fuel env chunks) env f (WCreate 0 chunks) [] = (f', Ok tt, log) /\
                   good cfg f' /\
                   sys_exec f' (SOpenRd d) = (f', Ok (RVNode (File (concat chunks)))).
Proof. exact crash_usable. Qed.
Print Assumptions C18_usable.

(* without escaping (the code as it stands) a key path can lie INSIDE the staging directory: the
   reason the theorems exclude the keys of the C17 finding *)
Theorem C18_staging_collision_refuted :
  path_for_key (pinned_cfg wbase R12) k_intemp = Some (stage_path wbase [122;122]%N).
Proof. exact staging_collision_refuted. Qed.
Print Assumptions C18_staging_collision_refuted.
