Require Import IP.Base.Bytes IP.Store.Storage IP.Store.FsStore IP.Store.FsCrash.
Theorem C18_placeholder : True. Proof. exact I. Qed.
Print Assumptions C18_placeholder.
