(* Props/C13.v — generated code behaves exactly like the reflection binding.
   Property theorems only; proofs are in Proofs/SchemaEngines.v, SchemaRefute.v, SchemaTop.v.
   "The generated package compiles" is not a theorem: it is checked on every run by generating code
   with the generator of the working tree and building it (vlib/props/c13.py, extra). *)
Require Import IP.Base.Bytes IP.DM.Value IP.Schema.Types IP.Schema.View IP.Schema.Conform IP.Schema.Sem
  IP.Proofs.SchemaBuild IP.Proofs.SchemaEngines IP.Proofs.SchemaRefute IP.Proofs.SchemaTop.

(* with the deviations of both engines off: same outcome, same type-level and representation views *)
Theorem C13_equiv : forall lvl t d, wf t = true -> gen_supported t = true ->
  observe Bind qoff lvl t d = observe Gen qoff lvl t d.
Proof. exact equiv_top. Qed.
Print Assumptions C13_equiv.

(* and that common behaviour is the specified one: accepted iff conforming, with the specified type view *)
Theorem C13_spec : forall e lvl t d, wf t = true -> (e = Bind \/ e = Gen) ->
  match conf_f lvl (fuel_of t) t d with
  | Some v => exists o, observe e qoff lvl t d = BOk o /\ fst o = tview_spec t v
  | None => exists c, observe e qoff lvl t d = BErr c
  end.
Proof. exact observe_spec. Qed.
Print Assumptions C13_spec.

Theorem C13_example : forallb (fun t => wf t && gen_supported t) [tSM; tTU; tUK; tKD; tMS; tNL] = true.
Proof. vm_compute. reflexivity. Qed.
Print Assumptions C13_example.

(* the unchanged tree: the engines differ, one witness per leniency of bindnode and per deviation of
   the generated code *)
Definition C13_full : Prop := equiv_pinned.
Theorem C13_full_refuted : ~ C13_full.
Proof. exact equiv_pinned_false. Qed.
Print Assumptions C13_full_refuted.

Theorem C13_refuted_dup_field : engines_differ LRepr tSM (DMap [(sx, DInt 1); (sx, DInt 2); (sc, DInt 1)]).
Proof. exact engines_differ_dup_field. Qed.
Theorem C13_refuted_dup_mapkey : engines_differ LRepr tMS (DMap [(sa, DInt 1); (sa, DInt 2)]).
Proof. exact engines_differ_dup_mapkey. Qed.
Theorem C13_refuted_union_two : engines_differ LRepr tUK (DMap [([105], DInt 1); ([115], DString sx)]).
Proof. exact engines_differ_union_two. Qed.
Theorem C13_refuted_rename_alias : engines_differ LRepr tSM (DMap [(sa, DInt 1); (sc, DInt 1)]).
Proof. exact engines_differ_rename_alias. Qed.
Theorem C13_refuted_member_alias : engines_differ LRepr tUK (DMap [(nInt, DInt 1)]).
Proof. exact engines_differ_member_alias. Qed.
Theorem C13_refuted_nullable_kinded : engines_differ LRepr tNL (DList [DInt 1; DNull]).
Proof. exact engines_differ_nullable_kinded. Qed.
Theorem C13_refuted_kinded_len : engines_differ LType tKD (DMap [(nS, DMap [(sa, DInt 1); (sc, DInt 2)])]).
Proof. exact engines_differ_kinded_len. Qed.
Theorem C13_refuted_gen_tuple_missing : engines_differ LRepr tTU (DList []).
Proof. exact engines_differ_gen_tuple_missing. Qed.
Theorem C13_refuted_gen_nullable_kinded_null : engines_differ LRepr tNL (DList [DNull]).
Proof. exact engines_differ_gen_nullable_kinded_null. Qed.
Theorem C13_refuted_gen_stringprefix_split : engines_differ LRepr tSP2 (DString [115; 45; 97]).
Proof. exact engines_differ_gen_stringprefix_split. Qed.
Print Assumptions C13_refuted_gen_stringprefix_split.
