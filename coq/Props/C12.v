(* Props/C12.v — "assemblers enforce their protocol", for the basicnode assemblers (generic node
   builders).  Property theorems only.  The legal grammar with the two rejections injected at any
   position: [AScript] / [AScriptP] in coq/Node/Protocol.v (annotated scripts: call, expected class). *)
Require Import IP.Base.Bytes IP.DM.Value IP.Node.Basic IP.Node.Protocol
  IP.Proofs.NodeBuild IP.Proofs.NodeRoot IP.Proofs.NodeC12.

(* Every legal call sequence — nested to any depth, with repeated keys and wrong-kind assignments
   injected anywhere — produces call by call exactly the annotated results (ok everywhere except
   repeated_key / wrong_kind at the injected calls), ends with a finished builder, and the node is
   exactly the accepted entries in order, as if the rejected calls had not been made. *)
Theorem C12_legal_ok : forall q p v aops,
  AScriptP q p v aops ->
  exists n, run_tol q (init p) (map fst aops) = (map snd aops, Some (SDone p n)) /\
            abs n = v /\ wf n.
Proof. exact ascript_run. Qed.
Print Assumptions C12_legal_ok.

(* A repeated key is reported at the call that supplies it, and
   run (pre ++ rejected ++ post) = run (pre ++ post) up to the rejected calls' own results. *)
Theorem C12_dup_rollback : forall q s0 pre_ops rej post tr t m r k,
  run_tol q s0 pre_ops = (tr, Some (SOpen (FMap t m MaInitial :: r))) ->
  mem_key k m = true -> DupCall k rej ->
  run_tol q s0 (pre_ops ++ map fst rej ++ post) =
    pre (tr ++ map snd rej) (run_tol q (SOpen (FMap t m MaInitial :: r)) post) /\
  run_tol q s0 (pre_ops ++ post) =
    pre tr (run_tol q (SOpen (FMap t m MaInitial :: r)) post).
Proof. exact dup_rollback. Qed.
Print Assumptions C12_dup_rollback.

Theorem C12_dup_reported : forall k rej,
  DupCall k rej -> exists front o, rej = front ++ [(o, SErr ERepeatedKey)].
Proof. exact dup_call_last. Qed.
Print Assumptions C12_dup_reported.

(* every key the assembler has accepted is refused when supplied again *)
Theorem C12_accepted_key_refused : forall ks t m k, minv ks t m -> In k ks -> mem_key k m = true.
Proof. exact accepted_key_refused. Qed.
Print Assumptions C12_accepted_key_refused.

(* An assignment of a kind the position cannot hold is reported by an error from that call and
   changes nothing: key assemblers, typed root builders; any-kind positions refuse nothing. *)
Theorem C12_bad_kind :
  (forall q t m r o c, KeyTry (o, c) ->
     exists e, c = SErr e /\ step q (SOpen (FMap t m MaMidKey :: r)) o = OErr e (SOpen (FMap t m MaMidKey :: r))) /\
  (forall q p o, root_wrong p o = true -> step q (init p) o = OErr EWrongKind (init p)) /\
  (forall q top rest o, accepts_any top -> is_node_op o = true ->
     exists s', step q (SOpen (top :: rest)) o = OOk s').
Proof.
  split; [exact key_bad_kind|split; [exact root_bad_kind|exact any_position_accepts]].
Qed.
Print Assumptions C12_bad_kind.

(* ------------------------------------------------------------------ typed engines *)
(* The same for the typed builders of the two engines (bindnode, generated code).  Model:
   coq/Node/Typed.v — Msg3 structs, typed maps {String:T} and lists [T] of them, nested to any depth.
   Grammar with injected rejections: coq/Node/TypedProtocol.v ([TScript e q ty v script]).
   [tq_ok e q]: the quirk settings in which the protocol defects of engine e are off. *)
Require Import IP.Node.Typed IP.Node.TypedProtocol IP.Proofs.NodeTypedAll IP.Proofs.NodeTyped.

(* Every legal script for a value v of type ty — entry shortcut or key assembler + value, fields in
   any order, nested containers, AssignNode of conforming nodes, any size hints — with, at ANY position,
   wrong-kind calls (roots, map values, list elements, int fields, key assemblers), repeated fields /
   map keys through either path, unknown field names (generated code) and a Finish that comes too early
   (missing field), has call by call exactly the annotated results and builds exactly v. *)
Theorem C12_typed_all_scripts : forall e q ty v aops,
  tq_ok e q -> TScript e q ty v aops ->
  trun_tol e q (tinit ty) (map fst aops) = (map snd aops, Some (TDone v)) /\
  tbuild e (TDone v) = Some (tval_dm e v).
Proof. exact typed_all_scripts. Qed.
Print Assumptions C12_typed_all_scripts.

(* roll-back: a rejected request (repeated key or field through either path, unknown field, early
   Finish) leaves the assembler where it was: run (pre ++ rejected ++ post) = run (pre ++ post) *)
Theorem C12_typed_rollback : forall e q s0 pre_ops s rej post tr,
  tq_ok e q -> trun_tol e q s0 pre_ops = (tr, Some s) -> Rejected e s rej ->
  trun_tol e q s0 (pre_ops ++ map fst rej ++ post) = tpre (tr ++ map snd rej) (trun_tol e q s post) /\
  trun_tol e q s0 (pre_ops ++ post) = tpre tr (trun_tol e q s post).
Proof. exact typed_rollback. Qed.
Print Assumptions C12_typed_rollback.

(* a wrong-kind call is answered with an error by that call and changes nothing — for EVERY quirk
   setting, at every kind of position *)
Theorem C12_typed_bad_kind : forall e q,
  (forall ty stk o, tpos stk ty -> pos_wrong ty o = true ->
     tstep e q (TOpen stk) o = TErr TEWrong (TOpen stk)) /\
  (forall done vals f r o c, IntTry (o, c) ->
     exists err, c = TSErr err /\
       tstep e q (TOpen (TStruct done vals (TsMidValue f) :: r)) o =
       TErr err (TOpen (TStruct done vals (TsMidValue f) :: r))) /\
  (forall done vals r o c, SKeyTry e (o, c) ->
     exists err, c = TSErr err /\
       tstep e q (TOpen (TStruct done vals TsMidKey :: r)) o = TErr err (TOpen (TStruct done vals TsMidKey :: r))) /\
  (forall vt t r o c, TKeyTry (o, c) ->
     exists err, c = TSErr err /\
       tstep e q (TOpen (TMap vt t TmMidKey :: r)) o = TErr err (TOpen (TMap vt t TmMidKey :: r))).
Proof. exact typed_bad_kind. Qed.
Print Assumptions C12_typed_bad_kind.

(* call orders the contract calls misuse (a second key before the value, Finish with a pending key or
   value, AssembleValue with no key, any call after the builder finished) are outside [TScript]; the
   generated code detects them (panic), bindnode keeps no protocol state (outside its model) *)
Theorem C12_typed_misuse_detected : forall q r,
  (forall done vals o, is_map_op o = true ->
     tstep EGen q (TOpen (TStruct done vals TsMidKey :: r)) o = TPanic) /\
  (forall done vals f o, is_map_op o = true -> o <> AssembleValue ->
     tstep EGen q (TOpen (TStruct done vals (TsExpectValue f) :: r)) o = TPanic) /\
  (forall done vals f o, is_map_op o = true ->
     tstep EGen q (TOpen (TStruct done vals (TsMidValue f) :: r)) o = TPanic) /\
  (forall vt t o, is_map_op o = true -> tstep EGen q (TOpen (TMap vt t TmMidKey :: r)) o = TPanic) /\
  (forall vt t k o, is_map_op o = true -> o <> AssembleValue ->
     tstep EGen q (TOpen (TMap vt t (TmExpectValue k) :: r)) o = TPanic) /\
  (forall vt t k o, is_map_op o = true -> tstep EGen q (TOpen (TMap vt t (TmMidValue k) :: r)) o = TPanic) /\
  (forall done vals, tstep EGen q (TOpen (TStruct done vals TsInitial :: r)) AssembleValue = TPanic) /\
  (forall vt t, tstep EGen q (TOpen (TMap vt t TmInitial :: r)) AssembleValue = TPanic) /\
  (forall v o, tstep EGen q (TDone v) o = TNoMethod).
Proof. exact gen_misuse_panics. Qed.
Print Assumptions C12_typed_misuse_detected.

Theorem C12_typed_dup_ok : forall e q, tq_ok e q -> typed_dup_statement e q.
Proof. exact typed_dup_ok. Qed.
Print Assumptions C12_typed_dup_ok.

Theorem C12_typed_dup_repaired : forall e, typed_dup_statement e trepaired.
Proof. exact typed_dup_repaired. Qed.
Print Assumptions C12_typed_dup_repaired.

Theorem C12_typed_dup_refuted : forall e, ~ typed_dup_statement e tpinned.
Proof. exact typed_dup_refuted. Qed.
Print Assumptions C12_typed_dup_refuted.

(* non-vacuity: a struct in a map in a list, with every kind of rejection injected, is in the grammar
   and runs as annotated *)
Theorem C12_typed_nested_example :
  (forall q, TScript EGen q (TyL (TyM TyS)) nested_value nested_script) /\
  trun_tol EGen trepaired (tinit (TyL (TyM TyS))) (map fst nested_script) =
    (map snd nested_script, Some (TDone nested_value)).
Proof. split; [exact nested_script_legal|exact nested_script_runs]. Qed.
Print Assumptions C12_typed_nested_example.

(* ---- the pinned tree: the all-scripts statement fails there, one witness per known finding *)
Definition C12_full : Prop :=
  (forall q p v aops, AScriptP q p v aops ->
     exists n, run_tol q (init p) (map fst aops) = (map snd aops, Some (SDone p n)) /\ abs n = v) /\
  (forall e, typed_all_scripts_pinned e) /\
  (forall e, treset_ok e tpinned = true).

(* bind_struct_dup_accepted *)
Theorem C12_typed_refuted_bind_struct_dup : ~ typed_all_scripts_pinned EBind.
Proof. exact bind_struct_dup_refuted. Qed.
Print Assumptions C12_typed_refuted_bind_struct_dup.

(* bind_map_dup_accepted *)
Theorem C12_typed_refuted_bind_map_dup :
  TScript EBind trepaired (TyM TyS) (TVM [(k_a, TVS s123)]) dup_mapkey_entry_script /\
  trun_tol EBind tpinned (tinit (TyM TyS)) (map fst dup_mapkey_entry_script) <>
  (map snd dup_mapkey_entry_script, Some (TDone (TVM [(k_a, TVS s123)]))).
Proof. split; [exact (dup_mapkey_entry_legal EBind trepaired)|exact bind_map_dup_refuted]. Qed.
Print Assumptions C12_typed_refuted_bind_map_dup.

(* gen_map_keypath_dup_accepted *)
Theorem C12_typed_refuted_gen_map_keypath : ~ typed_all_scripts_pinned EGen.
Proof. exact gen_map_keypath_refuted. Qed.
Print Assumptions C12_typed_refuted_gen_map_keypath.

(* gen_map_assignnode_foreign_panic *)
Theorem C12_typed_refuted_gen_map_node :
  TScript EGen trepaired (TyM TyS) (TVM [(k_a, TVS s123)]) [tok (AssignNode plain_map_a)] /\
  trun_tol EGen tpinned (tinit (TyM TyS)) [AssignNode plain_map_a] = ([TSPanic], None).
Proof. split; [exact gen_map_node_legal|exact (proj1 gen_map_node_refuted)]. Qed.
Print Assumptions C12_typed_refuted_gen_map_node.

(* bind_reset_panics *)
Theorem C12_typed_refuted_bind_reset : treset_ok EBind tpinned = false /\ treset_ok EBind trepaired = true.
Proof. exact bind_reset_refuted. Qed.
Print Assumptions C12_typed_refuted_bind_reset.

Theorem C12_full_refuted : ~ C12_full.
Proof. intros [_ [H _]]. exact (bind_struct_dup_refuted (H EBind)). Qed.
Print Assumptions C12_full_refuted.
