(* Props/C12.v — "assemblers enforce their protocol", for the basicnode assemblers (generic node
   builders).  Property theorems only.  The legal grammar with the two rejections injected at any
   position: [AScript] / [AScriptP] in coq/Node/Protocol.v (annotated scripts: call, expected class). *)
Require Import IP.Base.Bytes IP.DM.Value IP.Node.Basic IP.Node.Protocol
  IP.Proofs.NodeBuild IP.Proofs.NodeRoot IP.Proofs.NodeC12.

(* Every legal call sequence — nested to any depth, with repeated keys and wrong-kind assignments
   injected anywhere — produces call by call exactly the annotated results (ok everywhere except
   repeated_key / wrong_kind at the injected calls), ends with a finished builder, and the node is
   exactly the accepted entries in order, as if the rejected calls had not been made. *)
Theorem C12_legal_ok : forall q p v aops,
  AScriptP q p v aops ->
  exists n, run_tol q (init p) (map fst aops) = (map snd aops, Some (SDone p n)) /\
            abs n = v /\ wf n.
Proof. exact ascript_run. Qed.
Print Assumptions C12_legal_ok.

(* A repeated key is reported at the call that supplies it, and
   run (pre ++ rejected ++ post) = run (pre ++ post) up to the rejected calls' own results. *)
Theorem C12_dup_rollback : forall q s0 pre_ops rej post tr t m r k,
  run_tol q s0 pre_ops = (tr, Some (SOpen (FMap t m MaInitial :: r))) ->
  mem_key k m = true -> DupCall k rej ->
  run_tol q s0 (pre_ops ++ map fst rej ++ post) =
    pre (tr ++ map snd rej) (run_tol q (SOpen (FMap t m MaInitial :: r)) post) /\
  run_tol q s0 (pre_ops ++ post) =
    pre tr (run_tol q (SOpen (FMap t m MaInitial :: r)) post).
Proof. exact dup_rollback. Qed.
Print Assumptions C12_dup_rollback.

Theorem C12_dup_reported : forall k rej,
  DupCall k rej -> exists front o, rej = front ++ [(o, SErr ERepeatedKey)].
Proof. exact dup_call_last. Qed.
Print Assumptions C12_dup_reported.

(* every key the assembler has accepted is refused when supplied again *)
Theorem C12_accepted_key_refused : forall ks t m k, minv ks t m -> In k ks -> mem_key k m = true.
Proof. exact accepted_key_refused. Qed.
Print Assumptions C12_accepted_key_refused.

(* An assignment of a kind the position cannot hold is reported by an error from that call and
   changes nothing: key assemblers, typed root builders; any-kind positions refuse nothing. *)
Theorem C12_bad_kind :
  (forall q t m r o c, KeyTry (o, c) ->
     exists e, c = SErr e /\ step q (SOpen (FMap t m MaMidKey :: r)) o = OErr e (SOpen (FMap t m MaMidKey :: r))) /\
  (forall q p o, root_wrong p o = true -> step q (init p) o = OErr EWrongKind (init p)) /\
  (forall q top rest o, accepts_any top -> is_node_op o = true ->
     exists s', step q (SOpen (top :: rest)) o = OOk s').
Proof.
  split; [exact key_bad_kind|split; [exact root_bad_kind|exact any_position_accepts]].
Qed.
Print Assumptions C12_bad_kind.

(* ------------------------------------------------------------------ typed engines *)
(* The statements above are about the generic node builders (basicnode).  For the typed builders of
   the two engines (model: coq/Node/Typed.v, two types) only the repeated-key clause is stated, as
   a property of single calls; the all-scripts theorem for them is not proved (C12_full). *)
Require Import IP.Node.Typed IP.Proofs.NodeTyped.

Definition C12_full : Prop :=
  (forall q p v aops, AScriptP q p v aops ->
     exists n, run_tol q (init p) (map fst aops) = (map snd aops, Some (SDone p n)) /\ abs n = v) /\
  (forall e, typed_dup_statement e tpinned).

Theorem C12_typed_dup_repaired : forall e, typed_dup_statement e trepaired.
Proof. exact typed_dup_repaired. Qed.
Print Assumptions C12_typed_dup_repaired.

Theorem C12_typed_dup_refuted : forall e, ~ typed_dup_statement e tpinned.
Proof. exact typed_dup_refuted. Qed.
Print Assumptions C12_typed_dup_refuted.

Theorem C12_full_refuted : ~ C12_full.
Proof. intros [_ H]. exact (typed_dup_refuted EBind (H EBind)). Qed.
Print Assumptions C12_full_refuted.
