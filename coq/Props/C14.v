(* Props/C14.v — paths address what was visited.  Property theorems only. *)
Require Import IP.Base.Bytes IP.DM.Value IP.Trav.Selector IP.Trav.Walk IP.Trav.Path
  IP.Proofs.TravSel IP.Proofs.TravPath.
Open Scope Z_scope.

(* every visit (path, node, reason) of any walk — any selector, any fuel, graphs whose blocks have unique map
   keys and are not bare links — resolves: get root path = the node visited, or, for a subset match, the node
   of which the visited one is the slice *)
Theorem C14_walk_paths : forall q g root f s,
  good_graph g = true -> keys_ok root = true ->
  Forall (resolves g root) (fst (walk_adv q g f root s)).
Proof. exact walk_paths_resolve. Qed.
Print Assumptions C14_walk_paths.

(* without "no block is a bare link" the statement fails: the walk visits the link node, get follows it *)
Definition C14_full : Prop := walk_paths_full.
Theorem C14_walk_paths_refuted_link_block : ~ C14_full.
Proof. exact walk_paths_full_refuted. Qed.
Print Assumptions C14_walk_paths_refuted_link_block.

(* get is the left fold of single-segment lookups (each followed by link loading) *)
Theorem C14_get_stepwise : forall g p n, get g n p = get_fold g n p.
Proof. exact get_stepwise. Qed.
Print Assumptions C14_get_stepwise.

Theorem C14_get_app : forall g p n q, get g n (p ++ q) = bind (get g n p) (fun v => get g v q).
Proof. exact get_app. Qed.
Print Assumptions C14_get_app.

(* get fails exactly when, after a resolvable prefix, one single step fails; the error is that step's *)
Theorem C14_fails_iff : forall g p n e,
  get g n p = Err e <->
  exists p1 sg p2 v, p = p1 ++ sg :: p2 /\ get g n p1 = Ok v /\ step_deref g v sg = Err e.
Proof. exact get_fails_iff. Qed.
Print Assumptions C14_fails_iff.

(* a step succeeds iff the segment exists; "terminal" iff a scalar was reached early; otherwise the
   segment is missing or is not an index *)
Theorem C14_step_ok_iff : forall n sg v, step n sg = Ok v <-> lookup_seg n sg = Some v.
Proof. exact step_ok_iff. Qed.
Print Assumptions C14_step_ok_iff.
Theorem C14_step_terminal_iff : forall n sg, step n sg = Err GTerminal <-> is_container n = false.
Proof. exact step_terminal_iff. Qed.
Print Assumptions C14_step_terminal_iff.
Theorem C14_step_missing : forall n sg,
  is_container n = true -> lookup_seg n sg = None -> step n sg = Err GNotExists \/ step n sg = Err GBadIndex.
Proof. exact step_missing. Qed.
Print Assumptions C14_step_missing.

(* a path survives String() and ParsePath when no segment is empty or contains '/' *)
Theorem C14_roundtrip : forall p,
  Forall (fun x => x <> [] /\ no_slash x) (map seg_string p) ->
  map seg_string (parse_path (format_path p)) = map seg_string p.
Proof. exact path_roundtrip. Qed.
Print Assumptions C14_roundtrip.
Theorem C14_roundtrip_strings : forall l,
  Forall (fun x => x <> [] /\ no_slash x) l -> parse_path (format_path (map SegS l)) = map SegS l.
Proof. exact path_roundtrip_strings. Qed.
Print Assumptions C14_roundtrip_strings.

Theorem C14_hypotheses_satisfiable :
  good_graph [([1; 113; 18; 1; 170]%N, DMap [([118%N], DInt 7)])] = true /\
  keys_ok (DMap [([97%N], DLink [1; 113; 18; 1; 170]%N); ([98%N], DList [DInt 1; DString [104%N]])]) = true.
Proof. exact good_example. Qed.
Print Assumptions C14_hypotheses_satisfiable.

(* Focus / Get called on the Progress handed to a callback (nested focus, focus from a walk's visit): the reported path
   is the carried path followed by the focused path, the node is what Get from that node reaches, and it fails exactly
   when that Get fails *)
Theorem C14_focus_prefix : forall g pre n q v P lb,
  focus_from g pre n q = Ok (v, P, lb) -> P = pre ++ q /\ get g n q = Ok v.
Proof. exact focus_from_spec. Qed.
Print Assumptions C14_focus_prefix.
Theorem C14_focus_prefix_fails : forall g pre n q e, focus_from g pre n q = Err e <-> get g n q = Err e.
Proof. exact focus_from_fails. Qed.
Print Assumptions C14_focus_prefix_fails.

(* traversal.WalkLocal: every reported (path, node) resolves segment by segment to that node (maps with unique keys;
   a map key is ONE path segment whatever bytes it contains) *)
Theorem C14_walk_local_paths : forall root,
  keys_ok root = true ->
  Forall (fun pv => get_local root (fst pv) = Ok (snd pv)) (walk_local_all root).
Proof. exact walk_local_paths. Qed.
Print Assumptions C14_walk_local_paths.
