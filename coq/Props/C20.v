(* Props/C20.v — shared immutable objects are goroutine-safe (PARTIAL by nature).
   Property theorems only; proofs in coq/Proofs/HeapDrf.v, HeapConc.v (and the C11 files).

   Model: coq/Heap/Footprint.v — goroutines are heap programs (coq/Heap/GoMem.v) with an arena each,
   interleaving at single loads / stores / allocations; the footprint of a thread is the access log
   of running it alone.  coq/Heap/Conc.v — the thread programs: sequences of basicnode API calls
   (footprints computed by the heap model), and abstract programs for the shared objects outside the
   heap model (footprints read off the Go source).
   NOT modelled: the Go memory model, compiler/hardware reordering, the scheduler, sub-cell
   granularity.  The footprints are tied to the Go code by the race detector, not proved of it. *)
Require Import IP.Base.Bytes IP.DM.Value IP.Heap.GoMem IP.Heap.BasicHeap IP.Heap.Footprint IP.Heap.Conc.
Require Import IP.Proofs.HeapMem IP.Proofs.HeapLogic IP.Proofs.HeapPrims IP.Proofs.HeapDrf IP.Proofs.HeapConc.
From Coq Require Import List ZArith Bool.
Import ListNotations.
Local Open Scope nat_scope.

(* The classical theorem, once, for every cell type and every program: if the threads allocate in
   distinct, initially empty arenas and no thread's writes (stores and allocations of its solo run)
   touch an address in another thread's solo footprint, then EVERY interleaving is race-free (no
   reachable state in which two threads are about to access one cell, one of them writing) and every
   thread that finishes has the result it has running alone. *)
Theorem C20_drf : forall (V R : Type) (h0 : heap V) (ts : list (thread V R)),
  drf_check h0 ts = true ->
  race_free (h0, ts) /\
  forall s i t o, nth_error (snd (sched_run s (h0, ts))) i = Some t -> finished t = Some o ->
    exists t0 : thread V R, nth_error ts i = Some t0 /\ alone_out h0 t0 = o.
Proof. exact drf. Qed.
Print Assumptions C20_drf.

(* Clause "reading, comparing, encoding, walking": threads that only load are race-free among each
   other in every interleaving, whatever they read and however many they are. *)
Theorem C20_readers : forall (V R : Type) (h0 : heap V) (ts : list (thread V R)),
  NoDup (map t_ar ts) -> (forall t, In t ts -> nth (t_ar t) h0 [] = []) ->
  (forall t, In t ts -> wfree (t_prog t)) ->
  race_free (h0, ts) /\
  forall s i t o, nth_error (snd (sched_run s (h0, ts))) i = Some t -> finished t = Some o ->
    exists t0 : thread V R, nth_error ts i = Some t0 /\ alone_out h0 t0 = o.
Proof. exact readers_drf. Qed.
Print Assumptions C20_readers.

(* … and every accessor of a basicnode node — Kind, Length, lookups, iteration, As*, AsBytes and
   AsLargeBytes of plain bytes — is such a program; only reads of a streamBytes node are not. *)
Theorem C20_node_reads_only_load : forall cf l, Forall pure_read l -> wfree (prims_prog cf l).
Proof. exact prims_reads_wfree. Qed.
Print Assumptions C20_node_reads_only_load.

(* Clauses "copying, building fresh nodes from shared prototypes": from C11's ownership invariant, a
   Legal API call (copy into a fresh builder, AssignNode, transform, …) NEVER STORES to a cell of a
   finished node, reader positions apart … *)
Theorem C20_legal_calls_do_not_store_to_finished_nodes : forall cf tg h ar p o h' l,
  Inv tg h -> prim_pre p tg h -> run ar (prim_prog cf p) h = (o, h', l) ->
  forall a, In a (stores l) -> tg a = TFrozen -> exists r, hget h a = Some (CRdr r).
Proof. exact legal_call_stores. Qed.
Print Assumptions C20_legal_calls_do_not_store_to_finished_nodes.

(* … and everything it allocates lies in the caller's own arena, at addresses free before. *)
Theorem C20_allocations_are_local : forall V A (p : prog V A) ar h o h' l, run ar p h = (o, h', l) ->
  forall a, In (ENew a) l -> fst a = ar /\ hget h a = None.
Proof. exact run_new_arena. Qed.
Print Assumptions C20_allocations_are_local.

(* The scenario classes of the harness whose goroutines touch objects outside the heap model, with
   footprints read off the Go source: the premise of C20_drf holds for all of them but two. *)
Theorem C20_scenarios_disjoint :
  map (fun s => scen_check s 3) [ScReadViews; ScWalk; ScLoad; ScProtoBuild; ScWrapSchema; ScWrapInferred TsFullSync]
  = [true; true; true; true; true; true].
Proof. vm_compute. reflexivity. Qed.
Print Assumptions C20_scenarios_disjoint.

(* ---- a concrete instance: three goroutines read a shared list and copy it into builders of their own ---- *)

Definition w20_shared : list prim :=
  [PNewBuilder PrList; PBeginList (HBuilder (0, 1)) 4; PAssembleValue (HListAsm (0, 1));
   PAssign (HValL (0, 1)) (AvScalar (SInt 1)); PFinish (HListAsm (0, 1)); PBuild (HBuilder (0, 1))].
Definition w20_heap : mheap := hp (runh cfg_pinned pinit w20_shared).
Definition w20_thread (k : nat) : nat * list prim :=
  (k, [PRead (HNode (RList (0, 0))) AItems; PNewBuilder PrList;
       PAssignNode (HBuilder (k, 1)) (HNode (RList (0, 0))); PBuild (HBuilder (k, 1));
       PRead (HNode (RList (k, 0))) ALength]).

Example C20_hypotheses_satisfiable :
  basic_check cfg_pinned w20_heap [w20_thread 1; w20_thread 2; w20_thread 3] = true /\
  alone_out w20_heap (basic_thread cfg_pinned 2 (snd (w20_thread 2))) =
    Done [PAcc (XItems [RScalar KInt (0, 3)]); POk (HBuilder (2, 1)); POk HNone; POk (HNode (RList (2, 0))); PAcc (XLen 1)].
Proof. vm_compute. split; reflexivity. Qed.

(* ---- the refuted instances (all three confirmed with the race detector) ---- *)

(* concurrent AsBytes of one streamBytes node: both move the shared reader position *)
Definition w20_stream_shared : list prim :=
  [PNewSlice [97; 98; 99]%N; PNewStreamNode (HSlice {| s_arr := Some (0, 0); s_off := 0; s_len := 3; s_cap := 3 |})].
Definition w20_stream_heap : mheap := hp (runh cfg_pinned pinit w20_stream_shared).
Definition w20_stream_thread (k : nat) : nat * list prim := (k, [PRead (HNode (RStream (0, 1))) ABytes]).
Definition w20_stream_conf (cf : cfg) : conf val (list pout) :=
  (w20_stream_heap, [basic_thread cf 1 (snd (w20_stream_thread 1)); basic_thread cf 2 (snd (w20_stream_thread 2))]).

Theorem C20_refuted_streambytes_reader :
  basic_check cfg_pinned w20_stream_heap [w20_stream_thread 1; w20_stream_thread 2] = false /\
  racy (sched_run [0; 0] (w20_stream_conf cfg_pinned)) /\
  basic_check cfg_repaired w20_stream_heap [w20_stream_thread 1; w20_stream_thread 2] = true.
Proof.
  split; [vm_compute; reflexivity|]. split; [|vm_compute; reflexivity].
  exists 0, 1. do 4 eexists. split; [discriminate|].
  split; [cbn; reflexivity|]. split; [cbn; reflexivity|].
  split; [vm_compute; reflexivity|]. split; [vm_compute; reflexivity|]. reflexivity.
Qed.
Print Assumptions C20_refuted_streambytes_reader.

(* a shared traversal.Config with nil Ctx (or chooser): init() stores into it during every walk *)
Theorem C20_refuted_traversal_config_init :
  scen_check ScWalkLazyCfg 2 = false /\
  racy (sched_run [0] (scen_heap ScWalkLazyCfg, scen_threads ScWalkLazyCfg 2)).
Proof.
  split; [vm_compute; reflexivity|].
  exists 0, 1. do 4 eexists. split; [discriminate|].
  split; [cbn; reflexivity|]. split; [cbn; reflexivity|].
  split; [vm_compute; reflexivity|]. split; [vm_compute; reflexivity|]. reflexivity.
Qed.
Print Assumptions C20_refuted_traversal_config_init.

(* bindnode.Wrap / Prototype with an inferred schema: the package-global type system is written by
   every first inference and read by the type lookups of nodes bound earlier.  Refuted for the tree
   without synchronisation and for the tree whose inference (only) runs under a mutex; the premise
   holds (C20_scenarios_disjoint) once every access to the registry is synchronised. *)
Theorem C20_refuted_bindnode_default_typesystem : forall m, m <> TsFullSync ->
  scen_check (ScWrapInferred m) 2 = false /\
  racy (sched_run [0] (scen_heap (ScWrapInferred m), scen_threads (ScWrapInferred m) 2)).
Proof.
  intros m Hm. destruct m; [| |congruence];
    (split; [vm_compute; reflexivity|];
     exists 0, 1; do 4 eexists; split; [discriminate|];
     split; [cbn; reflexivity|]; split; [cbn; reflexivity|];
     split; [vm_compute; reflexivity|]; split; [vm_compute; reflexivity|]; reflexivity).
Qed.
Print Assumptions C20_refuted_bindnode_default_typesystem.
