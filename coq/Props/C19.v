(* Props/C19.v — binding Go values is faithful, reversible and a pure function of its inputs.
   Property theorems only; each closed by [exact] of a lemma proved in Proofs/Bind*.v about the
   executable model Bind/Bind.v (impl-model) and Bind/Spec.v (denotation, vocabulary). *)
Require Import IP.Base.Bytes IP.DM.Value IP.Bind.GoVal IP.Bind.Bind IP.Bind.Spec.
Require Import IP.Proofs.BindFacts IP.Proofs.BindView IP.Proofs.BindAsm IP.Proofs.BindFits IP.Proofs.BindPure IP.Proofs.BindRefute IP.Proofs.BindMain.
Require Import IP.Codec.Cbor IP.Proofs.CborEnc IP.Proofs.CborDec IP.Proofs.BindPerm IP.Proofs.BindCbor.

(* Wrap: for every quirk setting, level (type / representation), bindable pair and well-formed Go
   value, the node view computed along bindnode's reflection code paths succeeds and is the
   denotation of the value (struct fields, slices, Keys-ordered maps, pointers for optional and
   nullable, union structs, integer widths, uint64 above int64). *)
Theorem C19_wrap_faithful : forall q lv n32 t s g,
  is_any t = false -> bindable t s = true -> gv_ok q n32 t s g = true ->
  view q lv t s g = Ok (denote lv t g).
Proof. exact (fun q lv n32 t s g Hany => view_denote q lv n32 t Hany s g). Qed.
Print Assumptions C19_wrap_faithful.

(* Build + Unwrap: assembling a tree that fits the type into the zero Go value succeeds, gives a
   well-formed Go value, and that value denotes (hence, by C19_wrap_faithful, reads back as)
   exactly the tree that was assembled — at type level and through the representation builder. *)
Theorem C19_unwrap : forall q lv n32 t s d,
  bindable t s = true -> fits q lv n32 t s d = true ->
  exists g, asm q lv n32 t s (zero_of s) false d = Ok g
            /\ gv_ok q n32 t s g = true /\ denote lv t g = d
            /\ (is_any t = false -> view q lv t s g = Ok d).
Proof. exact unwrap_thm. Qed.
Print Assumptions C19_unwrap.

(* Marshal then Unmarshal through any codec that returns exactly what it was given: the fresh Go
   value is well formed and holds the same data (same representation-level denotation, same view).
   Codecs that reorder map entries are C19_marshal_roundtrip_perm / _dagcbor below. *)
Theorem C19_marshal_roundtrip :
  forall q n32 (enc : dm -> bytes) (dec : bytes -> bres dm), (forall d, dec (enc d) = Ok d) ->
  forall t s g, is_any t = false -> bindable t s = true -> gv_ok q n32 t s g = true ->
  exists b g', marshal q enc t s g = Ok b /\ unmarshal q n32 dec t s b = Ok g' /\
               gv_ok q n32 t s g' = true /\ denote LRepr t g' = denote LRepr t g /\
               view q LRepr t s g' = view q LRepr t s g.
Proof. exact marshal_full_thm. Qed.
Print Assumptions C19_marshal_roundtrip.

(* Building from a tree whose map entries arrive in any order, at any depth ([perm_eq]: the relation
   under which the DAG-CBOR encoder is invariant): if d fits the type and d' is d up to entry order,
   building d' succeeds, the Go value is well formed and denotes d up to entry order (struct fields
   land in their places whatever the order; ordered-map structs keep the delivered order in Keys). *)
Theorem C19_unwrap_any_order : forall q lv n32 t s d d',
  loc_ok (fun _ => bindable t) t s = true -> fits q lv n32 t (deref1 s) d = true -> perm_eq d d' ->
  exists g, asm q lv n32 t s (zero_of s) false d' = Ok g
            /\ ok_loc (gv_ok q n32 t) s g = true /\ perm_eq d (denote lv t g).
Proof. exact (fun q lv n32 t => asm_perm q n32 lv t). Qed.
Print Assumptions C19_unwrap_any_order.

(* Marshal then Unmarshal through any codec whose decoder returns what the encoder was given up to
   the order of map entries at every level: the fresh Go value is well formed, holds the same data up
   to entry order, and reads back as what it denotes ... *)
Theorem C19_marshal_roundtrip_perm :
  forall q n32 (enc : dm -> bytes) (dec : bytes -> bres dm) (encodable : dm -> Prop),
  (forall d, encodable d -> exists d', dec (enc d) = Ok d' /\ perm_eq d d') ->
  forall t s g, is_any t = false -> bindable t s = true -> gv_ok q n32 t s g = true ->
  encodable (denote LRepr t g) ->
  exists b g', marshal q enc t s g = Ok b /\ unmarshal q n32 dec t s b = Ok g' /\
               gv_ok q n32 t s g' = true /\
               perm_eq (denote LRepr t g) (denote LRepr t g') /\
               view q LRepr t s g' = Ok (denote LRepr t g').
Proof. exact marshal_roundtrip_perm. Qed.
Print Assumptions C19_marshal_roundtrip_perm.

(* ... and when the encoder does not depend on entry order, marshalling the fresh value gives the
   same bytes again *)
Theorem C19_remarshal_perm :
  forall q n32 (enc : dm -> bytes) (dec : bytes -> bres dm) (encodable : dm -> Prop),
  (forall d, encodable d -> exists d', dec (enc d) = Ok d' /\ perm_eq d d') ->
  (forall d d', keys_nodup d -> perm_eq d d' -> enc d = enc d') ->
  forall t s g, is_any t = false -> bindable t s = true -> gv_ok q n32 t s g = true ->
  encodable (denote LRepr t g) -> keys_nodup (denote LRepr t g) ->
  exists b g', marshal q enc t s g = Ok b /\ unmarshal q n32 dec t s b = Ok g' /\
               gv_ok q n32 t s g' = true /\
               perm_eq (denote LRepr t g) (denote LRepr t g') /\
               marshal q enc t s g' = Ok b.
Proof. exact marshal_remarshal_perm. Qed.
Print Assumptions C19_remarshal_perm.

(* The concrete DAG-CBOR codec model (Codec/Cbor.v: [cbor_enc] = the registered encoder's output,
   [cbor_dec o] = the decoder with options o): no premise about the codec is left except that the
   representation of the value is within the decoder's limits (ints in range, strings to the cap,
   distinct keys inside Any content, depth, allocation budget). *)
Theorem C19_marshal_roundtrip_dagcbor : forall q n32 o t s g,
  d_allow_links o = true ->
  is_any t = false -> bindable t s = true -> gv_ok q n32 t s g = true ->
  within_cbor_limits o (denote LRepr t g) ->
  exists b g', marshal q cbor_enc t s g = Ok b /\ unmarshal q n32 (cbor_dec o) t s b = Ok g' /\
               gv_ok q n32 t s g' = true /\
               perm_eq (denote LRepr t g) (denote LRepr t g') /\
               marshal q cbor_enc t s g' = Ok b.
Proof. exact marshal_roundtrip_dagcbor. Qed.
Print Assumptions C19_marshal_roundtrip_dagcbor.

Theorem C19_dagcbor_encoder : forall d, Cbor.enc dagcbor_eopts d = Ok (cbor_enc d).
Proof. exact cbor_enc_is_encode. Qed.

(* Unwrap then rebuild: the view of any well-formed value fits its type, so the value can be
   rebuilt from what Wrap shows (both levels) into a value holding the same data. *)
Theorem C19_rebuild : forall q lv n32 t s g,
  bindable t s = true -> gv_ok q n32 t s g = true ->
  exists g', asm q lv n32 t s (zero_of s) false (denote lv t g) = Ok g'
             /\ gv_ok q n32 t s g' = true /\ denote lv t g' = denote lv t g.
Proof. exact rebuild_thm. Qed.
Print Assumptions C19_rebuild.

(* Purity.  The full statement: every call of every history gives what the same call gives on the
   initial state and none ends in the duplicate-type-name panic. *)
Definition C19_pure (q : quirks) : Prop := pure_prop q.

(* it holds whenever inferSchema reuses what is registered (the proposed fix) ... *)
Theorem C19_pure_repaired : forall q, q_reuse_registered q = true -> C19_pure q.
Proof. exact pure_repaired_thm. Qed.
Print Assumptions C19_pure_repaired.

(* ... and fails on the pinned tree: Wrap(&d, nil) twice for type D struct{ N int64 } *)
Theorem C19_refuted_rewrap : ~ C19_pure pinned.
Proof. exact pinned_not_pure. Qed.
Print Assumptions C19_refuted_rewrap.

(* further shapes of the same defect: one Wrap of a struct with two []string fields; every
   ipld.Unmarshal(.., &v, nil) of a named struct *)
Theorem C19_refuted_first_wrap : forall n32,
  snd (step pinned n32 registry0 (CWrap Inferred shape_two_lists (GStruct [GNil; GNil]))) = OFail PDup.
Proof. exact first_wrap_refuted. Qed.
Theorem C19_refuted_unmarshal_nil : forall n32,
  snd (step pinned n32 registry0 (CUnmarshal Inferred shape_D (DMap [([78], DInt 1%Z)]))) = OFail PDup.
Proof. exact unmarshal_nil_refuted. Qed.

(* Integer widths on assembly: 300 into an int8 field is stored as 44 without an error (so the
   in-range side condition of C19_unwrap is necessary on the pinned tree); with the range check the
   builder refuses, and whatever integer it stores reads back unchanged. *)
Theorem C19_refuted_narrowing : forall n32,
  verify_compat t_narrow s_narrow = true /\
  asm pinned LType n32 t_narrow s_narrow (zero_of s_narrow) false d_300 = Ok (GStruct [GInt 44]) /\
  view pinned LType t_narrow s_narrow (GStruct [GInt 44]) = Ok (DMap [(fA, DInt 44)]) /\
  DMap [(fA, DInt 44)] <> d_300.
Proof. exact narrowing_refuted. Qed.
Theorem C19_narrowing_checked : forall q s z g, q_range_check q = true -> asm_int q s z = Ok g ->
  exists k, deref1 s = SInt k /\ ik_in k z = true /\ g = put s (GInt z).
Proof. exact asm_int_checked. Qed.
Print Assumptions C19_narrowing_checked.

(* A Go uint (kind Uint) above MaxInt64: well formed, unreadable on the pinned tree, read
   correctly when newNode treats Uint like Uint64 *)
Theorem C19_refuted_uint_kind : forall n32,
  verify_compat t_bigu s_bigu = true /\ gv_ok repaired n32 t_bigu s_bigu g_bigu = true /\
  view pinned LType t_bigu s_bigu g_bigu = Err XOverflow /\
  view repaired LType t_bigu s_bigu g_bigu = Ok (denote LType t_bigu g_bigu).
Proof. exact uint_kind_refuted. Qed.

(* Pairs verifyCompatibility accepts but that are outside [bindable] — the hypothesis of the
   theorems above cannot be weakened to verify_compat *)
Theorem C19_refuted_nullable_uint : forall n32,
  verify_compat t_nulu s_nulu = true /\ bindable t_nulu s_nulu = false /\
  asm pinned LType n32 t_nulu s_nulu (zero_of s_nulu) false (DMap [(fV, DInt 5)]) = Err PReflect.
Proof. exact nullable_uint_refuted. Qed.
Theorem C19_refuted_optional_slice : forall n32,
  verify_compat t_optl s_optl = true /\ bindable t_optl s_optl = false /\
  view pinned LRepr t_optl s_optl (GStruct [GSlice []]) = Ok (DMap [(fL, DList [])]) /\
  asm pinned LRepr n32 t_optl s_optl (zero_of s_optl) false (DMap [(fL, DList [])]) = Ok (GStruct [GNil]) /\
  view pinned LRepr t_optl s_optl (GStruct [GNil]) = Ok (DMap []).
Proof. exact optional_slice_refuted. Qed.
Theorem C19_refuted_int_enum : forall n32,
  verify_compat t_enum s_enum = true /\ bindable t_enum s_enum = false /\
  view pinned LType t_enum s_enum (GStruct [GInt 2]) = Ok (DMap [(fE, DString (reflect_nonstring IInt))]) /\
  denote LType t_enum (GStruct [GInt 2]) = DMap [(fE, DString [71])] /\
  asm pinned LType n32 t_enum s_enum (zero_of s_enum) false (DMap [(fE, DString [71])]) = Err PReflect.
Proof. exact int_enum_refuted. Qed.
Print Assumptions C19_refuted_int_enum.

(* ====================================================================================================
   DAG-JSON instance (json cluster): Marshal / Unmarshal through the concrete DAG-JSON model
   (Codec/DagJson.v; proof Proofs/BindJson.v over Proofs/JsonPerm.v, from C04's theorems).
   json_enc = the text dagjson.Encode writes (C19_dagjson_encoder), json_bdec = dagjson.Decode demanding that
   all input is consumed.  Hypotheses that remain, as premises (definitions at the end of Proofs/JsonMain.v,
   sampled on the real code by ./check C04): A1 (ParseFloat inverts emitFloat), A2 (emitFloat's text has
   '.'/exponent iff the float is not an integer below 1e21), CID (cid.Decode inverts Cid.String(), valid UTF-8).
   json_within cid_ok d = dag-json's domain: finite floats none of which is an integer below 1e21 (the known
   C04 finding), valid UTF-8 strings and keys, int64 ints, defined CIDs, distinct keys and none of the two
   reserved shapes inside Any content, decoder depth within the default limit. *)
Require Import IP.Codec.DagJson IP.Proofs.JsonMain IP.Proofs.JsonPerm IP.Proofs.BindJson.

Theorem C19_marshal_roundtrip_dagjson : forall fmt_float parse_float cid_str cid_parse cid_ok,
  JsonMain.A1 fmt_float parse_float -> JsonMain.A2 fmt_float -> JsonMain.CID cid_str cid_parse cid_ok ->
  forall q n32 t s g,
  is_any t = false -> bindable t s = true -> gv_ok q n32 t s g = true ->
  json_within cid_ok (denote LRepr t g) ->
  exists b g', marshal q (json_enc fmt_float cid_str) t s g = Ok b /\
               unmarshal q n32 (json_bdec parse_float cid_parse) t s b = Ok g' /\
               gv_ok q n32 t s g' = true /\
               perm_eq (denote LRepr t g) (denote LRepr t g') /\
               marshal q (json_enc fmt_float cid_str) t s g' = Ok b.
Proof. exact marshal_roundtrip_dagjson. Qed.
Print Assumptions C19_marshal_roundtrip_dagjson.

Theorem C19_dagjson_encoder : forall fmt_float cid_str cid_ok d, JsonEnc.encodable cid_ok d = true ->
  jenc fmt_float cid_str dagjson_eopts cid_ok d = Ok (json_enc fmt_float cid_str d).
Proof. exact json_enc_is_encode. Qed.
Print Assumptions C19_dagjson_encoder.

(* the premises are satisfiable (ordered map {String:Int} with Keys [b; a]); the round trip really reorders *)
Theorem C19_marshal_roundtrip_dagjson_example : forall q n32 cid_ok,
  is_any t_msi = false /\ bindable t_msi s_msi = true /\ gv_ok q n32 t_msi s_msi g_msi = true /\
  json_within cid_ok (denote LRepr t_msi g_msi).
Proof. exact dagjson_hyps_sat. Qed.
Print Assumptions C19_marshal_roundtrip_dagjson_example.
