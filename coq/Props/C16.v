(* Props/C16.v — transforms are pure functional updates, also across links.
   Property theorems only; each closed by [exact] of a lemma from Proofs/Xform*.v.

   Vocabulary (coq/Xform/Transform.v, Proofs/XformBase.v):
     focused_transform ltb mklink q f cp fuel st root p   the model of Progress.FocusedTransform
        ltb: key order of the block codec, mklink: link of a block (arbitrary function),
        q: which confirmed defects are switched on (q_pinned = the tree as it is, q_fixed = repaired),
        f: the TransformFn (None in = nothing at the target, None out = remove), cp: createParents,
        result: new root, new store, and the list of nodes the callback was shown;
     xt / raw / valid st t / wfx t   a link-expanded tree (links annotated with the expansion of their
        block), its un-expanded form, "every annotation is what the store holds", "maps have unique keys";
     xupdate ... st t p   the SPEC: the update of the expanded tree (blocks on the path re-encoded
        and re-linked, everything else - including the annotations of untouched links - unchanged);
     xfocus               the node a path addresses in the expanded tree;
     extends st st'       every block of st is in st' under the same link;
     coherent mklink S    no block of S sits under the link of a different block. *)
Require IP.Proofs.XformLoad.
Require Import IP.Base.Bytes IP.DM.Value IP.Xform.Transform IP.Xform.WalkT.
Require Import IP.Proofs.XformBase IP.Proofs.XformFocus IP.Proofs.XformLaws IP.Proofs.XformRefute
  IP.Proofs.XformExpand IP.Proofs.XformWalk IP.Proofs.XformSeg.

(* The full statement, as a predicate over the quirk record: a completed transform returns the SPEC's
   tree, and where the SPEC defines a tree the transform does not panic. *)
Definition C16_full (q : quirks) : Prop := C16_returns_spec q /\ C16_no_panic q.

(* C16_focus: expand st' (focused_transform st root p f) = update (expand st root) p f, st ⊆ st',
   the new expansion is valid in every coherent store that extends st' (so loading from the new root
   reproduces the updated graph; untouched blocks keep their links since their annotations are
   unchanged by the SPEC), the callback was shown [seen] each time, and a replaced root is accepted
   by the root's own prototype.  Holds for the repaired model. *)
Theorem C16_focus :
  forall ltb mklink f cp fault,
    (forall x v, owf x -> f x = Some v -> wf_dm v = true) ->
  forall fuel st root p t res st' log,
    raw t = root -> valid st t -> wfx t ->
    focused_transform ltb mklink q_fixed f cp fault fuel st root p = Ok (res, (st', log)) ->
    match xupdate ltb mklink f cp st t p with
    | XOk (Some t') seen =>
        res = raw t' /\ extends st st' /\
        (forall S, extends st' S -> coherent mklink S -> valid S t') /\ wfx t' /\
        (exists k, (1 <= k)%nat /\ log = repeat seen k) /\
        (p = [] -> root_accepts root res = true)
    | XNeedLoad => True
    | _ => False
    end.
Proof. exact focus_ok. Qed.
Print Assumptions C16_focus.

(* the errors of the transform are the errors of the SPEC (root refusals aside; a refused store -
   EStore - is the environment's failure and outside the SPEC) *)
Theorem C16_focus_errors :
  forall ltb mklink f cp fault,
    (forall x v, owf x -> f x = Some v -> wf_dm v = true) ->
  forall fuel st root p t e,
    raw t = root -> valid st t -> wfx t ->
    focused_transform ltb mklink q_fixed f cp fault fuel st root p = Err e -> e <> EFuel -> e <> EStore ->
    match xupdate ltb mklink f cp st t p with
    | XOk (Some t') _ => p = [] /\ root_accepts root (raw t') = false /\ (e = EWrongKind \/ e = EOther)
    | XOk None _ => p = [] /\ e = EPanic
    | XErr e' => e = e'
    | XNeedLoad => True
    end.
Proof. exact focus_err. Qed.
Print Assumptions C16_focus_errors.

Theorem C16_full_fixed : C16_full q_fixed.
Proof. exact (conj returns_spec_fixed no_panic_fixed). Qed.
Print Assumptions C16_full_fixed.

(* st ⊆ st' for every quirk setting: no block is lost or re-linked, untouched blocks keep their links *)
Theorem C16_store_monotone :
  forall ltb mklink q f cp fault fuel st root p res st' log,
    focused_transform ltb mklink q f cp fault fuel st root p = Ok (res, (st', log)) -> extends st st'.
Proof. exact focus_mono. Qed.
Print Assumptions C16_store_monotone.

Theorem C16_callback_sees :
  forall ltb mklink f cp fault,
    (forall x v, owf x -> f x = Some v -> wf_dm v = true) ->
  forall fuel st root p t res st' log,
    raw t = root -> valid st t -> wfx t ->
    focused_transform ltb mklink q_fixed f cp fault fuel st root p = Ok (res, (st', log)) ->
    xupdate ltb mklink f cp st t p <> XNeedLoad ->
    log <> [] /\ Forall (fun x => x = option_map raw (xfocus (Some t) p)) log.
Proof. exact focus_callback_sees. Qed.
Print Assumptions C16_callback_sees.

(* identity callback at an existing target: the very same root comes back (also across links, when
   the store was filled through the link system) *)
Theorem C16_identity :
  forall ltb mklink cp fault fuel st root p t tx res st' log,
    raw t = root -> valid st t -> wfx t -> store_wf ltb mklink st ->
    xfocus (Some t) p = Some tx ->
    focused_transform ltb mklink q_fixed fid cp fault fuel st root p = Ok (res, (st', log)) ->
    res = root.
Proof. exact focus_identity. Qed.
Print Assumptions C16_identity.

(* sequences: a run of transforms returns the composition of the SPEC updates *)
Theorem C16_sequence :
  forall ltb mklink fuel steps st root t res st_f t_f,
    Forall step_wf steps -> raw t = root -> valid st t -> wfx t ->
    mseq ltb mklink fuel steps st root = Ok (res, st_f) -> coherent mklink st_f ->
    xseq ltb mklink steps t = Some t_f ->
    res = raw t_f /\ valid st_f t_f /\ wfx t_f /\ extends st st_f.
Proof. exact focus_seq. Qed.
Print Assumptions C16_sequence.

(* runs in which transforms fail (path errors, a store the codec or the storage refuses): the failed
   transform leaves root and store as they were; the run is the run of the transforms that succeeded *)
Theorem C16_failed_steps_are_noops :
  forall ltb mklink fuel steps st root,
    mseq ltb mklink fuel (survivors ltb mklink fuel steps st root) st root
    = Ok (mseq_tol ltb mklink fuel steps st root).
Proof. exact mseq_tol_survivors. Qed.
Print Assumptions C16_failed_steps_are_noops.

(* the pinned tree (any quirk setting): when the callback never removes, no index is negative and
   "-" is last unless parents may be created, a run that does not panic is a run of the repaired
   model - to which C16_focus applies *)
Theorem C16_focus_partial :
  forall ltb mklink q f cp fault,
    (forall x, f x <> None) ->
  forall fuel st root p r,
    path_ok cp p ->
    focused_transform ltb mklink q f cp fault fuel st root p = Ok r ->
    focused_transform ltb mklink q_fixed f cp fault fuel st root p = Ok r.
Proof. exact focus_quirks_irrelevant. Qed.
Print Assumptions C16_focus_partial.

(* the confirmed defects, one witness each *)
Theorem C16_full_refuted : ~ C16_returns_spec q_pinned /\ ~ C16_no_panic q_pinned.
Proof. exact pinned_refuted. Qed.
Print Assumptions C16_full_refuted.
Theorem C16_delete_list_elem_refuted : ~ C16_returns_spec (Build_quirks true false false false false false).
Proof. exact refuted_list_delete. Qed.
Theorem C16_delete_append_refuted : ~ C16_returns_spec (Build_quirks false true false false false false).
Proof. exact refuted_append_nil. Qed.
Theorem C16_delete_missing_key_refuted : ~ C16_returns_spec (Build_quirks false false true false false false).
Proof. exact refuted_missing_key. Qed.
Theorem C16_negative_index_refuted : ~ C16_returns_spec (Build_quirks false false false true false false).
Proof. exact refuted_negative_index. Qed.
Theorem C16_append_parents_refuted : ~ C16_returns_spec (Build_quirks false false false false true false).
Proof. exact refuted_append_parents. Qed.
Theorem C16_null_root_refuted : ~ C16_no_panic (Build_quirks false false false false false true).
Proof. exact refuted_null_root. Qed.
Theorem C16_delete_in_block_refuted : ~ C16_no_panic (Build_quirks true false false false false false).
Proof. exact refuted_delete_in_block_panics. Qed.
Print Assumptions C16_delete_list_elem_refuted.
Print Assumptions C16_delete_append_refuted.
Print Assumptions C16_delete_missing_key_refuted.
Print Assumptions C16_negative_index_refuted.
Print Assumptions C16_append_parents_refuted.
Print Assumptions C16_null_root_refuted.
Print Assumptions C16_delete_in_block_refuted.

(* path segments stored as ints (datamodel.PathSegmentOfInt): the model takes a path as the list of
   rendered segments ([render_path]); for an int-stored i >= 0 the index the model parses out of the
   rendering is i, which is what PathSegment.Index() returns for it *)
Theorem C16_int_segment :
  forall i, (0 <= i < two63z)%Z ->
    parse_int (dec_of_Z i) = Some i /\ list_seg (xseg_string (SegI i)) = LIdx i.
Proof. exact (fun i H => conj (parse_int_dec i H) (xseg_int_is_index i H)). Qed.
Print Assumptions C16_int_segment.

(* the oracle's executable expansion satisfies the hypotheses of the theorems above *)
Theorem C16_expansion_valid :
  forall st fuel v, raw (xexpand fuel st v) = v /\ valid st (xexpand fuel st v) /\
                    (store_uniq st -> wf_dm v = true -> wfx (xexpand fuel st v)).
Proof. exact (fun st fuel v => conj (xexpand_raw st fuel v) (conj (xexpand_valid st fuel v)
                (fun Hs Hw => xexpand_wfx st Hs fuel v Hw))). Qed.
Print Assumptions C16_expansion_valid.

(* selector-driven transform (fragment of Xform/WalkT.v), for every setting of the selector switches
   (before / after the selector fixes b8b93dd, 873f3b3, 87fc183): identity law on link-free trees ... *)
Theorem C16_walk_identity :
  forall sq st fuel s here n log r, link_free n = true -> wt sq gsame st fuel s here n log = Ok r -> fst r = n.
Proof. exact walk_identity_link_free. Qed.
Print Assumptions C16_walk_identity.

(* ... and its failure across links: the loaded block is returned in place of the link *)
Theorem C16_walk_relink_refuted : forall sq,
  exists st root r, wt sq gsame st 20 sel_all [] root [] = Ok r /\ fst r <> root /\ fst r = inline 5 st root.
Proof. exact walk_identity_inlines_links. Qed.
Print Assumptions C16_walk_relink_refuted.

(* A transform that has to go through a link whose block the storage does not hold — or refuses to load, whatever
   the loader's error (the run's read faults answer SkipMe or a plain error for every block) — fails with the load
   error, for every callback, option and defect setting: at the root ... *)
Theorem C16_missing_block_fails : forall ltb mklink q f cp fault fu st c seg p,
  lookup c st = None ->
  focused_transform ltb mklink q f cp fault (S fu) st (DLink c) (seg :: p) = Err ELoad.
Proof. exact IP.Proofs.XformLoad.focused_transform_root_link_missing. Qed.
Print Assumptions C16_missing_block_fails.

(* ... and at any position the descent has reached, with whatever has been logged and stored so far *)
Theorem C16_missing_block_fails_anywhere : forall ltb mklink q f cp fault fu c na seg p2 w,
  lookup c (w_store w) = None ->
  ft ltb mklink q f cp fault (S fu) (Some (DLink c)) na (seg :: p2) w = Err ELoad.
Proof. exact IP.Proofs.XformLoad.ft_link_missing. Qed.
Print Assumptions C16_missing_block_fails_anywhere.

(* the hypotheses are satisfiable (a link is crossed, the final store is coherent) *)
Theorem C16_examples :
  (raw ex_t = ex_root /\ valid ex_st ex_t /\ wfx ex_t /\
   focused_transform rfc_ltb ex_link q_fixed (fconst (DInt 2)) false false 10 ex_st ex_root ex_path
   = Ok (DMap [(sega, DLink [2%N])], (ex_st', [Some (DInt 1)])) /\
   coherent ex_link ex_st' /\
   (exists t', xupdate rfc_ltb ex_link (fconst (DInt 2)) false ex_st ex_t ex_path = XOk (Some t') (Some (DInt 1))
               /\ valid ex_st' t')) /\
  (store_wf rfc_ltb ex_link ex_st /\ xfocus (Some ex_t) ex_path = Some (XLeaf (DInt 1)) /\
   focused_transform rfc_ltb ex_link q_fixed fid false false 10 ex_st ex_root ex_path
   = Ok (ex_root, (ex_st, [Some (DInt 1)]))).
Proof. exact (conj focus_ok_satisfiable focus_identity_satisfiable). Qed.
Print Assumptions C16_examples.
