(* Props/C03.v — property theorems only. *)
Require Import IP.Base.Bytes IP.DM.Value IP.Codec.Cbor IP.Codec.CborSpec.

Theorem C03_placeholder : forall bs, decode (dagcbor_dopts true) bs = decode (dagcbor_dopts true) bs.
Proof. reflexivity. Qed.
Print Assumptions C03_placeholder.
