(* Props/C03.v — DAG-CBOR decoding is strict and denotes exactly the bytes it accepts.
   Property theorems only.  SPEC = the value-directed checker [chk] of Codec/CborSpec.v:
   [chk strict links negwrap v bs = Some rest] says a prefix of bs is one well-formed item denoting
   exactly v (definite lengths, shortest heads and no NaN/Inf when strict, string keys without
   duplicates, tag 42 only and only around 0x00 + valid CID, ints in [-2^63, 2^64)), tolerating
   only unsorted keys, 16/32-bit floats and undefined-as-null. *)
Require Import IP.Base.Bytes IP.DM.Value IP.Codec.Cbor IP.Codec.CborSpec.
Require Import IP.Proofs.CborDec IP.Proofs.CborSound IP.Proofs.CborBound IP.Proofs.CborComplete.
Open Scope N_scope.

(* The full statement: acceptance implies the strict SPEC with NO tolerance for refmt's wrap. *)
Definition C03_full : Prop := forall o, d_reject_tags o = true -> forall bs v rest,
  wfb bs -> decode o bs = Ok (v, rest) ->
  chk (negb (d_relaxed o)) (d_allow_links o) false v bs = Some rest /\
  (d_dont_parse_beyond o = false -> rest = []).

(* Proved part: the same statement with the single tolerance that 3b ff..ff (the integer -2^64) may
   be read as 0 — refmt's uint64 wrap in decodeNegInt, a defect of the dependency (known finding). *)
Theorem C03_partial : forall o, d_reject_tags o = true -> forall bs v rest,
  wfb bs -> decode o bs = Ok (v, rest) ->
  chk (negb (d_relaxed o)) (d_allow_links o) true v bs = Some rest /\
  (d_dont_parse_beyond o = false -> rest = []).
Proof. exact decode_sound. Qed.
Print Assumptions C03_partial.

(* The full statement is false of the faithful model: the witness replays on the implementation. *)
Theorem C03_refuted_negint : ~ C03_full.
Proof.
  intros H. specialize (H (dagcbor_dopts true) eq_refl [59; 255; 255; 255; 255; 255; 255; 255; 255] (DInt 0) []
              ltac:(repeat constructor) ltac:(vm_compute; reflexivity)).
  destruct H as [H _]. vm_compute in H. discriminate.
Qed.
Print Assumptions C03_refuted_negint.

(* On the pinned tree (before fix 67123ae) tags in front of non-bytes items were dropped: c1 01 -> 1. *)
Theorem C03_refuted_tag_pinned :
  decode (dagcbor_dopts false) [193; 1] = Ok (DInt 1, []) /\ chk true true true (DInt 1) [193; 1] = None /\
  decode (dagcbor_dopts true) [193; 1] = Err DOther.
Proof. vm_compute. repeat split. Qed.
Print Assumptions C03_refuted_tag_pinned.

(* relaxed mode still refuses indefinite lengths (the SPEC checker has no indefinite form at all,
   so this is a corollary of C03_partial; stated for the four markers explicitly) *)
Theorem C03_relaxed_rejects_indefinite : forall o b r, d_reject_tags o = true ->
  In b [95; 127; 159; 191] -> decode o (b :: r) = Err DOther.
Proof.
  intros o b r _ Hin. unfold decode, dec_fuel. cbn [length Nat.mul Nat.add dec_val]. unfold dec_val_body.
  cbn in Hin. destruct Hin as [<-|[<-|[<-|[<-|[]]]]]; reflexivity.
Qed.
Print Assumptions C03_relaxed_rejects_indefinite.

(* nothing deeper than the configured limit, nothing that was not paid for from the budget *)
Theorem C03_within_limits : forall o bs v rest, decode o bs = Ok (v, rest) ->
  (0 <= max_depth o -> Z.of_nat (dm_depth v) <= max_depth o)%Z /\ (0 <= budget0 o -> cost v <= budget0 o)%Z.
Proof. exact decode_bounded. Qed.
Print Assumptions C03_within_limits.

(* non-vacuity: an accepted input with a map, a link and a 16-bit float *)
Example C03_accepts_something :
  let bs := [162; 97; 97; 249; 60; 0; 97; 98; 216; 42; 69; 0; 1; 113; 0; 0] in
  wfb bs /\ exists v, decode (dagcbor_dopts true) bs = Ok (v, []).
Proof. cbv zeta. split; [repeat constructor|]. eexists. vm_compute. reflexivity. Qed.
Print Assumptions C03_accepts_something.

(* ---- the converse: the SPEC and the limits are all the decoder asks.  [lim_ok v]: strings, bytes, keys and
   links within 32 MiB, collection lengths within Go's int, no NaN (its payload is not compared by chk). ---- *)
Theorem C03_complete : forall o bs v rest, d_reject_tags o = true -> wfb bs ->
  chk (negb (d_relaxed o)) (d_allow_links o) true v bs = Some rest -> lim_ok v ->
  (Z.of_nat (dm_depth v) <= max_depth o)%Z -> (cost v <= budget0 o)%Z ->
  (d_dont_parse_beyond o = false -> rest = []) ->
  decode o bs = Ok (v, rest).
Proof. exact decode_complete. Qed.
Print Assumptions C03_complete.

(* "denotes exactly the bytes it accepts", from both sides: in strict mode on the repaired tree the decoder
   accepts bs with (v, rest) exactly when a prefix of bs is one well-formed item denoting v, v is within the
   configured limits, and nothing is left unless stop-at-end was asked *)
Theorem C03_decode_iff : forall o bs v rest,
  d_reject_tags o = true -> d_relaxed o = false -> (0 <= budget0 o)%Z -> wfb bs ->
  (decode o bs = Ok (v, rest) <->
   chk true (d_allow_links o) true v bs = Some rest /\ lim_ok v /\
   (Z.of_nat (dm_depth v) <= max_depth o)%Z /\ (cost v <= budget0 o)%Z /\
   (d_dont_parse_beyond o = false -> rest = [])).
Proof. exact decode_iff. Qed.
Print Assumptions C03_decode_iff.

(* non-vacuity of the converse: a non-canonical input (keys out of order, a 16-bit float, a longer-than-needed
   form is NOT used since strict) meets every premise of C03_complete and is accepted with that value *)
Example C03_complete_example :
  let bs := [162; 97; 98; 249; 60; 0; 97; 97; 130; 246; 33] in
  let v := DMap [([98], DFloat 4607182418800017408); ([97], DList [DNull; DInt (-2)])] in
  wfb bs /\ chk true true true v bs = Some [] /\ lim_ok v /\
  decode (dagcbor_dopts true) bs = Ok (v, []).
Proof. cbv zeta. split; [repeat constructor|]. split; [vm_compute; reflexivity|]. split; [|vm_compute; reflexivity].
  cbn. unfold two63, str_cap. repeat split; try lia. Qed.
Print Assumptions C03_complete_example.
