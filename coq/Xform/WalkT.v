(* Xform/WalkT.v — executable model of traversal.WalkTransforming (traversal/walk.go:
   walkTransforming, walk_transform_iterateList, walk_transform_iterateMap) for a small selector
   fragment modelled here (matcher, explore-all, explore-fields, explore-index, explore-union,
   explore-range, explore-recursive with edge; no conditions, no slices, no interpret-as, no stop-at).
   MODEL file: definitions only.  The complete selector model lives in coq/Trav (another cluster);
   this file deliberately does not depend on it.

   Mirrored: Decide -> callback -> "new_n != n" (a callback that hands back the node it was given
   lets the walk continue below; any other node replaces the subtree and stops the descent);
   containers are rebuilt with a fresh builder of the old node's prototype; only children named
   by Interests() (struct equality of PathSegment: list positions are int-typed, map keys are
   string-typed) for which Explore returns a selector are walked; a child that is a link is loaded
   and the *transformed loaded block is assigned in place of the link* (nothing is stored). *)
Require Import IP.Base.Bytes IP.DM.Value IP.Xform.Transform.
Open Scope Z_scope.

(* Three behaviours of the selector package that were changed in /repo while this check existed; each is
   a switch so that both trees are modelled ([true] = the behaviour before the change).  The harness
   probes them on the tree under test (probe record) and the driver sets the switches accordingly. *)
Record squirks := {
  sq_edge_panics : bool;     (* ExploreRecursiveEdge.Explore panics (now: returns nil, nil) *)
  sq_exhaust_unwrap : bool;  (* an exhausted ExploreRecursive returns the remainder without its wrapper
                                (now: wrapped again with the same limit) *)
  sq_union_nodedup : bool    (* ExploreUnion.Interests concatenates (now: a segment with the same
                                String() is listed once, first occurrence wins) *)
}.
Definition sq_old : squirks := Build_squirks true true true.
Definition sq_new : squirks := Build_squirks false false false.

Inductive sel :=
| SMatch
| SAll (next : sel)
| SFields (fs : list (bytes * sel))
| SIndex (i : Z) (next : sel)
| SRange (start stop : Z) (next : sel)    (* ExploreRange{next, start, end}: list positions start <= i < end *)
| SUnion (ms : list sel)
| SRec (seq cur : sel) (lim : option Z)   (* ExploreRecursive{sequence, current, limit}; None = no limit *)
| SEdge.

(* datamodel.PathSegment as the walk produces it: PathSegmentOfInt for list positions,
   PathSegmentOfString for map keys *)
Inductive pseg := PI (i : Z) | PK (k : bytes).

(* PathSegment.String(); a negative int-stored segment reads as the string-stored "" *)
Definition pseg_string (p : pseg) : bytes :=
  match p with PI i => if i <? 0 then [] else dec_of_Z i | PK k => k end.

Definition pseg_eqb (a b : pseg) : bool :=
  match a, b with
  | PI i, PI j => i =? j
  | PK k, PK k' => bytes_eqb k k'
  | _, _ => false
  end.

(* de-duplication of ExploreUnion.Interests: keyed by PathSegment.String(), first occurrence wins *)
Fixpoint dedup_segs (seen : list bytes) (l : list pseg) : list pseg :=
  match l with
  | [] => []
  | p :: r => let k := pseg_string p in
              if existsb (bytes_eqb k) seen then dedup_segs seen r else p :: dedup_segs (k :: seen) r
  end.

(* Interests(): None = nil slice = "everything" *)
Fixpoint interests (sq : squirks) (s : sel) : option (list pseg) :=
  match s with
  | SMatch => Some []
  | SAll _ => None
  | SFields fs => Some (map (fun kv => PK (fst kv)) fs)
  | SIndex i _ => Some [PI i]
  | SRange a b _ => Some (map (fun k => PI (a + Z.of_nat k)) (seq 0 (Z.to_nat (b - a))))
  | SUnion ms =>
      match (fix go (ms : list sel) : option (list pseg) :=
               match ms with
               | [] => Some []
               | m :: r => match interests sq m, go r with
                           | Some a, Some b => Some (a ++ b)
                           | _, _ => None
                           end
               end) ms with
      | Some l => Some (if sq_union_nodedup sq then l else dedup_segs [] l)
      | None => None
      end
  | SRec _ cur _ => interests sq cur
  | SEdge => Some []
  end.

Fixpoint decide (s : sel) : bool :=
  match s with
  | SMatch => true
  | SUnion ms => (fix go (ms : list sel) : bool := match ms with [] => false | m :: r => decide m || go r end) ms
  | SRec _ cur _ => decide cur
  | _ => false
  end.

Fixpoint has_edge (s : sel) : bool :=
  match s with
  | SEdge => true
  | SUnion ms => (fix go (ms : list sel) : bool := match ms with [] => false | m :: r => has_edge m || go r end) ms
  | _ => false
  end.

Definition pack_union (l : list sel) : option sel :=
  match l with [] => None | [x] => Some x | _ => Some (SUnion l) end.

Fixpoint replace_edge (s : sel) (repl : option sel) : option sel :=
  match s with
  | SEdge => repl
  | SUnion ms =>
      pack_union ((fix go (ms : list sel) : list sel :=
                     match ms with
                     | [] => []
                     | m :: r => match replace_edge m repl with Some x => x :: go r | None => go r end
                     end) ms)
  | _ => Some s
  end.

Definition last_field (k : bytes) (fs : list (bytes * sel)) : option sel :=
  fold_left (fun acc kv => if bytes_eqb (fst kv) k then Some (snd kv) else acc) fs None.

(* Explore(n, p); [isl]: n.Kind() == Kind_List.  Err EPanic: ExploreRecursiveEdge.Explore (before b8b93dd) *)
Fixpoint explore (sq : squirks) (s : sel) (isl : bool) (p : pseg) : res xerr (option sel) :=
  match s with
  | SMatch => Ok None
  | SAll next => Ok (Some next)
  | SFields fs => Ok (last_field (pseg_string p) fs)
  | SIndex i next =>
      if isl then
        match (match p with PI j => Some j | PK k => parse_int k end) with
        | Some j => if j =? i then Ok (Some next) else Ok None
        | None => Ok None
        end
      else Ok None
  | SRange a b next =>
      if isl then
        match (match p with PI j => Some j | PK k => parse_int k end) with
        | Some j => if (a <=? j) && (j <? b) then Ok (Some next) else Ok None
        | None => Ok None
        end
      else Ok None
  | SUnion ms =>
      do l <- (fix go (ms : list sel) : res xerr (list sel) :=
                 match ms with
                 | [] => Ok []
                 | m :: r => do x <- explore sq m isl p; do y <- go r;
                             Ok (match x with Some sx => sx :: y | None => y end)
                 end) ms;
      Ok (pack_union l)
  | SRec seq cur lim =>
      match cur with
      | SEdge => Ok None
      | _ =>
          do nx <- explore sq cur isl p;
          match nx with
          | None => Ok None
          | Some nx =>
              if negb (has_edge nx) then Ok (Some (SRec seq nx lim)) else
              match lim with
              | Some d =>
                  if d <? 2 then
                    (if sq_exhaust_unwrap sq then Ok (replace_edge nx None)
                     else match replace_edge nx None with
                          | Some r => Ok (Some (SRec seq r lim))
                          | None => Ok None
                          end)
                  else match replace_edge nx (Some seq) with
                       | Some c => Ok (Some (SRec seq c (Some (d - 1))))
                       | None => Err EPanic
                       end
              | None =>
                  match replace_edge nx (Some seq) with
                  | Some c => Ok (Some (SRec seq c None))
                  | None => Err EPanic
                  end
              end
          end
      end
  | SEdge => if sq_edge_panics sq then Err EPanic else Ok None
  end.

Definition attends (attn : option (list pseg)) (p : pseg) : bool :=
  match attn with None => true | Some l => existsb (pseg_eqb p) l end.

Section WT.
  Variable sq : squirks.
  Variable g : dm -> option dm.   (* the TransformFn; None = it returned the very node it was given *)
  Variable st : store.

  Definition load_child (v : dm) : res xerr dm :=
    match v with
    | DLink c => match lookup c st with Some b => Ok b | None => Err ELoad end
    | _ => Ok v
    end.

  Section Loops.
    (* the callback log: Progress.Path (rendered segments) and the node it was called with *)
    Variable rec : sel -> path -> dm -> list (path * dm) -> res xerr (dm * list (path * dm)).
    Variable here : path.
    Variable s : sel.
    Variable attn : option (list pseg).

    Fixpoint wt_list (i : Z) (l : list dm) (log : list (path * dm)) : res xerr (list dm * list (path * dm)) :=
      match l with
      | [] => Ok ([], log)
      | v :: r =>
          if attends attn (PI i) then
            do sn <- explore sq s true (PI i);
            match sn with
            | Some sn =>
                do v' <- load_child v;
                do x <- rec sn (here ++ [pseg_string (PI i)]) v' log;
                do y <- wt_list (i + 1) r (snd x);
                Ok (fst x :: fst y, snd y)
            | None => do y <- wt_list (i + 1) r log; Ok (v :: fst y, snd y)
            end
          else do y <- wt_list (i + 1) r log; Ok (v :: fst y, snd y)
      end.

    Fixpoint wt_map (m : list (bytes * dm)) (log : list (path * dm)) : res xerr (list (bytes * dm) * list (path * dm)) :=
      match m with
      | [] => Ok ([], log)
      | (k, v) :: r =>
          if attends attn (PK k) then
            do sn <- explore sq s false (PK k);
            match sn with
            | Some sn =>
                do v' <- load_child v;
                do x <- rec sn (here ++ [k]) v' log;
                do y <- wt_map r (snd x);
                Ok ((k, fst x) :: fst y, snd y)
            | None => do y <- wt_map r log; Ok ((k, v) :: fst y, snd y)
            end
          else do y <- wt_map r log; Ok ((k, v) :: fst y, snd y)
      end.
  End Loops.

  Fixpoint wt (fuel : nat) (s : sel) (here : path) (n : dm) (log : list (path * dm)) {struct fuel}
    : res xerr (dm * list (path * dm)) :=
    match fuel with
    | O => Err EFuel
    | S fu =>
        let d := decide s in
        let log1 := if d then log ++ [(here, n)] else log in
        match (if d then g n else None) with
        | Some v => Ok (v, log1)
        | None =>
            match n with
            | DList l => do x <- wt_list (wt fu) here s (interests sq s) 0 l log1; Ok (DList (fst x), snd x)
            | DMap m => do x <- wt_map (wt fu) here s (interests sq s) m log1; Ok (DMap (fst x), snd x)
            | _ => Ok (n, log1)
            end
        end
    end.
End WT.

(* the value obtained by replacing every link that the store can resolve by its block, [fuel] levels deep *)
Fixpoint inline (fuel : nat) (st : store) (v : dm) {struct fuel} : dm :=
  match fuel with
  | O => v
  | S fu =>
      (fix go (v : dm) : dm :=
         match v with
         | DList l => DList (map go l)
         | DMap m => DMap (map (fun kv => (fst kv, go (snd kv))) m)
         | DLink c => match lookup c st with Some b => inline fu st b | None => v end
         | _ => v
         end) v
  end.

Fixpoint link_free (v : dm) : bool :=
  match v with
  | DLink _ => false
  | DList l => forallb link_free l
  | DMap m => forallb (fun kv => link_free (snd kv)) m
  | _ => true
  end.
