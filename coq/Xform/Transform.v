(* Xform/Transform.v — executable model of traversal.FocusedTransform (traversal/focus.go) over the
   data model [dm] and a block store, together with the SPEC [xupdate] on the link-expanded tree.
   MODEL file: definitions only.  Proofs: coq/Proofs/Xform*.v, theorems: coq/Props/C16.v.

   What is mirrored from focus.go (Progress.focusedTransform), line by line:
     - base case: call the TransformFn on the node at the target and AssignNode its result (nil = remove);
     - the createParents branch ([n == nil]): a one-entry map per remaining segment;
     - map case: the callback runs *before* the sibling copy when the next segment is the last one; the
       copy loop replaces in place / drops the entry; a key that was not found is appended last (and
       the callback runs a second time through the base case);
     - list case: strconv.ParseInt index parsing, "-" = append, the copy loop, bounds error;
     - link case: load the block, transform inside with the *same* path, store the rebuilt block under
       the same link prototype, assign the new link;
     - a failing LinkSystem.Store (the codec refuses the block, or the storage fails): the transform
       fails with nothing stored;
     - every explicit error class, and panics (AssignNode(nil) on the root builder, encoding a block
       that holds a nil node, building a null root).
   Not modelled: budgets (Budget = nil), Progress.Path bookkeeping (only used in messages),
   typed nodes / ADLs (basicnode only), TransformFn errors.

   The link of a block is [mklink b] for an arbitrary function [mklink] (Section variable): the
   model and the theorems never look inside a link.  A stored block is read back in the codec's
   normal form [canon] = map entries sorted by [ltb] (dag-cbor: rfc_ltb); the store is
   first-write-wins like storage/memstore.Put. *)
Require Import IP.Base.Bytes IP.DM.Value.
Open Scope Z_scope.

Definition path := list bytes.
Definition cid := bytes.
Definition store := list (cid * dm).

Fixpoint lookup (c : cid) (st : store) : option dm :=
  match st with
  | [] => None
  | (k, v) :: r => if bytes_eqb c k then Some v else lookup c r
  end.

(* memstore.Put: "if _, exists := store.Bag[key]; exists { return nil }" *)
Definition put (c : cid) (b : dm) (st : store) : store :=
  match lookup c st with Some _ => st | None => (c, b) :: st end.

(* ---------------------------------------------------------------- path segments on lists *)
(* PathSegment.Index() = strconv.ParseInt(s, 10, 64): optional sign, at least one digit, in range *)
Definition digit (b : N) : option Z :=
  if (N.leb 48 b && N.leb b 57)%bool then Some (Z.of_N b - 48) else None.
Fixpoint digits (s : bytes) (acc : Z) : option Z :=
  match s with
  | [] => Some acc
  | b :: r => match digit b with Some d => digits r (acc * 10 + d) | None => None end
  end.
Definition in_int64 (z : Z) : bool := (- two63z <=? z) && (z <? two63z).
Definition parse_body (sgn : Z) (r : bytes) : option Z :=
  match r with
  | [] => None
  | _ => match digits r 0 with
         | Some v => let z := sgn * v in if in_int64 z then Some z else None
         | None => None
         end
  end.
Definition parse_int (s : bytes) : option Z :=
  match s with
  | 43%N :: r => parse_body 1 r
  | 45%N :: r => parse_body (-1) r
  | _ => parse_body 1 s
  end.

Inductive lseg := LIdx (z : Z) | LAppend | LBad.
Definition dash : bytes := [45%N].
Definition list_seg (s : bytes) : lseg :=
  match parse_int s with
  | Some z => LIdx z
  | None => if bytes_eqb s dash then LAppend else LBad
  end.

(* A datamodel.PathSegment is stored either as a string (ParsePath, PathSegmentOfString) or as an int
   (PathSegmentOfInt).  focusedTransform reads a segment only through String(), Index() and Equals():
   String() of an int-stored i >= 0 is FormatInt(i), its Index() is i (= ParseInt of that rendering,
   lemma parse_int_dec), and Equals() on a string-stored map key compares the rendered strings.  A
   negative int is indistinguishable from the string-stored "" (containsString() is "i < 0").  So a
   path is modelled by the list of its rendered segments; [xseg] is what the harness builds. *)
Inductive xseg := SegS (s : bytes) | SegI (i : Z).
Fixpoint dec_digits (fuel : nat) (n : N) (acc : bytes) : bytes :=
  match fuel with
  | O => acc
  | S fu => let d := (48 + n mod 10)%N in
            if (n <? 10)%N then d :: acc else dec_digits fu (n / 10) (d :: acc)
  end.
(* strconv.FormatInt(i, 10) for i >= 0 *)
Definition dec_of_Z (z : Z) : bytes := dec_digits 20 (Z.to_N z) [].
Definition xseg_string (x : xseg) : bytes :=
  match x with SegS s => s | SegI i => if i <? 0 then [] else dec_of_Z i end.
Definition render_path (p : list xseg) : path := map xseg_string p.

(* ---------------------------------------------------------------- outcomes *)
Inductive xerr :=
| EScalar     (* "parent position ... was a scalar, cannot go deeper" *)
| EListSeg    (* "cannot navigate path segment ... because a list is here" *)
| EBounds     (* "... because it is beyond the list bounds" *)
| ENoParent   (* "parent position ... did not exist (and createParents was false)" *)
| ELoad       (* "could not load link" *)
| EWrongKind  (* the root builder refuses the replacement: datamodel.ErrWrongKind *)
| EOther      (* the root int builder refuses an unsigned value above MaxInt64 *)
| EStore      (* "error storing transformed node": the block codec refuses the rebuilt block, or the storage fails *)
| EPanic      (* a Go panic *)
| EFuel.      (* model artefact: recursion fuel exhausted (never with fuel > path length + link chain) *)

(* The confirmed defects of the pinned tree, each switchable.  [true] = behaves like the pinned code. *)
Record quirks := {
  q_list_delete_nil : bool;    (* fn -> nil on a list element assigns a nil node into the rebuilt list *)
  q_append_nil : bool;         (* fn -> nil on "-" appends a nil node *)
  q_missing_delete_nil : bool; (* fn -> nil on a missing map key (also below created parents) inserts the key with a nil node *)
  q_neg_index_append : bool;   (* a negative index ("-5") appends instead of failing *)
  q_append_parents : bool;     (* "-" followed by further segments creates parents although createParents = false *)
  q_null_root_panic : bool     (* a Null root panics: nullPrototype.NewBuilder is unimplemented *)
}.
Definition q_pinned : quirks := Build_quirks true true true true true true.
Definition q_fixed : quirks := Build_quirks false false false false false false.
Definition q_any_nil (q : quirks) : bool :=
  q_list_delete_nil q || q_append_nil q || q_missing_delete_nil q.

(* A Go nil Node stored inside a container has no counterpart in [dm]; the model writes it as a
   link with empty bytes (no real link is empty: every link of the harness is a parsed CID). *)
Definition nil_node : dm := DLink [].
Definition is_nil_node (v : dm) : bool := match v with DLink [] => true | _ => false end.
Fixpoint has_nil (v : dm) : bool :=
  match v with
  | DLink [] => true
  | DList l => existsb has_nil l
  | DMap m => existsb (fun kv => has_nil (snd kv)) m
  | _ => false
  end.

(* A link the block codec cannot encode (dag-cbor: "link emission only supported for CID type links",
   undefined CIDs): written as a link whose binary form starts with the byte 0, which no CID does. *)
Definition refused_link (c : cid) : bool := match c with 0%N :: _ => true | _ => false end.
Fixpoint has_refused (v : dm) : bool :=
  match v with
  | DLink c => refused_link c
  | DList l => existsb has_refused l
  | DMap m => existsb (fun kv => has_refused (snd kv)) m
  | _ => false
  end.

Inductive kind := KNull | KBool | KInt | KFloat | KString | KBytes | KLink | KList | KMap.
Definition kind_of (v : dm) : kind :=
  match v with
  | DNull => KNull | DBool _ => KBool | DInt _ => KInt | DFloat _ => KFloat | DString _ => KString
  | DBytes _ => KBytes | DLink _ => KLink | DList _ => KList | DMap _ => KMap
  end.
Definition kind_eqb (a b : kind) : bool :=
  match a, b with
  | KNull, KNull | KBool, KBool | KInt, KInt | KFloat, KFloat | KString, KString
  | KBytes, KBytes | KLink, KLink | KList, KList | KMap, KMap => true
  | _, _ => false
  end.

(* Which NodeAssembler receives the result of the base case. *)
Inductive asm :=
| ARoot (k : kind)  (* the builder of the root's own prototype (basicnode: one per kind) *)
| AAny              (* basicnode.Prototype.Any builder: the root of a loaded block *)
| AVal              (* value assembler of an entry that exists and is being descended into *)
| AElem             (* value assembler for an existing list element *)
| AAppend           (* value assembler for an appended list element *)
| ANewKey.          (* value assembler for a key that was not in the map *)

(* what an assembly step contributes to its parent container *)
Inductive slot := Put (v : dm) | Skip.
Definition slot_list (s : slot) : list dm := match s with Put v => [v] | Skip => [] end.
Definition slot_entry (k : bytes) (s : slot) : list (bytes * dm) := match s with Put v => [(k, v)] | Skip => [] end.

(* world = block store + what the callback has been shown so far (None = Go nil: nothing there) *)
Definition world := (store * list (option dm))%type.
Definition w_store (w : world) : store := fst w.
Definition w_log (w : world) : list (option dm) := snd w.
Definition log_call (x : option dm) (w : world) : world := (fst w, snd w ++ [x]).
Definition with_store (st : store) (w : world) : world := (st, snd w).

Fixpoint find_kv {A} (k : bytes) (m : list (bytes * A)) : option A :=
  match m with
  | [] => None
  | (k', v) :: r => if bytes_eqb k' k then Some v else find_kv k r
  end.

Definition is_empty {A} (l : list A) : bool := match l with [] => true | _ => false end.
Definition is_none {A} (o : option A) : bool := match o with None => true | Some _ => false end.

Section Model.
  Variable ltb : bytes -> bytes -> bool.   (* key order of the block codec (dag-cbor: rfc_ltb) *)
  Variable mklink : dm -> cid.             (* link of a block's stored encoding; arbitrary *)
  Variable q : quirks.
  Variable f : option dm -> option dm.     (* the TransformFn: None in = nothing there, None out = remove *)
  Variable cp : bool.                      (* createParents *)
  Variable fault : bool.                   (* the storage refuses every write during this transform *)

  Definition canon (v : dm) : dm := sort_maps ltb v.

  (* LinkSystem.Store of a rebuilt block: encode (normal form), link, first-write-wins put *)
  Definition store_block (v : dm) (w : world) : cid * world :=
    let b := canon v in let c := mklink b in (c, with_store (put c b (w_store w)) w).

  (* na.AssignNode(n2) in the base case *)
  Definition assign_node (na : asm) (n2 : option dm) (w : world) : res xerr (slot * world) :=
    match n2 with
    | Some v =>
        match na with
        | ARoot k =>
            if kind_eqb (kind_of v) k
            then match v with
                 | DInt z => if z <? two63z then Ok (Put v, w) else Err EOther  (* plainUint.AsInt *)
                 | _ => Ok (Put v, w)
                 end
            else Err EWrongKind
        | _ => Ok (Put v, w)
        end
    | None =>
        match na with
        | ARoot _ => Err EPanic                  (* v.Kind() / v.AsX() on a nil interface *)
        | AAny => Ok (Skip, w)                   (* unreachable: a block root is never the target *)
        | AVal => Ok (Put nil_node, w)           (* unreachable: only reached with a non-empty path *)
        | AElem => Ok ((if q_list_delete_nil q then Put nil_node else Skip), w)
        | AAppend => Ok ((if q_append_nil q then Put nil_node else Skip), w)
        | ANewKey => Ok ((if q_missing_delete_nil q then Put nil_node else Skip), w)
        end
    end.

  Section Loops.
    (* the recursive call, with less fuel *)
    Variable rec : option dm -> asm -> path -> world -> res xerr (slot * world).

    (* "for itr := n.MapIterator(); !itr.Done();" of the map case.
       Returns the rebuilt entries, [replaced], and the world. *)
    Fixpoint map_loop (seg : bytes) (end_ : bool) (n2 : option dm) (p2 : path)
             (m : list (bytes * dm)) (w : world) : res xerr (list (bytes * dm) * bool * world) :=
      match m with
      | [] => Ok ([], false, w)
      | (k, v) :: r =>
          if bytes_eqb k seg then
            match n2 with
            | Some y =>
                do x <- map_loop seg end_ n2 p2 r w;
                let '(r', _, w') := x in Ok ((k, y) :: r', true, w')
            | None =>
                if end_ then
                  do x <- map_loop seg end_ n2 p2 r w;
                  let '(r', _, w') := x in Ok (r', true, w')
                else
                  do sw <- rec (Some v) AVal p2 w;
                  let '(s, w1) := sw in
                  do x <- map_loop seg end_ n2 p2 r w1;
                  let '(r', _, w') := x in Ok (slot_entry k s ++ r', true, w')
            end
          else
            do x <- map_loop seg end_ n2 p2 r w;
            let '(r', b, w') := x in Ok ((k, v) :: r', b, w')
      end.

    (* "for itr := n.ListIterator(); !itr.Done();" of the list case *)
    Fixpoint list_loop (ti : Z) (p2 : path) (i : Z) (l : list dm) (w : world)
      : res xerr (list dm * bool * world) :=
      match l with
      | [] => Ok ([], false, w)
      | v :: r =>
          if ti =? i then
            do sw <- rec (Some v) AElem p2 w;
            let '(s, w1) := sw in
            do x <- list_loop ti p2 (i + 1) r w1;
            let '(r', _, w') := x in Ok (slot_list s ++ r', true, w')
          else
            do x <- list_loop ti p2 (i + 1) r w;
            let '(r', b, w') := x in Ok (v :: r', b, w')
      end.
  End Loops.

  Fixpoint ft (fuel : nat) (n : option dm) (na : asm) (p : path) (w : world) {struct fuel}
    : res xerr (slot * world) :=
    match fuel with
    | O => Err EFuel
    | S fu =>
      match p with
      | [] => assign_node na (f n) (log_call n w)
      | seg :: p2 =>
        match n with
        | None =>
            (* createParents mode: ma.BeginMap(1); key; recurse; Finish *)
            do sw <- ft fu None ANewKey p2 w;
            let '(s, w1) := sw in Ok (Put (DMap (slot_entry seg s)), w1)
        | Some (DMap m) =>
            let end_ := is_empty p2 in
            let n3 := find_kv seg m in
            let n2 := if end_ then f n3 else None in
            let w0 := if end_ then log_call n3 w else w in
            do x <- map_loop (ft fu) seg end_ n2 p2 m w0;
            let '(m', replaced, w1) := x in
            if replaced then Ok (Put (DMap m'), w1)
            else if negb end_ && negb cp then Err ENoParent
            else if end_ && is_none n2 && negb (q_missing_delete_nil q) then Ok (Put (DMap m'), w1)
            else
              do sw <- ft fu None ANewKey p2 w1;
              let '(s, w2) := sw in Ok (Put (DMap (m' ++ slot_entry seg s)), w2)
        | Some (DList l) =>
            match list_seg seg with
            | LBad => Err EListSeg
            | ls =>
                let ti := match ls with LIdx z => z | _ => -1 end in
                if (ti <? 0) && negb (match ls with LAppend => true | _ => q_neg_index_append q end)
                then Err EBounds
                else
                  do x <- list_loop (ft fu) ti p2 0 l w;
                  let '(l', replaced, w1) := x in
                  if replaced then Ok (Put (DList l'), w1)
                  else if 0 <=? ti then Err EBounds
                  else if negb (is_empty p2) && negb cp && negb (q_append_parents q) then Err ENoParent
                  else
                    do sw <- ft fu None AAppend p2 w1;
                    let '(s, w2) := sw in Ok (Put (DList (l' ++ slot_list s)), w2)
            end
        | Some (DLink c) =>
            match lookup c (w_store w) with
            | None => Err ELoad
            | Some b =>
                do sw <- ft fu (Some b) AAny p w;
                let '(s, w1) := sw in
                match s with
                | Skip => Err EPanic
                | Put v =>
                    if q_any_nil q && has_nil v then Err EPanic   (* dag-cbor encoder on a nil node *)
                    else if fault || has_refused v then Err EStore (* LinkSystem.Store fails; nothing was stored *)
                    else let '(c', w2) := store_block v w1 in Ok (Put (DLink c'), w2)
                end
            end
        | Some _ => Err EScalar
        end
      end
    end.

  (* Progress.FocusedTransform: nb := n.Prototype().NewBuilder(); focusedTransform; nb.Build() *)
  Definition focused_transform (fuel : nat) (st : store) (root : dm) (p : path)
    : res xerr (dm * world) :=
    match root with
    | DNull => if q_null_root_panic q then Err EPanic else
        do sw <- ft fuel (Some root) (ARoot KNull) p (st, []);
        match fst sw with Put v => Ok (v, snd sw) | Skip => Err EPanic end
    | _ =>
        do sw <- ft fuel (Some root) (ARoot (kind_of root)) p (st, []);
        match fst sw with Put v => Ok (v, snd sw) | Skip => Err EPanic end
    end.

  (* the same, for a path given with the storage form of every segment *)
  Definition focused_transform_segs (fuel : nat) (st : store) (root : dm) (p : list xseg)
    : res xerr (dm * world) := focused_transform fuel st root (render_path p).

  (* ================================================================ SPEC *)
  (* The link-expanded tree: [dm] in which a link may carry the expansion of its block. *)
  Inductive xt :=
  | XLeaf (v : dm)                  (* a scalar, or a link that is not expanded *)
  | XList (l : list xt)
  | XMap (m : list (bytes * xt))
  | XBlock (c : cid) (t : xt).      (* the link c together with the expansion of the block it names *)

  Fixpoint raw (t : xt) : dm :=
    match t with
    | XLeaf v => v
    | XList l => DList (map raw l)
    | XMap m => DMap (map (fun kt => (fst kt, raw (snd kt))) m)
    | XBlock c _ => DLink c
    end.

  (* plain link-expanded value: block boundaries forgotten *)
  Fixpoint erase (t : xt) : dm :=
    match t with
    | XLeaf v => v
    | XList l => DList (map erase l)
    | XMap m => DMap (map (fun kt => (fst kt, erase (snd kt))) m)
    | XBlock _ t' => erase t'
    end.

  Fixpoint inject (v : dm) : xt :=
    match v with
    | DList l => XList (map inject l)
    | DMap m => XMap (map (fun kv => (fst kv, inject (snd kv))) m)
    | _ => XLeaf v
    end.

  (* normal form of a block: sort the maps of this block only *)
  Fixpoint canon_x (t : xt) : xt :=
    match t with
    | XList l => XList (map canon_x l)
    | XMap m => XMap (sort_kv ltb (map (fun kt => (fst kt, canon_x (snd kt))) m))
    | _ => t
    end.

  (* a block whose content became u: re-encoded, re-linked *)
  Definition reblock (u : xt) : xt := XBlock (mklink (canon (raw u))) (canon_x u).

  (* peel the chain of expanded links in front of a node *)
  Fixpoint strip (t : xt) : xt * nat :=
    match t with
    | XBlock _ t' => let '(u, k) := strip t' in (u, S k)
    | _ => (t, O)
    end.
  Fixpoint rewrap (k : nat) (u : xt) : xt :=
    match k with O => u | S k' => reblock (rewrap k' u) end.

  Fixpoint replace_kv {A} (k : bytes) (v : A) (m : list (bytes * A)) : list (bytes * A) :=
    match m with
    | [] => []
    | (k', v') :: r => if bytes_eqb k' k then (k', v) :: r else (k', v') :: replace_kv k v r
    end.
  Fixpoint remove_kv {A} (k : bytes) (m : list (bytes * A)) : list (bytes * A) :=
    match m with
    | [] => []
    | (k', v') :: r => if bytes_eqb k' k then r else (k', v') :: remove_kv k r
    end.
  Definition opt_list {A} (o : option A) : list A := match o with Some x => [x] | None => [] end.

  (* result of the SPEC: the new tree (None: the target was the root and was removed) and what the
     callback must have been shown *)
  Inductive xres :=
  | XOk (t : option xt) (seen : option dm)
  | XErr (e : xerr)
  | XNeedLoad.   (* the given expansion stops at a link that the path crosses: expand further *)

  Fixpoint xupd (st : store) (cur : option xt) (p : path) : xres :=
    match p with
    | [] => let x := option_map raw cur in XOk (option_map inject (f x)) x
    | s :: p2 =>
      match cur with
      | None =>
          match xupd st None p2 with
          | XOk c seen => XOk (Some (XMap (opt_list (option_map (pair s) c)))) seen
          | e => e
          end
      | Some t =>
          let '(u, k) := strip t in
          match u with
          | XMap m =>
              match find_kv s m with
              | Some c =>
                  match xupd st (Some c) p2 with
                  | XOk (Some c') seen => XOk (Some (rewrap k (XMap (replace_kv s c' m)))) seen
                  | XOk None seen => XOk (Some (rewrap k (XMap (remove_kv s m)))) seen
                  | e => e
                  end
              | None =>
                  if negb (is_empty p2) && negb cp then XErr ENoParent else
                  match xupd st None p2 with
                  | XOk c seen => XOk (Some (rewrap k (XMap (m ++ opt_list (option_map (pair s) c))))) seen
                  | e => e
                  end
              end
          | XList l =>
              match list_seg s with
              | LBad => XErr EListSeg
              | LIdx z =>
                  if (0 <=? z) && (z <? Z.of_nat (length l)) then
                    let i := Z.to_nat z in
                    match xupd st (nth_error l i) p2 with
                    | XOk c seen => XOk (Some (rewrap k (XList (firstn i l ++ opt_list c ++ skipn (S i) l)))) seen
                    | e => e
                    end
                  else XErr EBounds
              | LAppend =>
                  if negb (is_empty p2) && negb cp then XErr ENoParent else
                  match xupd st None p2 with
                  | XOk c seen => XOk (Some (rewrap k (XList (l ++ opt_list c)))) seen
                  | e => e
                  end
              end
          | XLeaf (DLink c) => match lookup c st with None => XErr ELoad | Some _ => XNeedLoad end
          | _ => XErr EScalar
          end
      end
    end.

  (* what the root's own prototype accepts as a replacement of the root *)
  Definition root_accepts (root v : dm) : bool :=
    kind_eqb (kind_of v) (kind_of root) && match v with DInt z => z <? two63z | _ => true end.

  (* SPEC of FocusedTransform on an expansion t of the root *)
  Definition xupdate (st : store) (t : xt) (p : path) : xres := xupd st (Some t) p.

  (* spec-level "get": the node the path addresses, links crossed transparently *)
  Fixpoint xfocus (cur : option xt) (p : path) : option xt :=
    match p with
    | [] => cur
    | s :: p2 =>
      match cur with
      | None => None
      | Some t =>
          match fst (strip t) with
          | XMap m => xfocus (find_kv s m) p2
          | XList l => match list_seg s with
                       | LIdx z => if 0 <=? z then xfocus (nth_error l (Z.to_nat z)) p2 else None
                       | _ => None
                       end
          | _ => None
          end
      end
    end.

  (* executable expansion, up to [fuel] nested links; links that are not in the store stay leaves *)
  Fixpoint xexpand (fuel : nat) (st : store) (v : dm) {struct fuel} : xt :=
    match fuel with
    | O => inject v
    | S fu =>
        (fix go (v : dm) : xt :=
           match v with
           | DList l => XList (map go l)
           | DMap m => XMap (map (fun kv => (fst kv, go (snd kv))) m)
           | DLink c => match lookup c st with
                        | Some b => XBlock c (xexpand fu st b)
                        | None => XLeaf v
                        end
           | _ => XLeaf v
           end) v
    end.
End Model.
