(* c04 driver: model observation + oracle verdict for "enc" and "dec" records of harness/cmd/c04, and for
   the "j" records of harness/cmd/c10 (C10's dag-json tie: accept/reject class and nesting depth).
   The Section variables of the model are instantiated per record:
     fmt_float   finite table from the record (text emitFloat produced for that float alone)
     parse_float OCaml's float_of_string (correctly rounded strtod), overflow = error as in Go
     cid_str     finite table from the record (Cid.String())
     cid_parse   finite table from the record (cid.Decode); a string missing from the table is
                 an error of the harness: it is reported as the oracle class table_miss (never listed
                 as known, so it is a VIOLATION with a replay, not a bare mismatch) and marked
                 "!tablemiss" in the model observation *)
open Model
open Dmio

let tablemiss = ref false

let parse_tab (s : string) : (string, string) Hashtbl.t =
  let h = Hashtbl.create 16 in
  if s <> "-" && s <> "" then
    List.iter (fun kv ->
        match String.index_opt kv '=' with
        | Some i -> Hashtbl.replace h (String.sub kv 0 i) (String.sub kv (i + 1) (String.length kv - i - 1))
        | None -> ()) (String.split_on_char ',' s);
  h

let string_of_bytes (l : n list) : string =
  let b = Buffer.create 32 in
  List.iter (fun x -> Buffer.add_char b (Char.chr (int_of_n x land 255))) l;
  Buffer.contents b

let n_of_int64 (i : int64) : n = n_of_hex (Printf.sprintf "%Lx" i)

let parse_float_ocaml (t : n list) : n option =
  let s = string_of_bytes t in
  (* the scanner only lets [-0-9.eE+] through; anything else cannot reach here *)
  let ok = ref (s <> "") in
  String.iter (fun c -> match c with '0'..'9' | '-' | '+' | '.' | 'e' | 'E' -> () | _ -> ok := false) s;
  if not !ok then None else
  match float_of_string_opt s with
  | None -> None
  | Some f ->
    if Float.is_nan f || Float.is_integer f && Float.abs f = Float.infinity || Float.abs f = Float.infinity then None
    else Some (n_of_int64 (Int64.bits_of_float f))

let jderr_name = function
  | JDDepth -> "depth" | JDTrailing -> "trailing" | JDOther -> "other" | JDFuel -> "fuel" | JDStale -> "stale"

let cid_ok (c : n list) : bool = c <> []

(* ---- json_safe and jdepth are the extracted predicates the theorems quantify over *)
let json_safe_full (v : dm) : bool = json_safe cid_ok (fun _ -> true) v
let depth_ok (v : dm) : bool = int_of_n (jdepth v) <= 1024

let rec floats_of (v : dm) (acc : n list) : n list =
  match v with
  | DFloat f -> f :: acc
  | DList l -> List.fold_left (fun a x -> floats_of x a) acc l
  | DMap m -> List.fold_left (fun a (_, x) -> floats_of x a) acc m
  | _ -> acc

(* the value the pinned refmt produces for [v]: integral floats below 1e21 come back as ints, or make
   the decode fail when their decimal text is outside int64.  None = decode expected to fail. *)
exception Decode_fails
let rec quirk_expected (ftab : (string, string) Hashtbl.t) (v : dm) : dm =
  match v with
  | DFloat f when f64_integral_small f ->
    (match Hashtbl.find_opt ftab (hex_of_n f) with
     | None -> v
     | Some th ->
       let t = string_of_bytes (bytes_of_hex th) in
       (match Int64.of_string_opt t with
        | Some i ->
          let z = if Int64.compare i 0L >= 0 then z_of_hex (Printf.sprintf "%Lx" i)
            else if i = Int64.min_int then z_of_hex "-8000000000000000"
            else z_of_hex ("-" ^ Printf.sprintf "%Lx" (Int64.neg i)) in
          DInt z
        | None -> raise Decode_fails))
  | DList l -> DList (List.map (quirk_expected ftab) l)
  | DMap m -> DMap (List.map (fun (k, x) -> (k, quirk_expected ftab x)) m)
  | _ -> v

let first_bytes : (string, string) Hashtbl.t = Hashtbl.create 1024

let base_of (id : string) : string =
  match String.rindex_opt id '.' with Some i -> String.sub id 0 i | None -> id

let sorted_key (v : dm) : string = string_of_dm (sort_maps bytes_ltb v)

let () =
  iter_lines (fun line ->
    tablemiss := false;
    match split_tab line with
    | id :: "enc" :: codec :: _holder :: vtext :: ftab_s :: ctab_s :: ptab_s :: obs :: _ ->
      let v = dm_of_string vtext in
      let ftab = parse_tab ftab_s and ctab = parse_tab ctab_s and ptab = parse_tab ptab_s in
      let fmt_float f =
        match Hashtbl.find_opt ftab (hex_of_n f) with
        | Some t -> bytes_of_hex t
        | None -> tablemiss := true; [] in
      let cid_str c =
        match Hashtbl.find_opt ctab (hex_of_bytes c) with
        | Some t -> bytes_of_hex t
        | None -> tablemiss := true; [] in
      let cid_parse s =
        match Hashtbl.find_opt ptab (hex_of_bytes s) with
        | Some "!" -> None
        | Some t -> Some (bytes_of_hex t)
        | None -> tablemiss := true; None in
      (* opt:l<0|1>b<0|1>:<none|lex|rfc> : the encoder's (and the decoder's) two switches set independently *)
      let opt = String.length codec >= 10 && String.sub codec 0 5 = "opt:l" in
      let ol = opt && codec.[5] = '1' and ob = opt && codec.[7] = '1' in
      let osort = if not opt then JSortLexical else
          (match String.sub codec 9 (String.length codec - 9) with "none" -> JSortNone | "rfc" -> JSortRFC7049 | _ -> JSortLexical) in
      let eo = match codec with
        | "dagjson" -> dagjson_eopts
        | "dagjson:none" -> { je_links = true; je_bytes = true; je_sort = JSortNone }
        | "dagjson:rfc" -> { je_links = true; je_bytes = true; je_sort = JSortRFC7049 }
        | _ when opt -> { je_links = ol; je_bytes = ob; je_sort = osort }
        | _ -> json_eopts in
      let dop = if codec = "json" then json_dopts
        else if opt then { jd_links = ol; jd_bytes = ob; jd_dont_parse_beyond = false; jd_max_depth = Z0 }
        else dagjson_dopts in
      (* Marshal meets the entries of a map in emission (sorted) order; the model's jenc encodes the values in
         insertion order before sorting the encoded entries, so WHICH error comes first is read off the
         pre-sorted tree encoded with no sorting (the bytes are the same either way: Proofs/JsonEnc.v) *)
      let err_class () =
        let vs = match osort with
          | JSortNone -> v | JSortLexical -> sort_maps bytes_ltb v | JSortRFC7049 -> sort_maps rfc_ltb v in
        match jenc fmt_float cid_str { je_links = ol; je_bytes = ob; je_sort = JSortNone } cid_ok vs with
        | Err JELink -> "err:link|-" | Err JEBytes -> "err:bytes|-" | Err _ -> "err:other|-" | Ok _ -> "err:none|-" in
      let model_bytes =
        if codec = "json" then jenc_pretty fmt_float cid_str eo cid_ok O v
        else jenc fmt_float cid_str eo cid_ok v in
      let model_obs =
        match model_bytes with
        | Err _ -> if opt then err_class () else "err|-"
        | Ok bs ->
          "ok:" ^ hex_of_bytes bs ^ "|" ^
          (match jdecode parse_float_ocaml cid_parse dop bs with
           | Ok (d, _) -> "dec:" ^ string_of_dm d
           | Err e -> "decerr:" ^ jderr_name e) in
      let model_obs = if !tablemiss then model_obs ^ "!tablemiss" else model_obs in
      (* ---- oracle: the property evaluated on the implementation's observation *)
      let verdict =
        if obs = "builderr" then "skip" else
        let fails = ref [] in
        (* A1 / A2 sampled on every float of the value *)
        List.iter (fun f ->
            if f64_finite f then
              match Hashtbl.find_opt ftab (hex_of_n f) with
              | None -> fails := "float_text_assumption" :: !fails
              | Some th ->
                let t = bytes_of_hex th in
                let a1 = (parse_float_ocaml t = Some f) in
                let a2 = float_text_ok f t in
                if not (a1 && a2) then fails := "float_text_assumption" :: !fails)
          (floats_of v []);
        (* the CID law sampled on every link of the value *)
        Hashtbl.iter (fun bin str ->
            let sb = bytes_of_hex str in
            let back = (match Hashtbl.find_opt ptab str with Some "!" | None -> None | Some t -> Some t) in
            if back <> Some bin || not (utf8_valid sb) then fails := "cid_text_assumption" :: !fails) ctab;
        (if codec = "dagjson" && json_safe_full v && depth_ok v then
           match String.split_on_char '|' obs with
           | [eb; ed] ->
             if String.length eb < 3 || String.sub eb 0 3 <> "ok:" then fails := "encode_failed" :: !fails
             else begin
               (* determinism: same bytes as any other insertion order of the same value *)
               let key = base_of id ^ "|" ^ sorted_key v in
               (match Hashtbl.find_opt first_bytes key with
                | Some b0 -> if b0 <> eb then fails := "order_dependent" :: !fails
                | None -> Hashtbl.replace first_bytes key eb);
               (* and they are the canonical text: keys in bytewise order, fixed separators *)
               (match jenc fmt_float cid_str dagjson_eopts cid_ok v with
                | Ok cbs -> if eb <> "ok:" ^ hex_of_bytes cbs then fails := "noncanonical" :: !fails
                | Err _ -> ());
               (* round trip with kinds *)
               let want = "dec:" ^ string_of_dm (sort_maps bytes_ltb v) in
               if ed <> want then begin
                 let has_int_float = List.exists f64_integral_small (floats_of v []) in
                 let quirk =
                   try "dec:" ^ string_of_dm (sort_maps bytes_ltb (quirk_expected ftab v))
                   with Decode_fails -> "decerr:other" in
                 if has_int_float && ed = quirk then fails := "float_integral_text" :: !fails
                 else fails := "roundtrip" :: !fails
               end
             end
           | _ -> fails := "malformed_obs" :: !fails);
        (* the encoder's switches: links refused exactly when EncodeLinks is off, bytes exactly when EncodeBytes is off *)
        if opt then begin
          let rec has p (x : dm) = p x || (match x with
              | DList l -> List.exists (has p) l | DMap m -> List.exists (fun (_, y) -> has p y) m | _ -> false) in
          let has_link = has (function DLink _ -> true | _ -> false) v
          and has_bytes = has (function DBytes _ -> true | _ -> false) v in
          let starts p = String.length obs >= String.length p && String.sub obs 0 (String.length p) = p in
          if starts "ok:" && has_link && not ol then fails := "link_not_refused" :: !fails;
          if starts "ok:" && has_bytes && not ob then fails := "bytes_not_refused" :: !fails;
          if starts "err:link" && (ol || not has_link) then fails := "link_refused" :: !fails;
          if starts "err:bytes" && (ob || not has_bytes) then fails := "bytes_refused" :: !fails
        end;
        if !tablemiss then fails := "table_miss" :: !fails;
        let fl = List.sort_uniq compare !fails in
        if fl = [] then "ok" else "fail:" ^ String.concat "," fl in
      print_string id; print_char '\t'; print_string model_obs; print_char '\t'; print_endline verdict
    | id :: "dec" :: opts :: inhex :: ptab_s :: _obs :: _ ->
      let ptab = parse_tab ptab_s in
      let cid_parse s =
        match Hashtbl.find_opt ptab (hex_of_bytes s) with
        | Some "!" -> None
        | Some t -> Some (bytes_of_hex t)
        | None -> tablemiss := true; None in
      let bit i = String.length opts > i && opts.[i] = '1' in
      let depth = if String.length opts > 7 then int_of_string (String.sub opts 7 (String.length opts - 7)) else 0 in
      let dop = { jd_links = bit 1; jd_bytes = bit 3; jd_dont_parse_beyond = bit 5; jd_max_depth = z_of_int depth } in
      let model_obs =
        match jdecode parse_float_ocaml cid_parse dop (bytes_of_hex inhex) with
        | Ok (d, rest) ->
          "ok:" ^ string_of_dm d ^ (if bit 5 then Printf.sprintf "|rest:%d" (List.length rest) else "")
        | Err e -> "err:" ^ jderr_name e in
      let model_obs = if !tablemiss then model_obs ^ "!tablemiss" else model_obs in
      print_string id; print_char '\t'; print_string model_obs; print_char '\t';
      print_endline (if !tablemiss then "fail:table_miss" else "ok")
    | id :: "j" :: codec :: opts :: inhex :: ptab_s :: obs :: _ ->
      (* C10: id, "j", dagjson|json, l<0|1>y<0|1>e<0|1>d<maxdepth>, input, ptab, obs = ok|d<depth> / err:depth / err:other / panic:<site> *)
      let ptab = parse_tab ptab_s in
      let cid_parse s =
        match Hashtbl.find_opt ptab (hex_of_bytes s) with
        | Some "!" -> None
        | Some t -> Some (bytes_of_hex t)
        | None -> tablemiss := true; None in
      let bit i = codec <> "json" && String.length opts > i && opts.[i] = '1' in
      let beyond = String.length opts > 5 && opts.[5] = '1' in
      let depth = if String.length opts > 7 then int_of_string (String.sub opts 7 (String.length opts - 7)) else 0 in
      let dop = { jd_links = bit 1; jd_bytes = bit 3; jd_dont_parse_beyond = beyond; jd_max_depth = z_of_int depth } in
      let model_obs =
        match jdecode parse_float_ocaml cid_parse dop (bytes_of_hex inhex) with
        | Ok (d, _) -> Printf.sprintf "ok|d%d" (int_of_nat (dm_depth d))
        | Err JDDepth -> "err:depth"
        | Err (JDOther | JDTrailing) -> "err:other"
        | Err JDFuel -> "err:fuel"
        | Err JDStale -> "err:stale" in
      let maxd = if depth > 0 then depth else 1024 in
      let verdict =
        if !tablemiss then "fail:table_miss"
        else if String.length obs >= 5 && String.sub obs 0 5 = "panic" then "fail:json_decode_panic"
        else if (try Scanf.sscanf obs "ok|d%d" (fun d -> d > maxd) with _ -> false) then "fail:json_depth_exceeded"
        else if obs <> model_obs then "fail:json_model_mismatch"
        else "ok" in
      print_string id; print_char '\t'; print_string model_obs; print_char '\t'; print_endline verdict
    | _ -> ())
