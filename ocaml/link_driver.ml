(* link_driver: model observation + oracle verdict for the records of harness/cmd/c05 ("hist") and
   harness/cmd/c06 ("cfg", "load", "store").  Shared by C05 and C06 (cluster `link`).

   The extracted LinkSystem model is parametric in the hash functions and the codec registry.  The
   driver instantiates it with
     - hash / hasher_ok : finite tables of the REAL digests, printed by the harness in each record
       (sound: the theorems hold for an arbitrary hash function);
     - dag-cbor, cbor, raw : the concrete extracted codecs (Codec/Cbor.v, raw_codec);
     - dag-json, json      : finite tables of what the real encoder / decoder did (the theorems
       treat these two codecs through their laws only; the laws are checked on every table entry). *)
open Model
open Dmio

type bytes = n list   (* Base/Bytes.v may export [bytes] as a notation only *)

let split = String.split_on_char

(* ------------------------------------------------------------------ tables *)

let tab : (string, string) Hashtbl.t = Hashtbl.create 256
let missing = ref false          (* the model asked for a table entry the harness did not print *)
let law_broken = ref []          (* codec-law violations seen in table entries *)

let load_tables (s : string) =
  Hashtbl.reset tab; missing := false; law_broken := [];
  if s <> "" then
    List.iter (fun ent ->
        match String.index_opt ent '=' with
        | Some i -> Hashtbl.replace tab (String.sub ent 0 i) (String.sub ent (i + 1) (String.length ent - i - 1))
        | None -> ()) (split ',' s)

let hasher_ok (mht : n) : bool = Hashtbl.find_opt tab ("K" ^ hex_of_n mht) = Some "1"

let hash (mht : n) (bs : bytes) : bytes =
  match Hashtbl.find_opt tab ("H" ^ hex_of_n mht ^ "." ^ hex_of_bytes bs) with
  | Some d -> bytes_of_hex d
  | None -> missing := true; [n_of_int 256; n_of_int 256]

let parse_chunks (s : string) : bytes list = List.map bytes_of_hex (split '+' s)

let json_werr_ignored = ref true   (* refmt's JSON encoder drops the error of a failed Write *)
let store_latch = ref true         (* Store latches the first write error (fix 4c486a6) *)

let table_codec (code : string) : codec =
  { c_enc = (fun v ->
        match Hashtbl.find_opt tab ("E" ^ code ^ "." ^ string_of_dm v) with
        | Some "!" -> None
        | Some s when String.length s > 0 && s.[0] = 'c' -> Some (parse_chunks (String.sub s 1 (String.length s - 1)))
        | _ -> missing := true; None);
    c_dec = (fun bs ->
        match Hashtbl.find_opt tab ("D" ^ code ^ "." ^ hex_of_bytes bs) with
        | Some "!" -> None
        | Some s when String.length s > 0 && s.[0] = 'v' ->
          (match split '~' (String.sub s 1 (String.length s - 1)) with
           | [d; p; e] ->
             let pulled = int_of_string p and saw = (e = "1") in
             (* decode_ok_consumes_all, checked on every entry *)
             if pulled <> List.length bs || not saw then
               law_broken := "decode_ok_not_all_consumed" :: !law_broken;
             Some ((dm_of_string d, n_of_int pulled), saw)
           | _ -> missing := true; None)
        | _ -> missing := true; None);
    c_werr_ignored = !json_werr_ignored }

let reject_tags = true

(* a concretely modelled codec whose output is cut at the REAL encoder's write boundaries when the
   harness printed them (store records of c06: a write schedule counts Write calls); the bytes are
   the model's — if the real writes do not concatenate to them the model's single chunk is kept *)
let with_real_chunks (code : string) (c : codec) : codec =
  { c with c_enc = (fun v ->
        match c.c_enc v with
        | Some [bs] ->
          (match Hashtbl.find_opt tab ("E" ^ code ^ "." ^ string_of_dm v) with
           | Some s when String.length s > 0 && s.[0] = 'c' ->
             let chunks = parse_chunks (String.sub s 1 (String.length s - 1)) in
             if List.concat chunks = bs then Some chunks else Some [bs]
           | _ -> Some [bs])
        | r -> r) }

(* an implementation, named by its canonical multicodec code (hex) *)
let impl_codec (impl : string) : codec option =
  match impl with
  | "71" -> Some (with_real_chunks "71" (dagcbor_codec reject_tags))
  | "51" -> Some (with_real_chunks "51" (plaincbor_codec reject_tags))
  | "55" -> Some (with_real_chunks "55" raw_codec)
  | "129" -> Some (table_codec "129")
  | "200" -> Some (table_codec "200")
  | "7100" -> Some { (table_codec "7100") with c_werr_ignored = false }  (* dag-cbor through tables: large blocks *)
  | _ -> None

(* registry description: "G" (the global registry as the harness sets it up) or
   "R:<code>=<impl>[:e|:d],..." -> encoder table, decoder table (code hex -> impl hex) *)
let global_spec = "70=71,71=71,51=51,129=129,200=200,55=55"

let parse_reg (s : string) : (string * string) list * (string * string) list =
  (* "R:", "Rd:", "Rl:" — the order in which the harness populates the zero-value Registry is
     immaterial to the model *)
  let body = if s = "G" then global_spec
    else (match String.index_opt s ':' with
        | Some i when i >= 1 && i <= 2 && s.[0] = 'R' -> String.sub s (i + 1) (String.length s - i - 1)
        | _ -> failwith ("bad registry " ^ s)) in
  let encs = ref [] and decs = ref [] in
  if body <> "" then
    List.iter (fun ent ->
        match split '=' ent with
        | [code; v] ->
          (match split ':' v with
           | [impl] -> encs := (code, impl) :: !encs; decs := (code, impl) :: !decs
           | [impl; "e"] -> encs := (code, impl) :: !encs
           | [impl; "d"] -> decs := (code, impl) :: !decs
           | _ -> failwith ("bad registry entry " ^ ent))
        | _ -> failwith ("bad registry entry " ^ ent)) (split ',' body);
  (!encs, !decs)

let reg_fun (tbl : (string * string) list) : n -> codec option =
  fun code -> match List.assoc_opt (hex_of_n code) tbl with
    | Some impl -> impl_codec impl
    | None -> None

let global_encs, global_decs = parse_reg "G"
let g_encoders = reg_fun global_encs
let g_decoders = reg_fun global_decs

(* "bload" records (large blocks, byte strings under names — harness/lib/link_big.go): raw is the
   concrete model run on the names, dag-cbor is taken from D tables *)
let big_decs = List.map (fun (c, i) -> (c, if i = "71" then "7100" else i)) global_decs
let big_decoders = reg_fun big_decs
let cur_decs = ref global_decs
let cur_decoders = ref g_decoders

(* ------------------------------------------------------------------ parsing *)

let parse_proto (s : string) : lproto =
  match split '.' s with
  | [v; c; m; l] ->
    { lp_version = n_of_int (int_of_string v); lp_codec = n_of_hex c; lp_mhtype = n_of_hex m;
      lp_mhlen = z_of_int (int_of_string l) }
  | _ -> failwith ("bad proto " ^ s)

let rec drop k l = if k <= 0 then l else match l with [] -> [] | _ :: r -> drop (k - 1) r

let parse_link (b : bytes) : link option =
  match b with
  | x :: y :: _ when x = n_of_int 18 && y = n_of_int 32 && List.length b = 34 ->
    Some { l_v0 = true; l_codec = n_of_int 112; l_mhtype = n_of_int 18; l_digest = drop 2 b }
  | x :: rest when x = n_of_int 1 ->
    (match uvarint rest with
     | Some (codec, r1) ->
       (match uvarint r1 with
        | Some (mht, r2) ->
          (match uvarint r2 with
           | Some (len, dig) when int_of_n len = List.length dig ->
             Some { l_v0 = false; l_codec = codec; l_mhtype = mht; l_digest = dig }
           | _ -> None)
        | None -> None)
     | None -> None)
  | _ -> None

let form_of = function "l" -> FLoad | "r" -> FLoadRaw | "p" -> FLoadPlusRaw | _ -> FFill

(* ------------------------------------------------------------------ printing *)

let eclass_name = function
  | ESetup -> "setup" | EOpen -> "open" | EIo -> "io" | EShortWrite -> "shortwrite" | EHashMismatch -> "hash_mismatch"
  | EDecode -> "decode" | EEncode -> "encode" | ECommit -> "commit" | EReify -> "reify"

let status_name = function SOk -> "ok" | SErr e -> "err." ^ eclass_name e | SPanic -> "panic"

let sout_text (s : sout) : string =
  status_name s.so_status ^ "/" ^ (match s.so_link with Some l -> hex_of_bytes (link_binary l) | None -> "-")

let lout_text (o : lout) : string =
  status_name o.lo_status ^ "/" ^ (match o.lo_node with Some v -> string_of_dm v | None -> "-")
  ^ "/" ^ (match o.lo_raw with
           | Some [] when o.lo_status <> SOk -> "-"   (* Go: a nil slice beside an error is "no bytes" *)
           | Some b -> "x" ^ hex_of_bytes b
           | None -> "-")

let storage_text (st : storage) : string =
  let ents = List.map (fun (k, b) -> hex_of_bytes k ^ "=" ^ hex_of_bytes b) st in
  "#" ^ String.concat "," (List.sort compare ents)

(* ------------------------------------------------------------------ spec helpers *)

(* canonical form of a value under an implementation (named by its canonical code) *)
let canon (impl : string) (v : dm) : dm =
  if impl = "71" then sort_maps rfc_ltb v
  else if impl = "129" then sort_maps bytes_ltb v
  else v

let add_fail fails c = if not (List.mem c !fails) then fails := c :: !fails
let verdict_of fails = if !fails = [] then "ok" else "fail:" ^ String.concat "," (List.rev !fails)

(* ------------------------------------------------------------------ write schedules *)

let parse_sched (s : string) : wact list =
  if s = "-" || s = "" then [] else
    List.map (fun a ->
        if a = "f" then WFail
        else if String.length a > 1 && a.[0] = 's' then WShort (n_of_int (int_of_string (String.sub a 1 (String.length a - 1))))
        else WOk) (split ',' s)

(* SPEC side: does some Write of the encoder's output fail (or come back short) at the storage
   writer?  Up to the first failure every Write of the encoder reaches the writer, so this does not
   depend on what the implementation does afterwards. *)
let first_failure (cap : int) (sched : wact list) (chunks : bytes list) : bool =
  let rec go used sched chunks =
    match chunks with
    | [] -> false
    | c :: r ->
      let len = List.length c in
      if cap >= 0 && used + len > cap then true
      else
        let (a, sched') = (match sched with a :: t -> (a, t) | [] -> (WOk, [])) in
        (match a with
         | WFail -> true
         | WShort n when int_of_n n < len -> true
         | _ -> go (used + len) sched' r) in
  go 0 sched chunks

(* ------------------------------------------------------------------ C05: histories *)

(* is_store, write schedule (stores through a misbehaving writer), proto text, ...; form, link *)
type pop = PS of bool * wact list option * string * lproto * dm | PG of string * bytes

let nested_marks : (int, unit) Hashtbl.t = Hashtbl.create 8   (* positions of nested (N) ops *)
let must_marks : (int, unit) Hashtbl.t = Hashtbl.create 8     (* positions of Must* ops *)
let pre_marks : (int, unit) Hashtbl.t = Hashtbl.create 8      (* positions of P ops (through the global-registry system) *)

let has_prefix (p : string) (t : string) = String.length t >= String.length p && String.sub t 0 (String.length p) = p

let rec parse_op (s : string) : pop =
  match split ':' s with
  | "N" :: _sys :: rest -> parse_op (String.concat ":" rest)
  | "P" :: rest -> parse_op (String.concat ":" rest)
  | ("MC" | "MS" | "MG" as m) :: rest -> parse_op (String.concat ":" (String.sub m 1 1 :: rest))
  | ["S"; p; _h; v] -> PS (true, None, p, parse_proto p, dm_of_string v)
  | ["W"; p; _h; sc; v] -> PS (true, Some (parse_sched sc), p, parse_proto p, dm_of_string v)
  | ["C"; p; _h; v] -> PS (false, None, p, parse_proto p, dm_of_string v)
  | ["G"; f; l] -> PG (f, bytes_of_hex l)
  | ["G"; f; l; _holder] -> PG (f, bytes_of_hex l)
  | _ -> failwith ("bad op " ^ s)

let proto_codec_hex (p : string) = match split '.' p with [_; c; _; _] -> c | _ -> ""
let proto_in_space (p : string) : bool =
  match split '.' p with
  | [v; c; m; l] ->
    let l = int_of_string l in
    let full = (match m with "12" | "16" -> 32 | "13" -> 64 | _ -> max_int) in
    if v = "0" then c = "70" && m = "12" && (l = 32 || l = -1)
    else v = "1" && (m = "0" || (l >= -1 && l <= full))
  | _ -> false

(* A load into a schema-typed prototype (harness/lib/link_holders.go) presents the decoded value at
   the type level: a struct iterates its fields in declaration order, whatever order the block had
   them in.  [typed_view h v] is that presentation of the decoded value v. *)
let typed_fields = function
  | "tpoint" -> ["x"; "y"]
  | "tjoin" -> ["a"; "b"]
  | "trename" -> ["foo"; "bar"]
  | "gmsg3" -> ["whee"; "woot"; "waga"]
  | _ -> []

let bytes_of_ascii (s : string) : bytes = List.init (String.length s) (fun i -> n_of_int (Char.code s.[i]))

let typed_view (h : string) (v : dm) : dm =
  match v, typed_fields h with
  | DMap es, (_ :: _ as fs) ->
    let picked = List.filter_map (fun f -> let k = bytes_of_ascii f in
                                   match List.assoc_opt k es with Some x -> Some (k, x) | None -> None) fs in
    if List.length picked = List.length es then DMap picked else v
  | _ -> v

(* holder of a load op (4th field of G), "" for Prototype.Any *)
let load_holder (t : string) : string =
  let t = (if String.length t > 2 && String.sub t 0 2 = "N:" then
             (match split ':' t with _ :: _ :: rest -> String.concat ":" rest | _ -> t) else t) in
  match split ':' t with [("G" | "MG"); _; _; h] -> h | _ -> ""

let do_hist id kind trusted reg_text ops_text obs =
  let (encs, decs) = parse_reg reg_text in
  let encoders = reg_fun encs and decoders = reg_fun decs in
  let op_texts = split ';' ops_text in
  (* a nested operation (performed inside the storage opener of the next op) is, for the model, the
     same operation performed just before it: hashers are fresh per call and a ComputeLink / load
     changes no state, so nesting is invisible — the tie obligation this run discharges *)
  Hashtbl.reset nested_marks; Hashtbl.reset must_marks; Hashtbl.reset pre_marks;
  List.iteri (fun i t ->
      if has_prefix "N:" t then Hashtbl.replace nested_marks i ();
      if has_prefix "P:" t then Hashtbl.replace pre_marks i ();
      if has_prefix "MC:" t || has_prefix "MS:" t || has_prefix "MG:" t then Hashtbl.replace must_marks i ()) op_texts;
  let pops = List.map parse_op op_texts in
  let sk = if kind = "cid" then cidmem_kind else memstore_kind in
  let bad = ref false in
  let ops = List.map (function
      | PS (true, None, _, lp, v) -> OStore (lp, v)
      | PS (true, Some sc, _, lp, v) ->
        OStoreW ({ w_open_err = false; w_cap = None; w_sched = sc; w_commit_err = false }, lp, v)
      | PS (false, _, _, lp, v) -> OCompute (lp, v)
      | PG (f, lb) ->
        (match parse_link lb with
         | Some l -> OLoad (form_of f, l)
         | None -> bad := true; OLoad (form_of f, { l_v0 = false; l_codec = N0; l_mhtype = N0; l_digest = [] }))) pops in
  (* P ops (a prefix of the history) go through a DefaultLinkSystem on the same storage *)
  let npre = Hashtbl.length pre_marks in
  let rec take_n k l = if k <= 0 then [] else match l with [] -> [] | x :: r -> x :: take_n (k - 1) r in
  let (pre_outs, st_pre) = run hasher_ok hash g_encoders g_decoders !store_latch sk trusted [] (take_n npre ops) in
  let run_rest ops' =
    let (o, st) = run hasher_ok hash encoders decoders !store_latch sk trusted st_pre (drop npre ops') in
    (pre_outs @ o, st) in
  let (outs0, _) = run_rest ops in
  let setup_failed i = (match List.nth_opt outs0 i with
      | Some (OutS s) -> s.so_status = SErr ESetup
      | Some (OutL o) -> o.lo_status = SErr ESetup
      | None -> true) in
  (* the opener of the outer op is never reached when the outer op fails in its set-up: the nested
     operation does not happen (and the harness printed no table entries for it) *)
  let notrun = Hashtbl.fold (fun i () acc -> if setup_failed (i + 1) then i :: acc else acc) nested_marks [] in
  missing := false;
  let ops_run = List.filteri (fun i _ -> not (List.mem i notrun)) ops in
  let (outs, st) = run_rest ops_run in
  let rec splice i outs =
    if i >= List.length ops then [] else
    if List.mem i notrun then "notrun" :: splice (i + 1) outs
    else (match outs with
        | OutS s :: r -> sout_text (if Hashtbl.mem must_marks i then must_s s else s) :: splice (i + 1) r
        | OutL o :: r ->
          let o = if Hashtbl.mem must_marks i then must_l o else o in
          let h = load_holder (List.nth op_texts i) in
          let o = (if h = "" then o else { o with lo_node = (match o.lo_node with Some v -> Some (typed_view h v) | None -> None) }) in
          lout_text o :: splice (i + 1) r
        | [] -> []) in
  let out_texts = Array.of_list (splice 0 outs) in
  (* nodes and byte slices handed out by loads are values: nothing later changes them *)
  let model_obs = String.concat ";" (Array.to_list out_texts @ [storage_text st; "R:ok"]) in
  let model_obs = if !missing then model_obs ^ ";!table-entry-missing" else model_obs in
  (* ---- oracle, on the implementation's observation *)
  let iobs = Array.of_list (split ';' obs) in
  let fails = ref [] in
  let nops = List.length pops in
  let skip = ref (!bad) in
  List.iter (function PS (_, _, ptext, _, _) -> if not (proto_in_space ptext) then skip := true | _ -> ()) pops;
  Array.iter (fun o -> if o = "builderr/-" || o = "badlink/-/-" then skip := true) iobs;
  (* building a link system over a freshly populated zero-value Registry must not panic *)
  if Array.exists (fun o -> o = "regpanic/-") iobs then add_fail fails "registry_setup_panic";
  if !skip then ()
  else if Array.length iobs <> nops + 2 then add_fail fails "malformed_obs"
  else begin
    let by_input : (string, string) Hashtbl.t = Hashtbl.create 16 in      (* proto|canon value -> result *)
    let stored : (string, (string * string) list) Hashtbl.t = Hashtbl.create 16 in  (* storage key -> distinct (codec, canon value) *)
    let link_val : (string, string * string) Hashtbl.t = Hashtbl.create 16 in  (* link hex -> codec, canon value (first store) *)
    let key_of_link (l : link) = hex_of_bytes (skey sk l) in
    List.iteri (fun i op ->
        let o = iobs.(i) in
        if o = "notrun" && Hashtbl.mem nested_marks i then () else
        match op with
        | PS (is_store, wsched, ptext, lp, v) ->
          (* a Write of the encoder's output fails (or is short) at the storage writer: the store
             must not succeed; nothing else is asked of it *)
          let write_fails = (match wsched with
              | None -> false
              | Some sc ->
                (match encoders lp.lp_codec with
                 | Some c -> (match c.c_enc v with Some chunks -> first_failure (-1) sc chunks | None -> false)
                 | None -> false)) in
          if o = "builderr/-" then skip := true
          else if not (proto_in_space ptext) then skip := true
          else if write_fails then begin
            let st_ = (match split '/' o with st :: _ -> st | [] -> "ok") in
            if st_ = "ok" then add_fail fails "store_ok_after_write_error"
            else begin
              (* the writer's own error for a failed Write, io.ErrShortWrite for a short count *)
              let want = (match wsched, encoders lp.lp_codec with
                  | Some sc, Some c ->
                    (match c.c_enc v with
                     | Some chunks ->
                       "err." ^ eclass_name (wfail_class { w_open_err = false; w_cap = None; w_sched = sc; w_commit_err = false } chunks)
                     | None -> st_)
                  | _ -> st_) in
              if (st_ = "err.io" || st_ = "err.shortwrite") && st_ <> want
              then add_fail fails "storage_write_error_replaced"
            end
          end
          else begin
            (* the implementation this registry (for a P op: the global one) binds the prototype's code to, for encoding *)
            let enc_tbl = if Hashtbl.mem pre_marks i then global_encs else encs in
            let ch = (match List.assoc_opt (proto_codec_hex ptext) enc_tbl with Some i -> i | None -> "none") in
            if ch = "none" && (match split '/' o with
                | st :: _ -> st <> (if Hashtbl.mem must_marks i then "panic" else "err.setup") | [] -> true)
            then add_fail fails "store_without_encoder";
            let cv = string_of_dm (canon ch v) in
            (* inputs are compared per link system: a P op goes through another registry *)
            let key = (if Hashtbl.mem pre_marks i then "P|" else "") ^ ptext ^ "|" ^ cv in
            (* store = compute = the same for every re-creation of the value, whatever came before;
               a Must* call returns what the plain call returns and panics exactly when that errs *)
            let is_must = Hashtbl.mem must_marks i in
            (match Hashtbl.find_opt by_input key with
             | Some prev ->
               if is_must then begin
                 let prev_ok = has_prefix "ok/" prev in
                 if prev_ok && o <> prev then add_fail fails "must_differs_on_success";
                 if (not prev_ok) && o <> "panic/-" then add_fail fails "must_no_panic_on_error"
               end
               else if prev <> o then add_fail fails "link_fn"
             | None -> if not is_must then Hashtbl.replace by_input key o);
            (match split '/' o with
             | ["ok"; lh] ->
               (match parse_link (bytes_of_hex lh) with
                | None -> add_fail fails "link_unparsable"
                | Some l ->
                  (* the link carries the prototype *)
                  let p = link_proto l in
                  if l.l_v0 <> (lp.lp_version = N0) || (not l.l_v0 && (p.lp_codec <> lp.lp_codec || p.lp_mhtype <> lp.lp_mhtype))
                  then add_fail fails "link_proto";
                  (match lp.lp_mhlen with
                   | Zpos _ | Z0 when lp.lp_mhtype <> N0 && p.lp_mhlen <> lp.lp_mhlen -> add_fail fails "link_digest_length"
                   | _ -> ());
                  if is_store then begin
                    let k = key_of_link l in
                    let prev = (match Hashtbl.find_opt stored k with Some x -> x | None -> []) in
                    if not (List.mem (ch, cv) prev) then Hashtbl.replace stored k ((ch, cv) :: prev);
                    if not (Hashtbl.mem link_val lh) then Hashtbl.replace link_val lh (ch, cv)
                  end)
             | [_; "-"] -> ()
             | _ -> add_fail fails "malformed_obs")
          end
        | PG (f, lb) ->
          (match parse_link lb with
           | None -> ()
           | Some l ->
             let lh = hex_of_bytes lb in
             let k = key_of_link l in
             let writers = (match Hashtbl.find_opt stored k with Some x -> x | None -> []) in
             (match split '/' o with
              | [st; node; raw] ->
                (match writers, Hashtbl.find_opt link_val lh with
                 | [], _ ->
                   (* nothing was ever stored under this key: no data may come back *)
                   if st = "ok" || node <> "-" || raw <> "-" then add_fail fails "phantom_load"
                 | [_], Some (ch, cv) ->
                   (* the stored link, no collision on its key: the value and the bytes come back —
                      through the decoder THIS registry binds the link's code to *)
                   let di = List.assoc_opt (hex_of_n (link_proto l).lp_codec) decs in
                   let want_node = (f <> "r") and want_raw = (f = "r" || f = "p") in
                   let is_must = Hashtbl.mem must_marks i in
                   if want_node && di = None then begin
                     if st <> (if is_must then "panic" else "err.setup") || node <> "-" || raw <> "-"
                     then add_fail fails "load_without_decoder"
                   end
                   else if want_node && di <> Some ch then begin
                     (* bound to different implementations for the two directions: only the bytes are specified *)
                     if st = "ok" && String.length raw > 0 && raw.[0] = 'x' then
                       let rb = bytes_of_hex (String.sub raw 1 (String.length raw - 1)) in
                       (match verify hash l rb with VOk -> () | _ -> add_fail fails "raw_hash")
                   end
                   else if st <> "ok" then add_fail fails "store_load"
                   else begin
                     if want_node then begin
                       let h = load_holder (List.nth op_texts i) in
                       let expect = if h = "" then cv else string_of_dm (typed_view h (dm_of_string cv)) in
                       if node = "-" then add_fail fails "store_load_no_node"
                       else if node <> expect then add_fail fails "store_load_value"
                     end;
                     if want_raw then begin
                       if raw = "-" then add_fail fails "store_load_no_raw"
                       else
                         let rb = bytes_of_hex (String.sub raw 1 (String.length raw - 1)) in
                         (match verify hash l rb with VOk -> () | _ -> add_fail fails "raw_hash")
                     end
                   end
                 | _, _ ->
                   (* colliding storage keys, or a link (same key) that only a sibling store wrote:
                      whatever comes back must still hash to the link *)
                   if st = "ok" && String.length raw > 0 && raw.[0] = 'x' then
                     let rb = bytes_of_hex (String.sub raw 1 (String.length raw - 1)) in
                     (match verify hash l rb with VOk -> () | _ -> add_fail fails "raw_hash"))
              | _ -> add_fail fails "malformed_obs"))) pops;
    (* what a load returned stays what it was *)
    let ret = iobs.(nops + 1) in
    if ret <> "R:ok" then begin
      let has sub = (let n = String.length sub and m = String.length ret in
                     let rec go i = i + n <= m && (String.sub ret i n = sub || go (i + 1)) in go 0) in
      if has "node@" then add_fail fails "loaded_node_changed";
      if has "raw@" then add_fail fails "loaded_raw_changed";
      if not (has "node@" || has "raw@") then add_fail fails "malformed_obs"
    end;
    (* the storage invariant: every block sits under a link it hashes to (memstore: key = link) *)
    let dump = iobs.(nops) in
    if String.length dump > 1 && kind = "mem" then
      List.iter (fun ent ->
          match split '=' ent with
          | [k; b] ->
            (match parse_link (bytes_of_hex k) with
             | Some l -> (match verify hash l (bytes_of_hex b) with
                 | VOk -> () | VPanic -> () | VMismatch -> add_fail fails "block_under_wrong_link")
             | None -> add_fail fails "store_key_not_a_link")
          | _ -> ()) (split ',' (String.sub dump 1 (String.length dump - 1)))
  end;
  List.iter (add_fail fails) !law_broken;
  let verdict = if !fails <> [] then verdict_of fails else if !skip then "skip" else "ok" in
  (model_obs, verdict)

(* ------------------------------------------------------------------ C06: single loads and stores *)

let chunks_of (s : string) : bytes list =
  if s = "" then [] else List.map (fun p -> if p = "_" then [] else bytes_of_hex p) (split '+' s)

(* SPEC of one load, evaluated on the implementation's observation [obs] = status/node/raw:
   [trusted] is what the USER declared; [ok_reify_error]: a failing NodeReifier is configured, its
   error is an acceptable outcome for a block that verifies and decodes *)
let load_oracle ?(ok_reify_error = false) fails skip (f : lform) (trusted : bool) (l : link)
    (chunks : bytes list) (tail : string) (obs : string) : unit =
    (match split '/' obs with
     | [st; node; raw] ->
       let data = List.concat chunks in
       let verifies = f = FLoadRaw || f = FLoadPlusRaw || not trusted in
       let p = link_proto l in
       let spec_dec = (match !cur_decoders p.lp_codec with Some c -> Some (c.c_dec data) | None -> None) in
       if tail = "open" || tail = "err" then begin
         (* I/O failure: an error, and neither a node nor bytes *)
         if st = "ok" then add_fail fails "io_swallowed";
         if node <> "-" || raw <> "-" then add_fail fails "data_with_io_error"
       end else if not verifies then ()
       else if not (hasher_ok p.lp_mhtype) || (spec_dec = None && f <> FLoadRaw) then begin
         if st = "ok" || node <> "-" || raw <> "-" then add_fail fails "data_without_setup"
       end else begin
         match verify hash l data with
         | VPanic -> skip := true
         | VMismatch ->
           if st = "ok" then add_fail fails "unverified_data"
           else if st <> "err.hash_mismatch" then add_fail fails "precedence";
           if node <> "-" || raw <> "-" then add_fail fails "data_with_mismatch"
         | VOk ->
           let decoded = (match spec_dec with Some (Some ((v, _), _)) -> Some v | _ -> None) in
           if st = "ok" then begin
             if f <> FLoadRaw then begin
               match decoded with
               | Some v -> if node <> string_of_dm v then add_fail fails "node_differs"
               | None -> add_fail fails "node_from_undecodable_block"
             end;
             if f = FLoadRaw || f = FLoadPlusRaw then
               if raw <> "x" ^ hex_of_bytes data then add_fail fails "raw_differs"
           end else if ok_reify_error && st = "err.reify" && (f = FLoad || f = FLoadPlusRaw) && decoded <> None then begin
             if node <> "-" then add_fail fails "node_with_error"
           end else begin
             (* a block that hashes to its link may only be refused by the decoder's verdict on
                those bytes.  Known defect (refmt's byte reader turns a (0, nil) read into a zero
                byte): an empty read before more data of a genuine block makes Load / Fill report a
                decode error for dag-cbor / cbor / dag-json / json blocks *)
             let rec mid_empty = function
               | [] -> false
               | [] :: r -> List.exists (fun c -> c <> []) r || mid_empty r
               | _ :: r -> mid_empty r in
             let refmt_codec = (match List.assoc_opt (hex_of_n p.lp_codec) !cur_decs with
                 | Some ("71" | "51" | "129" | "200" | "7100") -> true | _ -> false) in
             if f = FLoadRaw then add_fail fails "valid_block_refused"
             else if st <> "err.decode" || decoded <> None then
               add_fail fails
                 (if (f = FLoad || f = FFill) && st = "err.decode" && refmt_codec && mid_empty chunks
                  then "empty_read_mid_block" else "valid_block_refused");
             if node <> "-" then add_fail fails "node_with_error"
           end
       end
     | _ -> add_fail fails "malformed_obs")

let do_load form trusted link_hex stream tail obs =
  match parse_link (bytes_of_hex link_hex) with
  | None -> ("badlink", "skip")
  | Some l ->
    let chunks = chunks_of stream in
    let ro = (match tail with
        | "open" -> ROpenErr
        | "err" -> RStream (chunks, TErr)
        | _ -> RStream (chunks, TEof)) in
    let f = form_of form in
    let o = load_any hasher_ok hash !cur_decoders f trusted ro l in
    let model_obs = lout_text o ^ (if !missing then "/!table-entry-missing" else "") in
    let fails = ref [] in
    let skip = ref false in
    load_oracle fails skip f trusted l chunks tail obs;
    List.iter (add_fail fails) !law_broken;
    (model_obs, if !fails <> [] then verdict_of fails else if !skip then "skip" else "ok")

(* ------------------------------------------------------------------ C06: NodeReifier scenarios *)

let ropen_of chunks tail =
  match tail with
  | "open" -> ROpenErr
  | "err" -> RStream (chunks, TErr)
  | _ -> RStream (chunks, TEof)

let do_reify form trusted rmode plink_hex pstream ptail children obs =
  match parse_link (bytes_of_hex plink_hex) with
  | None -> ("badlink", "skip")
  | Some pl ->
    let kids = if children = "" then [] else
        List.map (fun c -> match split '~' c with
            | [lh; st; tl; now; later] ->
              (match parse_link (bytes_of_hex lh) with
               | Some l -> (lh, l, chunks_of st, tl, now, later)
               | None -> failwith "bad child link")
            | _ -> failwith ("bad child " ^ c)) (split ';' children) in
    let pchunks = chunks_of pstream in
    (* the USER's link system: the trust flag and what the storage serves per link *)
    let served = (plink_hex, ropen_of pchunks ptail) :: List.map (fun (lh, _, ch, tl, _, _) -> (lh, ropen_of ch tl)) kids in
    let h = { h_trusted = trusted;
              h_open = (fun l -> match List.assoc_opt (hex_of_bytes (link_binary l)) served with
                  | Some ro -> ro | None -> ROpenErr) } in
    let rm = (match rmode with "none" -> RNone | "fail" -> RFail | _ -> RId) in
    let f = form_of form in
    let outer = load_h hasher_ok hash g_decoders rm f h pl in
    let hd = reifier_handle hasher_ok hash g_decoders rm f h pl in
    let b = Buffer.create 256 in
    Buffer.add_string b (lout_text outer);
    (match hd with
     | None -> Buffer.add_string b ";inv=0,ht=-"
     | Some h' -> Buffer.add_string b (";inv=1,ht=" ^ (if h'.h_trusted then "1" else "0")));
    (* loads of the child links through the handle the reifier received: during the outer call
       (nested reifier invocations return the node untouched) and after it returned *)
    List.iter (fun (_, l, _, _, now, later) ->
        List.iter (fun frm ->
            Buffer.add_char b ';';
            match hd with
            | Some h' when frm <> "-" -> Buffer.add_string b (lout_text (load_h hasher_ok hash g_decoders RId (form_of frm) h' l))
            | _ -> Buffer.add_char b '-') [now; later]) kids;
    Buffer.add_string b ";K:ok";   (* what the loads returned stays what it was *)
    let model_obs = Buffer.contents b ^ (if !missing then ";!table-entry-missing" else "") in
    (* ---- oracle: every load through ANY link system handle the library handed out obeys C06
       with the trust the USER declared *)
    let fails = ref [] in
    let skip = ref false in
    (match split ';' obs with
     | outer_obs :: meta :: kid_obs when List.length kid_obs = 2 * List.length kids + 1 ->
       let kept = List.nth kid_obs (2 * List.length kids) in
       if kept <> "K:ok" then begin
         let parts = split ',' (String.sub kept 2 (String.length kept - 2)) in
         if List.mem "node" parts then add_fail fails "loaded_node_changed";
         if List.mem "raw" parts then add_fail fails "loaded_raw_changed"
       end;
       load_oracle ~ok_reify_error:(rm = RFail) fails skip f trusted pl pchunks ptail outer_obs;
       (match split ',' meta with
        | ["inv=1"; ht] ->
          if not (f = FLoad || f = FLoadPlusRaw) then add_fail fails "reifier_invoked_by_fill_or_loadraw";
          if ht <> "ht=" ^ (if trusted then "1" else "0") then add_fail fails "reifier_handle_trust_changed"
        | _ -> ());
       let ko = Array.of_list kid_obs in
       List.iteri (fun i (_, l, ch, tl, now, later) ->
           List.iteri (fun j frm ->
               let o = ko.(2 * i + j) in
               if o <> "-" && frm <> "-" then load_oracle fails skip (form_of frm) trusted l ch tl o) [now; later]) kids
     | _ -> add_fail fails "malformed_obs");
    List.iter (add_fail fails) !law_broken;
    (model_obs, if !fails <> [] then verdict_of fails else if !skip then "skip" else "ok")

let do_store proto_text value wopen cap sched_text commiterr obs =
  let lp = parse_proto proto_text in
  let v = dm_of_string value in
  let sched = parse_sched sched_text in
  let w = { w_open_err = (wopen = "1");
            w_cap = (let c = int_of_string cap in if c < 0 then None else Some (n_of_int c));
            w_sched = sched;
            w_commit_err = (commiterr = "1") } in
  let (s, st) = store hasher_ok hash g_encoders !store_latch memstore_kind w [] lp v in
  let cl = compute hasher_ok hash g_encoders lp v in
  let invoked = (match s.so_status with SOk | SErr ECommit -> true | _ -> false) in
  let model_obs =
    sout_text s ^ "/commit=" ^ (if invoked then "1" else "0") ^ "/" ^
    (match st with [(_, b)] -> "x" ^ hex_of_bytes b | _ -> "-")
    ^ "/cl:" ^ status_name cl.so_status ^ ":" ^ (match cl.so_link with Some l -> hex_of_bytes (link_binary l) | None -> "-")
    ^ (if !missing then "/!table-entry-missing" else "") in
  (* ---- oracle *)
  let fails = ref [] in
  let skip = ref (not (proto_in_space proto_text)) in
  let ch = (match List.assoc_opt (proto_codec_hex proto_text) global_encs with Some i -> i | None -> "none") in
  (match split '/' obs with
   | [st_; lh; cm; bytes_; cl_] ->
     (match g_encoders lp.lp_codec with
      | None -> if st_ = "ok" || cm <> "commit=0" then add_fail fails "commit_without_setup"
      | Some c ->
        if not (hasher_ok lp.lp_mhtype) then begin
          if st_ = "ok" || cm <> "commit=0" then add_fail fails "commit_without_setup"
        end else
        (match c.c_enc v with
         | None ->
           if st_ = "ok" then add_fail fails "store_ok_after_encode_error";
           if cm <> "commit=0" then add_fail fails "commit_after_encode_error"
         | Some chunks ->
           let full = List.concat chunks in
           let capi = int_of_string cap in
           (* whenever Store reports success: the committed bytes are the encoder's output, they
              hash to the returned link, and the link is ComputeLink's *)
           if st_ = "ok" && not !skip then begin
             if bytes_ <> "x" ^ hex_of_bytes full then add_fail fails "committed_bytes_wrong";
             if cl_ <> "cl:ok:" ^ lh then add_fail fails "store_ne_compute";
             (match parse_link (bytes_of_hex lh), bytes_ with
              | Some l, b when String.length b > 0 && b.[0] = 'x' ->
                (match verify hash l (bytes_of_hex (String.sub b 1 (String.length b - 1))) with
                 | VOk -> () | _ -> add_fail fails "committed_bytes_do_not_hash_to_link")
              | _ -> add_fail fails "link_unparsable")
           end;
           if wopen = "1" then begin
             if st_ = "ok" || cm <> "commit=0" then add_fail fails "commit_after_open_error"
           end else if first_failure capi sched chunks then begin
             (* a Write to the storage writer failed or was short during the encoder's output *)
             if st_ = "ok" || cm <> "commit=0" then
               add_fail fails (if ch = "129" || ch = "200" then "json_commit_after_write_error"
                               else "commit_after_write_error")
             else begin
               (* errors of the storage rise without interference: the writer's own error for a failed
                  Write, io.ErrShortWrite for a short count with a nil error *)
               let want = "err." ^ eclass_name (wfail_class w chunks) in
               if st_ <> want then add_fail fails "storage_write_error_replaced"
             end
           end else begin
             match build_link lp (hash lp.lp_mhtype full) with
             | None -> skip := true
             | Some l ->
               if lh <> hex_of_bytes (link_binary l) then add_fail fails "link_wrong";
               if cm <> "commit=1" then add_fail fails "not_committed";
               if commiterr = "1" then (if st_ <> "err.commit" then add_fail fails "commit_error_swallowed")
               else begin
                 if st_ <> "ok" then add_fail fails "store_failed";
                 if bytes_ <> "x" ^ hex_of_bytes full then add_fail fails "committed_bytes_wrong"
               end
           end))
   | _ -> add_fail fails "malformed_obs");
  (model_obs, if !fails <> [] then verdict_of fails else if !skip then "skip" else "ok")

(* ------------------------------------------------------------------ main *)

let () =
  iter_lines (fun line ->
      let out id m v = print_string id; print_char '\t'; print_string m; print_char '\t'; print_endline v in
      match split_tab line with
      | [id; "cfg"; _; obs] ->
        let flags = split ',' obs in
        store_latch := List.mem "store_latch=1" flags;
        json_werr_ignored := List.mem "json_werr_ignored=1" flags;
        out id obs "ok"
      | [id; "hist"; kind; trusted; reg; ops; tables; obs] ->
        load_tables tables;
        let (m, v) = (try do_hist id kind (trusted = "1") reg ops obs with Failure e -> ("driver-error:" ^ e, "ok")) in
        out id m v
      | [id; ("load" | "bload" as kind); form; trusted; link; stream; tail; tables; obs] ->
        load_tables tables;
        if kind = "bload" then (cur_decs := big_decs; cur_decoders := big_decoders)
        else (cur_decs := global_decs; cur_decoders := g_decoders);
        let (m, v) = (try do_load form (trusted = "1") link stream tail obs with Failure e -> ("driver-error:" ^ e, "ok")) in
        out id m v
      | [id; "reify"; form; trusted; rmode; plink; pstream; ptail; children; tables; obs] ->
        load_tables tables;
        cur_decs := global_decs; cur_decoders := g_decoders;
        let (m, v) = (try do_reify form (trusted = "1") rmode plink pstream ptail children obs with Failure e -> ("driver-error:" ^ e, "ok")) in
        out id m v
      | [id; "store"; proto; _holder; value; wopen; cap; sched; commiterr; tables; obs] ->
        load_tables tables;
        let (m, v) = (try do_store proto value wopen cap sched commiterr obs with Failure e -> ("driver-error:" ^ e, "ok")) in
        out id m v
      | _ -> ())
