(* link_driver: model observation + oracle verdict for the records of harness/cmd/c05 ("hist") and
   harness/cmd/c06 ("cfg", "load", "store").  Shared by C05 and C06 (cluster `link`).

   The extracted LinkSystem model is parametric in the hash functions and the codec registry.  The
   driver instantiates it with
     - hash / hasher_ok : finite tables of the REAL digests, printed by the harness in each record
       (sound: the theorems hold for an arbitrary hash function);
     - dag-cbor, cbor, raw : the concrete extracted codecs (Codec/Cbor.v, raw_codec);
     - dag-json, json      : finite tables of what the real encoder / decoder did (the theorems
       treat these two codecs through their laws only; the laws are checked on every table entry). *)
open Model
open Dmio

type bytes = n list   (* Base/Bytes.v may export [bytes] as a notation only *)

let split = String.split_on_char

(* ------------------------------------------------------------------ tables *)

let tab : (string, string) Hashtbl.t = Hashtbl.create 256
let missing = ref false          (* the model asked for a table entry the harness did not print *)
let law_broken = ref []          (* codec-law violations seen in table entries *)

let load_tables (s : string) =
  Hashtbl.reset tab; missing := false; law_broken := [];
  if s <> "" then
    List.iter (fun ent ->
        match String.index_opt ent '=' with
        | Some i -> Hashtbl.replace tab (String.sub ent 0 i) (String.sub ent (i + 1) (String.length ent - i - 1))
        | None -> ()) (split ',' s)

let hasher_ok (mht : n) : bool = Hashtbl.find_opt tab ("K" ^ hex_of_n mht) = Some "1"

let hash (mht : n) (bs : bytes) : bytes =
  match Hashtbl.find_opt tab ("H" ^ hex_of_n mht ^ "." ^ hex_of_bytes bs) with
  | Some d -> bytes_of_hex d
  | None -> missing := true; [n_of_int 256; n_of_int 256]

let parse_chunks (s : string) : bytes list = List.map bytes_of_hex (split '+' s)

let json_werr_ignored = ref true

let table_codec (code : string) : codec =
  { c_enc = (fun v ->
        match Hashtbl.find_opt tab ("E" ^ code ^ "." ^ string_of_dm v) with
        | Some "!" -> None
        | Some s when String.length s > 0 && s.[0] = 'c' -> Some (parse_chunks (String.sub s 1 (String.length s - 1)))
        | _ -> missing := true; None);
    c_dec = (fun bs ->
        match Hashtbl.find_opt tab ("D" ^ code ^ "." ^ hex_of_bytes bs) with
        | Some "!" -> None
        | Some s when String.length s > 0 && s.[0] = 'v' ->
          (match split '~' (String.sub s 1 (String.length s - 1)) with
           | [d; p; e] ->
             let pulled = int_of_string p and saw = (e = "1") in
             (* decode_ok_consumes_all, checked on every entry *)
             if pulled <> List.length bs || not saw then
               law_broken := "decode_ok_not_all_consumed" :: !law_broken;
             Some ((dm_of_string d, n_of_int pulled), saw)
           | _ -> missing := true; None)
        | _ -> missing := true; None);
    c_werr_ignored = !json_werr_ignored }

let reject_tags = true

let registry (code : n) : codec option =
  if code = n_of_int 0x70 then Some (dagcbor_codec reject_tags)   (* harness registers dag-cbor under dag-pb *)
  else default_registry reject_tags (table_codec "129") (table_codec "200") code

(* ------------------------------------------------------------------ parsing *)

let parse_proto (s : string) : lproto =
  match split '.' s with
  | [v; c; m; l] ->
    { lp_version = n_of_int (int_of_string v); lp_codec = n_of_hex c; lp_mhtype = n_of_hex m;
      lp_mhlen = z_of_int (int_of_string l) }
  | _ -> failwith ("bad proto " ^ s)

let rec drop k l = if k <= 0 then l else match l with [] -> [] | _ :: r -> drop (k - 1) r

let parse_link (b : bytes) : link option =
  match b with
  | x :: y :: _ when x = n_of_int 18 && y = n_of_int 32 && List.length b = 34 ->
    Some { l_v0 = true; l_codec = n_of_int 112; l_mhtype = n_of_int 18; l_digest = drop 2 b }
  | x :: rest when x = n_of_int 1 ->
    (match uvarint rest with
     | Some (codec, r1) ->
       (match uvarint r1 with
        | Some (mht, r2) ->
          (match uvarint r2 with
           | Some (len, dig) when int_of_n len = List.length dig ->
             Some { l_v0 = false; l_codec = codec; l_mhtype = mht; l_digest = dig }
           | _ -> None)
        | None -> None)
     | None -> None)
  | _ -> None

let form_of = function "l" -> FLoad | "r" -> FLoadRaw | "p" -> FLoadPlusRaw | _ -> FFill

(* ------------------------------------------------------------------ printing *)

let eclass_name = function
  | ESetup -> "setup" | EOpen -> "open" | EIo -> "io" | EHashMismatch -> "hash_mismatch"
  | EDecode -> "decode" | EEncode -> "encode" | ECommit -> "commit"

let status_name = function SOk -> "ok" | SErr e -> "err." ^ eclass_name e | SPanic -> "panic"

let sout_text (s : sout) : string =
  status_name s.so_status ^ "/" ^ (match s.so_link with Some l -> hex_of_bytes (link_binary l) | None -> "-")

let lout_text (o : lout) : string =
  status_name o.lo_status ^ "/" ^ (match o.lo_node with Some v -> string_of_dm v | None -> "-")
  ^ "/" ^ (match o.lo_raw with
           | Some [] when o.lo_status <> SOk -> "-"   (* Go: a nil slice beside an error is "no bytes" *)
           | Some b -> "x" ^ hex_of_bytes b
           | None -> "-")

let storage_text (st : storage) : string =
  let ents = List.map (fun (k, b) -> hex_of_bytes k ^ "=" ^ hex_of_bytes b) st in
  "#" ^ String.concat "," (List.sort compare ents)

(* ------------------------------------------------------------------ spec helpers *)

let sorting_codec c = (c = "71" || c = "70" || c = "129")
let canon (codec_hex : string) (v : dm) : dm =
  if codec_hex = "71" || codec_hex = "70" then sort_maps rfc_ltb v
  else if codec_hex = "129" then sort_maps bytes_ltb v
  else v

let add_fail fails c = if not (List.mem c !fails) then fails := c :: !fails
let verdict_of fails = if !fails = [] then "ok" else "fail:" ^ String.concat "," (List.rev !fails)

(* ------------------------------------------------------------------ C05: histories *)

type pop = PS of bool * string * lproto * dm | PG of string * bytes   (* is_store, proto text, ...; form, link *)

let parse_op (s : string) : pop =
  match split ':' s with
  | ["S"; p; _h; v] -> PS (true, p, parse_proto p, dm_of_string v)
  | ["C"; p; _h; v] -> PS (false, p, parse_proto p, dm_of_string v)
  | ["G"; f; l] -> PG (f, bytes_of_hex l)
  | _ -> failwith ("bad op " ^ s)

let proto_codec_hex (p : string) = match split '.' p with [_; c; _; _] -> c | _ -> ""
let proto_in_space (p : string) : bool =
  match split '.' p with
  | [v; c; m; l] ->
    let l = int_of_string l in
    let full = (match m with "12" | "16" -> 32 | "13" -> 64 | _ -> max_int) in
    if v = "0" then c = "70" && m = "12" && (l = 32 || l = -1)
    else v = "1" && (m = "0" || (l >= -1 && l <= full))
  | _ -> false

let do_hist id kind trusted ops_text obs =
  let pops = List.map parse_op (split ';' ops_text) in
  let sk = if kind = "cid" then cidmem_kind else memstore_kind in
  let bad = ref false in
  let ops = List.map (function
      | PS (true, _, lp, v) -> OStore (lp, v)
      | PS (false, _, lp, v) -> OCompute (lp, v)
      | PG (f, lb) ->
        (match parse_link lb with
         | Some l -> OLoad (form_of f, l)
         | None -> bad := true; OLoad (form_of f, { l_v0 = false; l_codec = N0; l_mhtype = N0; l_digest = [] }))) pops in
  let (outs, st) = run hasher_ok hash registry sk trusted [] ops in
  let model_obs =
    String.concat ";" (List.map (function OutS s -> sout_text s | OutL o -> lout_text o) outs @ [storage_text st]) in
  let model_obs = if !missing then model_obs ^ ";!table-entry-missing" else model_obs in
  (* ---- oracle, on the implementation's observation *)
  let iobs = Array.of_list (split ';' obs) in
  let fails = ref [] in
  let nops = List.length pops in
  let skip = ref (!bad) in
  List.iter (function PS (_, ptext, _, _) -> if not (proto_in_space ptext) then skip := true | _ -> ()) pops;
  Array.iter (fun o -> if o = "builderr/-" || o = "badlink/-/-" then skip := true) iobs;
  if !skip then ()
  else if Array.length iobs <> nops + 1 then add_fail fails "malformed_obs"
  else begin
    let by_input : (string, string) Hashtbl.t = Hashtbl.create 16 in      (* proto|canon value -> result *)
    let stored : (string, (string * string) list) Hashtbl.t = Hashtbl.create 16 in  (* storage key -> distinct (codec, canon value) *)
    let link_val : (string, string * string) Hashtbl.t = Hashtbl.create 16 in  (* link hex -> codec, canon value (first store) *)
    let key_of_link (l : link) = hex_of_bytes (skey sk l) in
    List.iteri (fun i op ->
        let o = iobs.(i) in
        match op with
        | PS (is_store, ptext, lp, v) ->
          if o = "builderr/-" then skip := true
          else if not (proto_in_space ptext) then skip := true
          else begin
            let ch = proto_codec_hex ptext in
            let cv = string_of_dm (canon ch v) in
            let key = ptext ^ "|" ^ cv in
            (* store = compute = the same for every re-creation of the value, whatever came before *)
            (match Hashtbl.find_opt by_input key with
             | Some prev -> if prev <> o then add_fail fails "link_fn"
             | None -> Hashtbl.replace by_input key o);
            (match split '/' o with
             | ["ok"; lh] ->
               (match parse_link (bytes_of_hex lh) with
                | None -> add_fail fails "link_unparsable"
                | Some l ->
                  (* the link carries the prototype *)
                  let p = link_proto l in
                  if l.l_v0 <> (lp.lp_version = N0) || (not l.l_v0 && (p.lp_codec <> lp.lp_codec || p.lp_mhtype <> lp.lp_mhtype))
                  then add_fail fails "link_proto";
                  (match lp.lp_mhlen with
                   | Zpos _ | Z0 when lp.lp_mhtype <> N0 && p.lp_mhlen <> lp.lp_mhlen -> add_fail fails "link_digest_length"
                   | _ -> ());
                  if is_store then begin
                    let k = key_of_link l in
                    let prev = (match Hashtbl.find_opt stored k with Some x -> x | None -> []) in
                    if not (List.mem (ch, cv) prev) then Hashtbl.replace stored k ((ch, cv) :: prev);
                    if not (Hashtbl.mem link_val lh) then Hashtbl.replace link_val lh (ch, cv)
                  end)
             | [_; "-"] -> ()
             | _ -> add_fail fails "malformed_obs")
          end
        | PG (f, lb) ->
          (match parse_link lb with
           | None -> ()
           | Some l ->
             let lh = hex_of_bytes lb in
             let k = key_of_link l in
             let writers = (match Hashtbl.find_opt stored k with Some x -> x | None -> []) in
             (match split '/' o with
              | [st; node; raw] ->
                (match writers, Hashtbl.find_opt link_val lh with
                 | [], _ ->
                   (* nothing was ever stored under this key: no data may come back *)
                   if st = "ok" || node <> "-" || raw <> "-" then add_fail fails "phantom_load"
                 | [_], Some (ch, cv) ->
                   (* the stored link, no collision on its key: the value and the bytes come back *)
                   if st <> "ok" then add_fail fails "store_load"
                   else begin
                     let want_node = (f <> "r") and want_raw = (f = "r" || f = "p") in
                     if want_node then begin
                       if node = "-" then add_fail fails "store_load_no_node"
                       else if node <> cv then add_fail fails "store_load_value"
                     end;
                     if want_raw then begin
                       if raw = "-" then add_fail fails "store_load_no_raw"
                       else
                         let rb = bytes_of_hex (String.sub raw 1 (String.length raw - 1)) in
                         (match verify hash l rb with VOk -> () | _ -> add_fail fails "raw_hash")
                     end
                   end
                 | _, _ ->
                   (* colliding storage keys, or a link (same key) that only a sibling store wrote:
                      whatever comes back must still hash to the link *)
                   if st = "ok" && String.length raw > 0 && raw.[0] = 'x' then
                     let rb = bytes_of_hex (String.sub raw 1 (String.length raw - 1)) in
                     (match verify hash l rb with VOk -> () | _ -> add_fail fails "raw_hash"))
              | _ -> add_fail fails "malformed_obs"))) pops;
    (* the storage invariant: every block sits under a link it hashes to (memstore: key = link) *)
    let dump = iobs.(nops) in
    if String.length dump > 1 && kind = "mem" then
      List.iter (fun ent ->
          match split '=' ent with
          | [k; b] ->
            (match parse_link (bytes_of_hex k) with
             | Some l -> (match verify hash l (bytes_of_hex b) with
                 | VOk -> () | VPanic -> () | VMismatch -> add_fail fails "block_under_wrong_link")
             | None -> add_fail fails "store_key_not_a_link")
          | _ -> ()) (split ',' (String.sub dump 1 (String.length dump - 1)))
  end;
  List.iter (add_fail fails) !law_broken;
  let verdict = if !fails <> [] then verdict_of fails else if !skip then "skip" else "ok" in
  (model_obs, verdict)

(* ------------------------------------------------------------------ C06: single loads and stores *)

let chunks_of (s : string) : bytes list = if s = "" then [] else parse_chunks s

let do_load form trusted link_hex stream tail obs =
  match parse_link (bytes_of_hex link_hex) with
  | None -> ("badlink", "skip")
  | Some l ->
    let chunks = chunks_of stream in
    let ro = (match tail with
        | "open" -> ROpenErr
        | "err" -> RStream (chunks, TErr)
        | _ -> RStream (chunks, TEof)) in
    let f = form_of form in
    let o = load_any hasher_ok hash registry f trusted ro l in
    let model_obs = lout_text o ^ (if !missing then "/!table-entry-missing" else "") in
    (* ---- oracle *)
    let fails = ref [] in
    let skip = ref false in
    (match split '/' obs with
     | [st; node; raw] ->
       let data = List.concat chunks in
       let verifies = f = FLoadRaw || f = FLoadPlusRaw || not trusted in
       let p = link_proto l in
       let spec_dec = (match registry p.lp_codec with Some c -> Some (c.c_dec data) | None -> None) in
       if tail = "open" || tail = "err" then begin
         (* I/O failure: an error, and neither a node nor bytes *)
         if st = "ok" then add_fail fails "io_swallowed";
         if node <> "-" || raw <> "-" then add_fail fails "data_with_io_error"
       end else if not verifies then ()
       else if not (hasher_ok p.lp_mhtype) || (spec_dec = None && f <> FLoadRaw) then begin
         if st = "ok" || node <> "-" || raw <> "-" then add_fail fails "data_without_setup"
       end else begin
         match verify hash l data with
         | VPanic -> skip := true
         | VMismatch ->
           if st = "ok" then add_fail fails "unverified_data"
           else if st <> "err.hash_mismatch" then add_fail fails "precedence";
           if node <> "-" || raw <> "-" then add_fail fails "data_with_mismatch"
         | VOk ->
           let decoded = (match spec_dec with Some (Some ((v, _), _)) -> Some v | _ -> None) in
           if st = "ok" then begin
             if f <> FLoadRaw then begin
               match decoded with
               | Some v -> if node <> string_of_dm v then add_fail fails "node_differs"
               | None -> add_fail fails "node_from_undecodable_block"
             end;
             if f = FLoadRaw || f = FLoadPlusRaw then
               if raw <> "x" ^ hex_of_bytes data then add_fail fails "raw_differs"
           end else begin
             (* a block that hashes to its link may only be refused by the decoder *)
             if f = FLoadRaw then add_fail fails "valid_block_refused"
             else if st <> "err.decode" || decoded <> None then add_fail fails "valid_block_refused";
             if node <> "-" then add_fail fails "node_with_error"
           end
       end
     | _ -> add_fail fails "malformed_obs");
    List.iter (add_fail fails) !law_broken;
    (model_obs, if !fails <> [] then verdict_of fails else if !skip then "skip" else "ok")

let do_store proto_text value wopen cap commiterr obs =
  let lp = parse_proto proto_text in
  let v = dm_of_string value in
  let w = { w_open_err = (wopen = "1");
            w_cap = (let c = int_of_string cap in if c < 0 then None else Some (n_of_int c));
            w_commit_err = (commiterr = "1") } in
  let (s, st) = store hasher_ok hash registry memstore_kind w [] lp v in
  let invoked = (match s.so_status with SOk | SErr ECommit -> true | _ -> false) in
  let model_obs =
    sout_text s ^ "/commit=" ^ (if invoked then "1" else "0") ^ "/" ^
    (match st with [(_, b)] -> "x" ^ hex_of_bytes b | _ -> "-")
    ^ (if !missing then "/!table-entry-missing" else "") in
  (* ---- oracle *)
  let fails = ref [] in
  let skip = ref (not (proto_in_space proto_text)) in
  let ch = proto_codec_hex proto_text in
  (match split '/' obs with
   | [st_; lh; cm; bytes_] ->
     (match registry lp.lp_codec with
      | None -> if st_ = "ok" || cm <> "commit=0" then add_fail fails "commit_without_setup"
      | Some c ->
        if not (hasher_ok lp.lp_mhtype) then begin
          if st_ = "ok" || cm <> "commit=0" then add_fail fails "commit_without_setup"
        end else
        (match c.c_enc v with
         | None ->
           if st_ = "ok" then add_fail fails "store_ok_after_encode_error";
           if cm <> "commit=0" then add_fail fails "commit_after_encode_error"
         | Some chunks ->
           let full = List.concat chunks in
           let total = List.length full in
           let capi = int_of_string cap in
           if wopen = "1" then begin
             if st_ = "ok" || cm <> "commit=0" then add_fail fails "commit_after_open_error"
           end else if capi >= 0 && capi < total then begin
             (* the storage writer failed during the encoder's output *)
             if st_ = "ok" || cm <> "commit=0" then
               add_fail fails (if ch = "129" || ch = "200" then "json_commit_after_write_error"
                               else "commit_after_write_error")
           end else begin
             match build_link lp (hash lp.lp_mhtype full) with
             | None -> skip := true
             | Some l ->
               if lh <> hex_of_bytes (link_binary l) then add_fail fails "link_wrong";
               if cm <> "commit=1" then add_fail fails "not_committed";
               if commiterr = "1" then (if st_ <> "err.commit" then add_fail fails "commit_error_swallowed")
               else begin
                 if st_ <> "ok" then add_fail fails "store_failed";
                 if bytes_ <> "x" ^ hex_of_bytes full then add_fail fails "committed_bytes_wrong"
               end
           end))
   | _ -> add_fail fails "malformed_obs");
  (model_obs, if !fails <> [] then verdict_of fails else if !skip then "skip" else "ok")

(* ------------------------------------------------------------------ main *)

let () =
  iter_lines (fun line ->
      let out id m v = print_string id; print_char '\t'; print_string m; print_char '\t'; print_endline v in
      match split_tab line with
      | [id; "cfg"; _; obs] ->
        json_werr_ignored := (obs = "json_werr_ignored=1");
        out id obs "ok"
      | [id; "hist"; kind; trusted; ops; tables; obs] ->
        load_tables tables;
        let (m, v) = (try do_hist id kind (trusted = "1") ops obs with Failure e -> ("driver-error:" ^ e, "ok")) in
        out id m v
      | [id; "load"; form; trusted; link; stream; tail; tables; obs] ->
        load_tables tables;
        let (m, v) = (try do_load form (trusted = "1") link stream tail obs with Failure e -> ("driver-error:" ^ e, "ok")) in
        out id m v
      | [id; "store"; proto; _holder; value; wopen; cap; commiterr; tables; obs] ->
        load_tables tables;
        let (m, v) = (try do_store proto value wopen cap commiterr obs with Failure e -> ("driver-error:" ^ e, "ok")) in
        out id m v
      | _ -> ())
