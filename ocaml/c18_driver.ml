(* c18 driver: the model's system-call trace, post-fault state and verification for each scenario,
   and the oracle (absent-or-complete, nothing committed is lost, store usable) on what the real
   binary did.  Record: see harness/cmd/c18/main.go *)
open Model
open Dmio

let errno_name = function
  | ENOENT -> "enoent" | ENOTDIR -> "enotdir" | EISDIR -> "eisdir" | EEXIST -> "eexist"
  | ENOTEMPTY -> "enotempty" | ENAMETOOLONG -> "enametoolong" | EINVAL -> "einval" | EXDEV -> "exdev"
  | EIO -> "eio" | ENOSPC -> "enospc" | EACCES -> "eacces" | E404 -> "e404"
  | EBADLINK -> "ebadlink" | EUSED -> "eused" | EEMPTYKEY -> "eemptykey" | EOTHER -> "eother"

let errno_of = function
  | "enoent" -> ENOENT | "enotdir" -> ENOTDIR | "eisdir" -> EISDIR | "eexist" -> EEXIST
  | "enotempty" -> ENOTEMPTY | "enametoolong" -> ENAMETOOLONG | "einval" -> EINVAL
  | "eio" -> EIO | "enospc" -> ENOSPC | "eacces" -> EACCES | "exdev" -> EXDEV | _ -> EOTHER

let bytes_of_string (s : string) : n list =
  List.init (String.length s) (fun i -> byte_tab.(Char.code s.[i]))

let sandbox_dirs = ["d1"; "d2"; "d3"; "d4"; "d5"; "s"]
let base_path : n list list = List.map bytes_of_string sandbox_dirs
let base_hex = String.concat "/" (List.map (fun c -> hex_of_bytes c) base_path)

let abbreviate (ps : string) : string =
  let bl = String.length base_hex in
  if ps = base_hex then "B"
  else if String.length ps > bl && String.sub ps 0 (bl + 1) = base_hex ^ "/" then
    "B" ^ String.sub ps bl (String.length ps - bl)
  else ps

let path_text (p : n list list) : string =
  let n = List.length p in
  let staging =
    n = List.length base_path + 2
    && (match List.rev p with
        | name :: dir :: _ -> dir = temp_name && (match name with Npos (XI (XI (XO (XO (XO XH))))) :: _ -> true | _ -> false)
        | _ -> false) in
  let hx = List.mapi (fun i c -> if staging && i = n - 1 then "*" else hex_of_bytes c) p in
  abbreviate (String.concat "/" hx)

(* blocks above 2048 bytes are shown as B<len>:<md5> (harness/lib ContentTok) *)
let content_tok (c : n list) : string =
  let len = List.length c in
  if len <= 2048 then hex_of_bytes c
  else begin
    let b = Bytes.create len in
    List.iteri (fun i x -> Bytes.set b i (Char.chr (int_of_n x land 255))) c;
    "B" ^ string_of_int len ^ ":" ^ Digest.to_hex (Digest.bytes b)
  end

let listing (f : (n list list * node) list) : string =
  let ents = List.map (fun (p, nd) ->
      match nd with
      | Dir -> "d:" ^ path_text p
      | File c -> "f:" ^ path_text p ^ "=" ^ content_tok c) f in
  String.concat "," (List.sort compare ents)

let shard_of = function "r133" -> R133 | "r122" -> R122 | _ -> R12

let cfg_of (config : string) : fscfg =
  match String.split_on_char ',' config with
  | sh :: q :: _ when String.length q >= 3 ->
    { f_base = base_path; f_shard = shard_of sh; f_esc = b32enc;
      q_no_escape = (q.[1] = '1'); q_empty_ok = (q.[2] = '1');
      q_mkdir_exist_fails = (String.length q < 4 || q.[3] = '1') }
  | sh :: _ -> pinned_cfg base_path (shard_of sh)
  | [] -> pinned_cfg base_path R12

let res_tok (r : (errno, 'a) res) = match r with Ok _ -> "ok" | Err e -> errno_name e

let ev_text ((s, r) : sysc * (errno, rv) res) : string =
  match s with
  | SCreat p -> "creat:" ^ path_text p ^ ":" ^ res_tok r
  | SWrite (_, c) -> "write:" ^ string_of_int (List.length c) ^ ":" ^ res_tok r
  | SClose _ -> "close:" ^ res_tok r
  | SLstat p -> "lstat:" ^ path_text p ^ ":" ^ res_tok r
  | SStat p -> "stat:" ^ path_text p ^ ":" ^ res_tok r
  | SOpenRd p -> "open:" ^ path_text p ^ ":" ^ res_tok r
  | SRename (p, q) -> "rename:" ^ path_text p ^ ":" ^ path_text q ^ ":" ^ res_tok r
  | SMkdir p -> "mkdir:" ^ path_text p ^ ":" ^ res_tok r
  | SUnlink p -> "unlink:" ^ path_text p ^ ":" ^ res_tok r

let n_of_nat (x : nat) : n = n_of_int (int_of_nat x)

let split_once (c : char) (s : string) : string * string =
  match String.index_opt s c with
  | None -> (s, "")
  | Some i -> (String.sub s 0 i, String.sub s (i + 1) (String.length s - i - 1))

let after_key = bytes_of_string "afterwards"
let after_content = bytes_of_string "AFTER"

let () =
  iter_lines (fun line ->
      match split_tab line with
      | [id; config; "two"; _; _; _; _; obs] ->
        (* two Store values on one directory: staging names are per-write random names, so the writers of the
           model never share a staging file ([inv_own]); the implementation must show the same *)
        let cls o = fst (split_once ':' o) in
        let verdict = if obs = "two_ok" then "ok"
          else "fail:" ^ String.concat "," (List.sort_uniq compare (List.map cls (String.split_on_char ',' obs))) in
        Printf.printf "%s\ttwo_ok\t%s\n" id verdict
      | [id; config; "conc"; _; _; _; _; obs] ->
        let verdict = if obs = "readers_ok" then "ok" else "fail:" ^ fst (split_once ':' obs) in
        Printf.printf "%s\treaders_ok\t%s\n" id verdict
      | [id; config; pre; op; keyhex; chunkhex; fault; obs] ->
        let cfg = cfg_of config in
        (* ",x": the staging directory is on another file system *)
        let xdev = List.mem "x" (String.split_on_char ',' config) in
        (* putc<n>: Put under a context cancelled after PutStream's check: the same operation to the model *)
        let op = if String.length op > 4 && String.sub op 0 4 = "putc" then "put" else op in
        let key = bytes_of_hex keyhex in
        let chunks =
          if chunkhex = "" then [] else List.map bytes_of_hex (String.split_on_char ',' chunkhex) in
        let pres = List.map (fun t -> let (k, c) = split_once ':' t in (bytes_of_hex k, bytes_of_hex c))
            (List.filter (fun x -> x <> "") (String.split_on_char ' ' pre)) in
        (* the pre-state: the harness itself stored these, fault-free *)
        let st = List.fold_left (fun st (k, c) ->
            let ((st1, _), _) = fs_step cfg st (ONew c) in
            let h = nat_of_int (List.length st1.fs_hnd - 1) in
            let ((st2, _), _) = fs_step cfg st1 (OPut (k, h)) in st2) (fstate0 cfg) pres in
        let ctr = st.fs_ctr in
        let dest = if op = "abort" then None else path_for_key cfg key in
        let env = { we_base = cfg.f_base;
                    we_names = (fun i -> stage_name (N.add ctr (n_of_nat i)));
                    we_dest = dest;
                    we_kind = (if op = "put" then WPut else WVec);
                    we_empty_ok = cfg.q_empty_ok;
                    we_exist_fails = cfg.q_mkdir_exist_fails } in
        let chunks' = if op = "put" then (match chunks with c :: _ -> [c] | [] -> [[]]) else chunks in
        let flt =
          if fault = "none" then FNone
          else
            let (what, at) = split_once '@' fault in
            let j = nat_of_int (int_of_string at) in
            if what = "kill" then FKill j
            else FErr (j, errno_of (snd (split_once ':' what))) in
        let fuel = nat_of_int (List.length chunks' + 40) in
        let ((f1, pc), log) = run_fault xdev fuel O flt env st.fs_fs (WCreate (O, chunks')) [] in
        let result = match pc with
          | WDone (Ok _) -> "ok" | WDone (Err e) -> "e:" ^ errno_name e | _ -> "killed" in
        let trace = String.concat ";" (List.map ev_text log) in
        (* a new process opens the store *)
        let (f2, ir) = fs_init cfg f1 in
        let vb = Buffer.create 256 in
        Buffer.add_string vb ("init=" ^ (match ir with Ok _ -> "ok" | Err e -> "e:" ^ errno_name e));
        Buffer.add_string vb (";" ^ listing f2);
        let keys =
          let pk = List.fold_left (fun acc (k, _) -> if List.mem k acc then acc else acc @ [k]) [] pres in
          if op <> "abort" && not (List.mem key pk) then pk @ [key] else pk in
        let vst = { fs_fs = f2; fs_hnd = []; fs_ctr = N.add ctr (n_of_int 1000); fs_str = [] } in
        List.iter (fun k ->
            let ((_, ob), _) = fs_step cfg vst (OGet k) in
            Buffer.add_string vb (";" ^ hex_of_bytes k ^ "=" ^
                                  (match ob with
                                   | OBytes c -> "b:" ^ hex_of_bytes c
                                   | OErr ENOENT -> "absent"
                                   | OErr e -> "e:" ^ errno_name e
                                   | _ -> "?"))) keys;
        (* the further put of the new process (it, too, stages in .temp) *)
        let aenv = { we_base = cfg.f_base;
                     we_names = (fun i -> stage_name (N.add vst.fs_ctr (n_of_nat i)));
                     we_dest = path_for_key cfg after_key; we_kind = WPut;
                     we_empty_ok = cfg.q_empty_ok; we_exist_fails = cfg.q_mkdir_exist_fails } in
        let ((fa, apc), _) = run_fault xdev (nat_of_int 60) O FNone aenv f2 (WCreate (O, [after_content])) [] in
        let pob = match apc with WDone (Ok _) -> OOk | WDone (Err e) -> OErr e | _ -> OPanic in
        let v2 = { fs_fs = fa; fs_hnd = []; fs_ctr = N.add vst.fs_ctr (n_of_int 1); fs_str = [] } in
        let ((_, gob), _) = fs_step cfg v2 (OGet after_key) in
        Buffer.add_string vb (";put=" ^ (match pob with OOk -> "ok" | OErr e -> "e:" ^ errno_name e | _ -> "?"));
        Buffer.add_string vb (";get=" ^ (match gob with OBytes c -> "b:" ^ hex_of_bytes c | OErr e -> "e:" ^ errno_name e | _ -> "?"));
        let model_obs = result ^ "|" ^ trace ^ "|" ^ Buffer.contents vb in
        (* ---- oracle, on the implementation's observation only ---- *)
        let fails = ref [] in
        let add c = if not (List.mem c !fails) then fails := c :: !fails in
        (match String.split_on_char '|' obs with
         | [ires; _itrace; iverify] ->
           let parts = String.split_on_char ';' iverify in
           let find pfx = List.find_opt (fun p -> String.length p >= String.length pfx
                                                    && String.sub p 0 (String.length pfx) = pfx) parts in
           if find "init=" <> Some "init=ok" then add "unusable_init";
           (* with the staging directory on another file system no put can succeed (EXDEV): the store is
              then read-only by configuration, not broken by the crash; a put that claims success must read back *)
           let put_ok = find "put=" = Some "put=ok" in
           if not put_ok && not (xdev && find "put=" = Some "put=e:exdev") then add "unusable_put";
           if (put_ok || not xdev) && find "get=" <> Some ("get=b:" ^ hex_of_bytes after_content) then add "unusable_get";
           let content = hex_of_bytes (List.concat chunks') in
           let status k = match find (hex_of_bytes k ^ "=") with
             | Some p -> snd (split_once '=' p) | None -> "missing" in
           List.iter (fun (k, c) ->
               let s = status k in
               let want = "b:" ^ hex_of_bytes c in
               (* the key being written may hold either committed content when both are the same *)
               if s = want then ()
               else if k = key && op <> "abort" && s = "b:" ^ content then ()
               else if s = "absent" then add "lost_committed"
               else if String.length s >= 2 && String.sub s 0 2 = "b:" then add "partial"
               else add "unreadable") pres;
           if op <> "abort" && not (List.exists (fun (k, _) -> k = key) pres) then begin
             let s = status key in
             if s = "absent" || s = "b:" ^ content then ()
             else if String.length s >= 2 && String.sub s 0 2 = "b:" then add "partial"
             else add "unreadable";
             if ires = "ok" && s <> "b:" ^ content then add "acked_not_stored"
           end
         | _ -> add "malformed_obs");
        let verdict = if !fails = [] then "ok" else "fail:" ^ String.concat "," (List.rev !fails) in
        Printf.printf "%s\t%s\t%s\n" id model_obs verdict
      | _ -> ())
