(* c19 driver: for every harness record, the model's prediction of the implementation's observation
   and the oracle's verdict (the SPEC evaluated on what the implementation did). *)
open Model
open Dmio

(* ---- text <-> model values ----------------------------------------------------------------- *)

let str_of_bytes (b : n list) : string =
  let buf = Buffer.create 16 in
  List.iter (fun x -> Buffer.add_char buf (Char.chr (int_of_n x land 255))) b; Buffer.contents buf

let words s = List.filter (fun x -> x <> "") (String.split_on_char ' ' s)
let tl1 t = String.sub t 1 (String.length t - 1)
let split_colon s = String.split_on_char ':' s

let ikind_of = function
  | "i8" -> I8 | "i16" -> I16 | "i32" -> I32 | "i64" -> I64 | "i" -> IInt
  | "u8" -> U8 | "u16" -> U16 | "u32" -> U32 | "u64" -> U64 | "u" -> UInt
  | s -> failwith ("ikind " ^ s)
let ikind_str = function
  | I8 -> "i8" | I16 -> "i16" | I32 -> "i32" | I64 -> "i64" | IInt -> "i"
  | U8 -> "u8" | U16 -> "u16" | U32 -> "u32" | U64 -> "u64" | UInt -> "u"

let rec parse_shape (ts : string list) : shape * string list =
  match ts with
  | [] -> failwith "shape: eof"
  | t :: rest ->
    (match t with
     | "b" -> (SBool, rest)
     | "i8" | "i16" | "i32" | "i64" | "i" | "u8" | "u16" | "u32" | "u64" | "u" -> (SInt (ikind_of t), rest)
     | "f32" -> (SFloat true, rest)
     | "f64" -> (SFloat false, rest)
     | "s" -> (SString, rest)
     | "y" -> (SBytes, rest)
     | "lk" -> (SLink LIface, rest)
     | "lcl" -> (SLink LCidLink, rest)
     | "lc" -> (SLink LCid, rest)
     | "n" -> (SNode, rest)
     | "P" -> let (s, r) = parse_shape rest in (SPtr s, r)
     | "M" -> let (k, r) = parse_shape rest in let (v, r') = parse_shape r in (SGoMap (k, v), r')
     | _ when t.[0] = 'L' ->
       let (s, r) = parse_shape rest in (SSlice (bytes_of_hex (tl1 t), s), r)
     | _ when t.[0] = 'S' ->
       (match split_colon (tl1 t) with
        | [name; cnt] ->
          let rec go i acc r = if i = 0 then (List.rev acc, r) else
              (match r with
               | f :: r1 when f.[0] = '.' ->
                 let (s, r2) = parse_shape r1 in go (i - 1) ((bytes_of_hex (tl1 f), s) :: acc) r2
               | _ -> failwith "shape: field") in
          let (fs, r) = go (int_of_string cnt) [] rest in
          (SStruct (bytes_of_hex name, fs), r)
        | _ -> failwith "shape: struct head")
     | _ -> failwith ("shape: token " ^ t))

let shape_of_string s = let (v, r) = parse_shape (words s) in if r <> [] then failwith "shape: trailing"; v

let rec print_shape b (s : shape) =
  let tok x = if Buffer.length b > 0 then Buffer.add_char b ' '; Buffer.add_string b x in
  match s with
  | SBool -> tok "b" | SInt k -> tok (ikind_str k)
  | SFloat true -> tok "f32" | SFloat false -> tok "f64"
  | SString -> tok "s" | SBytes -> tok "y"
  | SLink LIface -> tok "lk" | SLink LCidLink -> tok "lcl" | SLink LCid -> tok "lc"
  | SNode -> tok "n"
  | SPtr x -> tok "P"; print_shape b x
  | SSlice (n, x) -> tok ("L" ^ hex_of_bytes n); print_shape b x
  | SStruct (n, fs) ->
    tok (Printf.sprintf "S%s:%d" (hex_of_bytes n) (List.length fs));
    List.iter (fun (fname, x) -> tok ("." ^ hex_of_bytes fname); print_shape b x) fs
  | SGoMap (k, v) -> tok "M"; print_shape b k; print_shape b v
let string_of_shape s = let b = Buffer.create 64 in print_shape b s; Buffer.contents b

let rec members : 'a. int -> 'a list -> string list -> (string -> string list -> 'a * string list) -> 'a list * string list =
  fun i acc r f ->
    if i = 0 then (List.rev acc, r) else
      (match r with
       | m :: r1 when m.[0] = '.' -> let (x, r2) = f (tl1 m) r1 in members (i - 1) (x :: acc) r2 f
       | _ -> failwith "sty: member")

let rec parse_sty (ts : string list) : sty * string list =
  match ts with
  | [] -> failwith "sty: eof"
  | t :: rest ->
    (match t with
     | "Tb" -> (TBool, rest) | "Ti" -> (TInt, rest) | "Tf" -> (TFloat, rest) | "Ts" -> (TString, rest)
     | "Ty" -> (TBytes, rest) | "Tl" -> (TLink, rest) | "Ta" -> (TAny, rest)
     | _ when String.length t >= 2 && t.[0] = 'T' ->
       let body = String.sub t 2 (String.length t - 2) in
       (match t.[1], split_colon body with
        | 'L', [name; nl] ->
          let (e, r) = parse_sty rest in (TList (bytes_of_hex name, e, nl = "1"), r)
        | 'M', [name; nl] ->
          let (k, r) = parse_sty rest in let (v, r') = parse_sty r in
          (TMap (bytes_of_hex name, k, v, nl = "1"), r')
        | 'S', [name; cnt; rp] ->
          let (fs, r) = members (int_of_string cnt) [] rest (fun m r1 ->
              match split_colon m with
              | [fname; rkey; flags] ->
                let (ft, r2) = parse_sty r1 in
                (((((bytes_of_hex fname, bytes_of_hex rkey), ft), flags.[0] = '1'), flags.[1] = '1'), r2)
              | _ -> failwith "sty: field") in
          (TStruct (bytes_of_hex name, fs, (if rp = "t" then SRTuple else SRMap)), r)
        | 'U', [name; cnt; rp] ->
          let (ms, r) = members (int_of_string cnt) [] rest (fun m r1 ->
              let (mt, r2) = parse_sty r1 in ((bytes_of_hex m, mt), r2)) in
          (TUnion (bytes_of_hex name, ms, (match rp with "d" -> URKinded | "p" -> URStringprefix | _ -> URKeyed)), r)
        | 'E', [name; cnt; rp] ->
          let (ms, r) = members (int_of_string cnt) [] rest (fun m r1 ->
              match split_colon m with
              | [mn; sr; ir] -> (((bytes_of_hex mn, bytes_of_hex sr), z_of_int (int_of_string ir)), r1)
              | _ -> failwith "sty: enum member") in
          (TEnum (bytes_of_hex name, ms, (if rp = "i" then ERInt else ERString)), r)
        | _ -> failwith ("sty: head " ^ t))
     | _ -> failwith ("sty: token " ^ t))

let sty_of_string s = let (v, r) = parse_sty (words s) in if r <> [] then failwith "sty: trailing"; v

let b01 b = if b then "1" else "0"
let rec print_sty b (t : sty) =
  let tok x = if Buffer.length b > 0 then Buffer.add_char b ' '; Buffer.add_string b x in
  match t with
  | TBool -> tok "Tb" | TInt -> tok "Ti" | TFloat -> tok "Tf" | TString -> tok "Ts"
  | TBytes -> tok "Ty" | TLink -> tok "Tl" | TAny -> tok "Ta"
  | TList (n, e, nl) -> tok ("TL" ^ hex_of_bytes n ^ ":" ^ b01 nl); print_sty b e
  | TMap (n, k, v, nl) -> tok ("TM" ^ hex_of_bytes n ^ ":" ^ b01 nl); print_sty b k; print_sty b v
  | TStruct (n, fs, r) ->
    tok (Printf.sprintf "TS%s:%d:%s" (hex_of_bytes n) (List.length fs) (match r with SRMap -> "m" | SRTuple -> "t"));
    List.iter (fun ((((fname, rkey), ft), o), nl) ->
        tok (Printf.sprintf ".%s:%s:%s%s" (hex_of_bytes fname) (hex_of_bytes rkey) (b01 o) (b01 nl));
        print_sty b ft) fs
  | TUnion (n, ms, r) ->
    tok (Printf.sprintf "TU%s:%d:%s" (hex_of_bytes n) (List.length ms) (match r with URKeyed -> "k" | URKinded -> "d" | URStringprefix -> "p"));
    List.iter (fun (d, mt) -> tok ("." ^ hex_of_bytes d); print_sty b mt) ms
  | TEnum (n, ms, r) ->
    tok (Printf.sprintf "TE%s:%d:%s" (hex_of_bytes n) (List.length ms) (match r with ERString -> "s" | ERInt -> "i"));
    List.iter (fun ((mn, sr), ir) ->
        tok (Printf.sprintf ".%s:%s:%d" (hex_of_bytes mn) (hex_of_bytes sr) (int_of_z ir))) ms
let string_of_sty t = let b = Buffer.create 64 in print_sty b t; Buffer.contents b

(* Go values *)
let rec parse_gv (ts : string list) : gv * string list =
  match ts with
  | [] -> failwith "gv: eof"
  | t :: rest ->
    let body = tl1 t in
    (match t.[0] with
     | 'z' -> (GNil, rest)
     | 'p' -> let (v, r) = parse_gv rest in (GPtr v, r)
     | 't' -> (GBool true, rest)
     | 'f' -> (GBool false, rest)
     | 'i' -> (GInt (z_of_hex body), rest)
     | 'd' -> if body = "nan" then (GFloat (n_of_hex "7ff8000000000001"), rest) else (GFloat (n_of_hex body), rest)
     | 's' -> (GString (bytes_of_hex body), rest)
     | 'b' -> (GBytes (bytes_of_hex body), rest)
     | 'l' -> (GLink (bytes_of_hex body), rest)
     | 'A' -> let (d, r) = parse_dm rest in (GNode d, r)
     | 'L' ->
       let rec go i acc r = if i = 0 then (List.rev acc, r) else
           let (v, r') = parse_gv r in go (i - 1) (v :: acc) r' in
       let (vs, r) = go (int_of_string body) [] rest in (GSlice vs, r)
     | 'S' ->
       let rec go i acc r = if i = 0 then (List.rev acc, r) else
           let (v, r') = parse_gv r in go (i - 1) (v :: acc) r' in
       let (vs, r) = go (int_of_string body) [] rest in (GStruct vs, r)
     | 'G' ->
       let rec go i acc r = if i = 0 then (List.rev acc, r) else
           let (k, r1) = parse_gv r in let (v, r2) = parse_gv r1 in go (i - 1) ((k, v) :: acc) r2 in
       let (es, r) = go (int_of_string body) [] rest in (GGoMap es, r)
     | _ -> failwith ("gv: token " ^ t))

let gv_of_string s = let (v, r) = parse_gv (words s) in if r <> [] then failwith "gv: trailing"; v

let rec string_of_gv (g : gv) : string =
  match g with
  | GNil -> "z"
  | GPtr v -> "p " ^ string_of_gv v
  | GBool true -> "t" | GBool false -> "f"
  | GInt z -> "i" ^ hex_of_z z
  | GFloat f -> if f64_is_nan f then "dnan" else "d" ^ hex_of_n f
  | GString s -> "s" ^ hex_of_bytes s
  | GBytes [] -> "z"     (* an empty []byte and the nil []byte are one value in the text form *)
  | GBytes s -> "b" ^ hex_of_bytes s
  | GLink s -> "l" ^ hex_of_bytes s
  | GNode d -> "A " ^ string_of_dm d
  | GSlice l -> String.concat " " (Printf.sprintf "L%d" (List.length l) :: List.map string_of_gv l)
  | GStruct l -> String.concat " " (Printf.sprintf "S%d" (List.length l) :: List.map string_of_gv l)
  | GGoMap m ->
    let es = List.map (fun (k, v) -> (string_of_gv k, string_of_gv v)) m in
    let es = List.sort (fun (a, _) (b, _) -> compare a b) es in
    String.concat " " (Printf.sprintf "G%d" (List.length es) :: List.concat_map (fun (k, v) -> [k; v]) es)

(* ---- float32 narrowing: Go's float64(float32(x)) on bit patterns ---------------------------- *)

let narrow32 (b : n) : n =
  let i = Int64.of_string ("0x" ^ hex_of_n b) in
  let f = Int64.float_of_bits i in
  let g = Int32.float_of_bits (Int32.bits_of_float f) in
  n_of_hex (Printf.sprintf "%Lx" (Int64.bits_of_float g))

(* ---- observations --------------------------------------------------------------------------- *)

let berr_str = function
  | PDup -> "panic:dup" | PInfer -> "panic:infer" | PCompat -> "panic:compat" | PReflect -> "panic:other"
  | XWrongKind -> "err:wrongkind" | XMissing -> "err:missing" | XInvalidKey -> "err:invalidkey"
  | XNegUint -> "err:neguint" | XOverflow -> "err:overflow" | XUnion -> "err:union"
  | XRange -> "err:range" | XOther -> "err:other"

let is_panic = function PDup | PInfer | PCompat | PReflect -> true | _ -> false

let view_str (r : dm bres) : string =
  match r with
  | Ok d -> string_of_dm d
  | Err e -> if is_panic e then "panic:other" else "viewerr"

let canon cdc d = if cdc = "json" then sort_maps bytes_ltb d else sort_maps rfc_ltb d

let level_of = function "R" -> LRepr | _ -> LType

(* quirk switches, set from the probe records *)
let q = ref pinned

let starts_with p s = String.length s >= String.length p && String.sub s 0 (String.length p) = p
let after p s = String.sub s (String.length p) (String.length s - String.length p)

(* ---- shape features behind the known findings (for narrow failure classes) ------------------- *)

let rec gv_has_big_uint (s : shape) (g : gv) : bool =
  match s, g with
  | SInt UInt, GInt z -> (match z with Zpos _ -> String.length (hex_of_z z) = 16 && (hex_of_z z).[0] >= '8' | _ -> false)
  | SPtr s1, GPtr v -> gv_has_big_uint s1 v
  | SSlice (_, s1), GSlice l -> List.exists (gv_has_big_uint s1) l
  | SStruct (_, fs), GStruct gs ->
    (try List.exists2 (fun (_, s1) v -> gv_has_big_uint s1 v) fs gs with Invalid_argument _ -> false)
  | SGoMap (_, vs), GGoMap m -> List.exists (fun (_, v) -> gv_has_big_uint vs v) m
  | _, _ -> false

let rec deref = function SPtr s -> deref s | s -> s

(* walks schema type and Go type together; collects the features of the pair that are outside the
   supported vocabulary (accepted by verifyCompatibility, mishandled later) *)
let rec features (t : sty) (s : shape) : string list =
  let s0 = (match s with SPtr x -> x | _ -> s) in
  match t, s0 with
  | TEnum (_, _, _), SInt _ -> ["bind_int_enum_type_level"]
  | TList (_, e, nl), SSlice (_, es) -> ptr_uint e es @ features e (deref es)
  | TMap (_, _, v, _), SStruct (_, [_; (_, SGoMap (_, mv))]) -> ptr_uint v mv @ features v (deref mv)
  | TStruct (_, fs, _), SStruct (_, ss) when List.length fs = List.length ss ->
    List.concat (List.map2 (fun ((((_, _), ft), o), nl) (_, fs_shape) ->
        (if o && not nl then (match fs_shape with SSlice _ -> ["bind_optional_slice_empty_absent"] | _ -> []) else [])
        @ (if o && not nl then [] else
             (match o, fs_shape with
              | true, SPtr inner -> ptr_uint ft inner
              | _, _ -> ptr_uint ft fs_shape))
        @ features ft (deref fs_shape)) fs ss)
  | TUnion (_, ms, _), SStruct (_, ss) when List.length ms = List.length ss ->
    List.concat (List.map2 (fun (_, mt) (_, ms_shape) -> features mt (deref ms_shape)) ms ss)
  | _, _ -> []
and ptr_uint (t : sty) (s : shape) : string list =
  match t, s with
  | TInt, SPtr (SInt k) when (match k with U8 | U16 | U32 | U64 | UInt -> true | _ -> false) ->
    ["bind_nullable_uint_panic"]
  | _, _ -> []

let first_or dflt = function x :: _ -> x | [] -> dflt

(* ---- the oracle: SPEC on the implementation's observation ------------------------------------ *)

let sortd d = sort_maps bytes_ltb d

(* expected result of a Wrap: both views of a well-formed value *)
let oracle_wrap t s g (obs_views : string) : string =
  if not (verify_compat t s) then "ok" else
  if not (gv_ok repaired narrow32 t s g) then "ok" else
  let want = string_of_dm (denote LType t g) ^ "|" ^ string_of_dm (denote LRepr t g) ^ "|same" in
  if obs_views = want then "ok" else
  if gv_has_big_uint s g then "fail:bind_uint_kind_overflow" else
    "fail:" ^ first_or "view_mismatch" (features t s)

(* expected result of a build: a fitting tree is accepted and reads back as itself; a tree that
   does not fit is either refused or, if accepted, must not silently read back as something else
   because of integer width (other lenient acceptances of ill-formed trees belong to C09/C12) *)
let oracle_build lv t s d (obs : string) : string =
  if not (verify_compat t s) then "ok" else
  let fit = fits repaired lv narrow32 t s d in
  if starts_with "ok:" obs then begin
    match String.split_on_char '|' (after "ok:" obs) with
    | [gvtext; view] ->
      if view = string_of_dm d then "ok" else
      (match asm repaired lv narrow32 t s (zero_of s) false d with
       | Err XRange | Err XNegUint -> "fail:bind_int_narrowing"
       | _ ->
      if (try gv_has_big_uint s (gv_of_string gvtext) with _ -> false) then "fail:bind_uint_kind_overflow" else
        (match asm repaired lv narrow32 t s (zero_of s) false d with
         | Err XRange -> "fail:bind_int_narrowing"
         | _ -> if fit then "fail:" ^ first_or "build_mismatch" (features t s) else "ok"))
    | _ -> "fail:malformed_obs"
  end else if fit then "fail:" ^ first_or "build_rejected" (features t s)
  else if starts_with "panic" obs then "fail:" ^ first_or "panic" (features t s)
  else "ok"

(* a value produced by Unmarshal must hold the same data as [want] (type-level content, map order
   aside) *)
let oracle_value t s (want : dm) (obs : string) (g_for_class : gv option) : string =
  let cls dflt =
    (match g_for_class with Some g when gv_has_big_uint s g -> "bind_uint_kind_overflow"
                          | _ -> first_or dflt (features t s)) in
  if starts_with "ok:" obs then begin
    match (try Some (gv_of_string (after "ok:" obs)) with _ -> None) with
    | None -> "fail:malformed_obs"
    | Some g' ->
      if dm_eqb (sortd (denote LType t g')) (sortd want) then "ok" else "fail:" ^ cls "rt_mismatch"
  end else "fail:" ^ cls "rt_failed"

(* ---- per-record processing ------------------------------------------------------------------- *)

let registry = ref registry0
let cur_hist = ref ""

let emit id model verdict =
  print_string id; print_char '\t'; print_string model; print_char '\t'; print_endline verdict

let model_wrap_obs (a : schema_arg) s g reg : registry * string * sty option =
  let inferred_txt, tyo =
    (match a with
     | Inferred -> (match infer_schema !q s reg with
         | (_, Ok t) -> (string_of_sty t ^ "|", Some t)
         | _ -> ("", None))
     | Explicit t -> ("", Some t)) in
  match step !q narrow32 reg (CWrap (a, s, g)) with
  | (r1, OView (ty, rp)) -> (r1, "ok:" ^ inferred_txt ^ view_str ty ^ "|" ^ view_str rp ^ "|same", tyo)
  | (r1, OFail e) -> (r1, berr_str e, tyo)
  | (r1, _) -> (r1, "?", tyo)

let model_build_obs (a : schema_arg) lv s d reg : registry * string =
  match step !q narrow32 reg (CBuild (a, lv, s, d)) with
  | (r1, OValue (Ok g)) ->
    let t = (match a with Explicit t -> Some t
                        | Inferred -> (match infer_schema repaired s registry0 with (_, Ok t) -> Some t | _ -> None)) in
    (match t with
     | Some t -> (r1, "ok:" ^ string_of_gv g ^ "|" ^ view_str (view !q lv t s g))
     | None -> (r1, "?"))
  | (r1, OValue (Err e)) -> (r1, berr_str e)
  | (r1, OFail e) -> (r1, berr_str e)
  | (r1, _) -> (r1, "?")

let spec_type (a : schema_arg) s : sty option =
  match a with
  | Explicit t -> Some t
  | Inferred -> (match infer_schema repaired s registry0 with (_, Ok t) -> Some t | _ -> None)

let () =
  iter_lines (fun line ->
    match split_tab line with
    | [id; "probe"; name; obs] ->
      (match name with
       | "narrowing" ->
         if obs = "err:range" then q := { !q with q_range_check = true };
         emit id obs (if obs = "err:range" then "ok" else "fail:bind_int_narrowing")
       | "uintkind" ->
         let fixed = not (starts_with "ok:viewerr" obs) in
         if fixed then q := { !q with q_uint_kind = true };
         emit id obs (if fixed then "ok" else "fail:bind_uint_kind_overflow")
       | "unionptr" ->
         let fixed = starts_with "ok:" obs in
         if fixed then q := { !q with q_union_ptr = true };
         emit id obs (if fixed then "ok" else "fail:bind_union_ptr_panic")
       | "ptruint" ->
         let fixed = starts_with "ok:" obs in
         if fixed then q := { !q with q_ptr_uint = true };
         emit id obs (if fixed then "ok" else "fail:bind_nullable_uint_panic")
       | "rewrap" ->
         if obs = "ok" then q := { !q with q_reuse_registered = true };
         emit id obs (if obs = "ok" then "ok" else "fail:bind_rewrap_duplicate_type_panic")
       | _ -> emit id "?" "fail:unknown_probe")
    | [id; "compat"; _; _; shape; sty; obs] ->
      let s = shape_of_string shape and t = sty_of_string sty in
      let model = if verify_compat t s then "ok" else "panic:compat" in
      let verdict = if bindable t s && obs <> "ok" then "fail:compat_rejects_valid" else "ok" in
      emit id model verdict
    | [id; "gotype"; _; level; sty; dmtext; obs] ->
      let t = sty_of_string sty and d0 = dm_of_string dmtext in
      let lv = if level = "T" then LType else LRepr in
      (* level C: the tree arrives through the dag-cbor decoder, i.e. with its maps in key order *)
      let d = if level = "C" then canon "cbor" d0 else d0 in
      let same_view v = if level = "C" then
          (try dm_eqb (sortd (dm_of_string v)) (sortd d0) with _ -> false)
        else v = dmtext in
      let model =
        (match infer_gotype t with
         | Err e -> berr_str e
         | Ok s ->
           (match asm !q lv narrow32 t s (zero_of s) false d with
            | Ok g -> "ok:" ^ string_of_shape s ^ "|" ^ string_of_gv g ^ "|" ^ view_str (view !q lv t s g)
            | Err e -> berr_str e)) in
      let verdict =
        (match infer_gotype t with
         | Err _ -> if starts_with "ok:" obs then "fail:gotype_build" else "ok"
         | Ok s ->
           let fit = fits repaired lv narrow32 t s d0 in
           if starts_with "ok:" obs then
             (match String.split_on_char '|' (after "ok:" obs) with
              | [_; _; view] ->
                if same_view view then "ok" else
                  (match asm repaired lv narrow32 t s (zero_of s) false d with
                   | Err XRange -> "fail:bind_int_narrowing"
                   | _ -> if fit then "fail:gotype_build" else "ok")
              | _ -> "fail:malformed_obs")
           else if fit then "fail:gotype_build" else "ok") in
      emit id model verdict
    | [id; "wrap"; _; shape; sty; gvtext; obs] ->
      let s = shape_of_string shape and t = sty_of_string sty and g = gv_of_string gvtext in
      let (_, model, _) = model_wrap_obs (Explicit t) s g registry0 in
      let verdict =
        if starts_with "ok:" obs then oracle_wrap t s g (after "ok:" obs)
        else if verify_compat t s && gv_ok repaired narrow32 t s g then "fail:" ^ first_or "wrap_failed" (features t s)
        else "ok" in
      emit id model verdict
    | [id; "build"; _; level; shape; sty; dmtext; obs] ->
      let s = shape_of_string shape and t = sty_of_string sty and d = dm_of_string dmtext in
      let lv = level_of level in
      let (_, model) = model_build_obs (Explicit t) lv s d registry0 in
      emit id model (oracle_build lv t s d obs)
    | [id; "rt"; _; cdc; shape; sty; gvtext; obs] ->
      let s = shape_of_string shape and t = sty_of_string sty and g = gv_of_string gvtext in
      let model =
        (match view !q LRepr t s g with
         | Err e -> if is_panic e then "enc:panic:other" else "encerr"
         | Ok d ->
           (match step !q narrow32 registry0 (CUnmarshal (Explicit t, s, canon cdc d)) with
            | (_, OValue (Ok g')) -> "ok:" ^ string_of_gv g'
            | (_, OValue (Err e)) -> berr_str e
            | (_, OFail e) -> berr_str e
            | _ -> "?")) in
      let verdict =
        if not (verify_compat t s) || not (gv_ok repaired narrow32 t s g) then "ok"
        else oracle_value t s (denote LType t g) obs (Some g) in
      emit id model verdict
    | [id; "live"; _; cdc; shape; sty; gv1; gv2; obs] ->
      let s = shape_of_string shape and t = sty_of_string sty in
      let g1 = gv_of_string gv1 and g2 = gv_of_string gv2 in
      let enc_of (r : dm bres) = (match r with
          | Ok d -> string_of_dm (canon cdc d)
          | Err e -> if is_panic e then "panic:other" else "encerr") in
      let reads (vt : dm bres) (vr : dm bres) fresh =
        String.concat "|" ([view_str vt; view_str vr] @ (if fresh then [view_str vr] else []) @ [enc_of vr]) in
      let model =
        if not (verify_compat t s) then "panic:compat" else
          "ok:" ^ reads (view !q LType t s g1) (view !q LRepr t s g1) false ^ ";"
          ^ reads (view !q LType t s g2) (view !q LRepr t s g2) true in
      let verdict =
        if not (verify_compat t s && gv_ok repaired narrow32 t s g1 && gv_ok repaired narrow32 t s g2) then "ok" else
          let want1 = reads (Ok (denote LType t g1)) (Ok (denote LRepr t g1)) false in
          let want2 = reads (Ok (denote LType t g2)) (Ok (denote LRepr t g2)) true in
          if obs = "ok:" ^ want1 ^ ";" ^ want2 then "ok" else
            (match (if starts_with "ok:" obs then String.split_on_char ';' (after "ok:" obs) else []) with
             | [o1; _] when o1 = want1 ->
               (* the first reading was right; the same node no longer shows what the value holds *)
               if gv_has_big_uint s g2 then "fail:bind_uint_kind_overflow"
               else "fail:" ^ first_or "stale_view" (features t s)
             | _ ->
               if gv_has_big_uint s g1 || gv_has_big_uint s g2 then "fail:bind_uint_kind_overflow"
               else "fail:" ^ first_or "view_mismatch" (features t s)) in
      emit id model verdict
    | [id; "hist"; steps; obss] ->
      registry := registry0;
      let steps = String.split_on_char ';' steps in
      let obss = String.split_on_char ';' obss in
      let obss = if List.length obss = List.length steps then obss else List.map (fun _ -> "crash") steps in
      let results = List.map2 (fun stp obs ->
        match String.split_on_char (Char.chr 44) stp with
        | [op; _; mode; cdc; level; shape; sty; payload] ->
      let s = shape_of_string shape in
      let a = if mode = "x" then Explicit (sty_of_string sty) else Inferred in
      let lv = level_of level in
      (* what the same call gives on the initial state, by the repaired model: the SPEC *)
      let st = spec_type a s in
      let model, verdict =
        (match op with
         | "wrap" ->
           let g = gv_of_string payload in
           let (r1, model, _) = model_wrap_obs a s g !registry in
           registry := r1;
           let verdict =
             if obs = "panic:dup" then "fail:bind_rewrap_duplicate_type_panic" else
               (match st with
                | None ->
                  (* not inferrable: the refusal must be the same deterministic one *)
                  let (_, init, _) = model_wrap_obs a s g registry0 in
                  if obs = init then "ok" else "fail:history_dependent"
                | Some t ->
                  if starts_with "ok:" obs then begin
                    let rest = after "ok:" obs in
                    let rest = (match a with
                        | Inferred ->
                          let pre = string_of_sty t ^ "|" in
                          if starts_with pre rest then after pre rest else "!sty" ^ rest
                        | Explicit _ -> rest) in
                    if starts_with "!sty" rest then "fail:inferred_schema" else oracle_wrap t s g rest
                  end else if verify_compat t s && gv_ok repaired narrow32 t s g then "fail:wrap_failed" else "ok") in
           (model, verdict)
         | "build" ->
           let d = dm_of_string payload in
           let (r1, model) = model_build_obs a lv s d !registry in
           registry := r1;
           let verdict =
             if obs = "panic:dup" then "fail:bind_rewrap_duplicate_type_panic" else
               (match st with
                | None -> let (_, init) = model_build_obs a lv s d registry0 in
                  if obs = init then "ok" else "fail:history_dependent"
                | Some t -> oracle_build lv t s d obs) in
           (model, verdict)
         | "marshal" ->
           let g = gv_of_string payload in
           let (r1, o) = step !q narrow32 !registry (CMarshal (a, s, g)) in
           registry := r1;
           let model =
             (match o with
              | ORepr (Ok d) -> "ok:" ^ string_of_dm (canon cdc d)
              | ORepr (Err e) -> if is_panic e then "panic:other" else "encerr"
              | OFail e -> berr_str e
              | _ -> "?") in
           let verdict =
             if obs = "panic:dup" then "fail:bind_rewrap_duplicate_type_panic" else
               (match st with
                | None ->
                  (match step !q narrow32 registry0 (CMarshal (a, s, g)) with
                   | (_, OFail e) -> if obs = berr_str e then "ok" else "fail:history_dependent"
                   | _ -> "fail:history_dependent")
                | Some t ->
                  if not (verify_compat t s) || not (gv_ok repaired narrow32 t s g) then "ok"
                  else if obs = "ok:" ^ string_of_dm (canon cdc (denote LRepr t g)) then "ok"
                  else if gv_has_big_uint s g then "fail:bind_uint_kind_overflow"
                  else "fail:" ^ first_or "marshal_mismatch" (features t s)) in
           (model, verdict)
         | "unmarshal" ->
           let d0 = dm_of_string payload in
           let d = canon cdc d0 in
           let (r1, o) = step !q narrow32 !registry (CUnmarshal (a, s, d)) in
           registry := r1;
           let model =
             (match o with
              | OValue (Ok g) -> "ok:" ^ string_of_gv g
              | OValue (Err e) -> berr_str e
              | OFail e -> berr_str e
              | _ -> "?") in
           let verdict =
             if obs = "panic:dup" then "fail:bind_rewrap_duplicate_type_panic" else
               (match st with
                | None ->
                  (match step !q narrow32 registry0 (CUnmarshal (a, s, d)) with
                   | (_, OFail e) -> if obs = berr_str e then "ok" else "fail:history_dependent"
                   | _ -> "fail:history_dependent")
                | Some t ->
                  if not (verify_compat t s) then "ok"
                  else if fits repaired LRepr narrow32 t s d0 then
                    (* the value must read back (representation level) as d, map order aside *)
                    (if starts_with "ok:" obs then
                       (match (try Some (gv_of_string (after "ok:" obs)) with _ -> None) with
                        | Some g' ->
                          if dm_eqb (sortd (denote LRepr t g')) (sortd d) then "ok"
                          else "fail:" ^ first_or "unmarshal_mismatch" (features t s)
                        | None -> "fail:malformed_obs")
                     else "fail:" ^ first_or "unmarshal_failed" (features t s))
                  else if starts_with "panic" obs then "fail:" ^ first_or "panic" (features t s)
                  else "ok") in
           (model, verdict)
         | _ -> ("?", "fail:unknown_op")) in
      (model, verdict)
        | _ -> ("?", "fail:malformed_step")) steps obss in
      let model = String.concat ";" (List.map fst results) in
      let classes = List.concat_map (fun (_, v) ->
          if starts_with "fail:" v then String.split_on_char ',' (after "fail:" v) else []) results in
      let classes = List.sort_uniq compare classes in
      emit id model (if classes = [] then "ok" else "fail:" ^ String.concat "," classes)
    | _ -> ())
