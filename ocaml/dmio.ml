(* dmio.ml — text <-> extracted Coq values (positive/N/Z, bytes, dm).  Shared by all drivers;
   compiled after the cluster's extracted model.ml (module Model). *)
open Model

let rec pos_of_int (i : int) : positive =
  if i <= 1 then XH
  else if i land 1 = 0 then XO (pos_of_int (i lsr 1))
  else XI (pos_of_int (i lsr 1))

let n_of_int (i : int) : n = if i <= 0 then N0 else Npos (pos_of_int i)
let z_of_int (i : int) : z = if i = 0 then Z0 else if i > 0 then Zpos (pos_of_int i) else Zneg (pos_of_int (-i))

let rec nat_of_int (i : int) : nat = if i <= 0 then O else S (nat_of_int (i - 1))
let rec int_of_nat (n : nat) : int = match n with O -> 0 | S m -> 1 + int_of_nat m

let byte_tab : n array = Array.init 256 n_of_int

(* may overflow for huge values; only use where the value is known small *)
let rec int_of_pos (p : positive) : int =
  match p with XH -> 1 | XO q -> 2 * int_of_pos q | XI q -> 2 * int_of_pos q + 1
let int_of_n (x : n) : int = match x with N0 -> 0 | Npos p -> int_of_pos p
let int_of_z (x : z) : int = match x with Z0 -> 0 | Zpos p -> int_of_pos p | Zneg p -> - (int_of_pos p)

(* hex <-> positive, any size *)
let hexdigit c =
  match c with
  | '0'..'9' -> Char.code c - 48
  | 'a'..'f' -> Char.code c - 87
  | 'A'..'F' -> Char.code c - 55
  | _ -> failwith ("bad hex digit " ^ String.make 1 c)

(* bits, most significant first *)
let bits_of_hex (s : string) : bool list =
  let l = ref [] in
  for i = String.length s - 1 downto 0 do
    let d = hexdigit s.[i] in
    l := (d land 8 <> 0) :: (d land 4 <> 0) :: (d land 2 <> 0) :: (d land 1 <> 0) :: !l
  done;
  !l

let n_of_hex (s : string) : n =
  let rec strip = function false :: r -> strip r | l -> l in
  match strip (bits_of_hex s) with
  | [] -> N0
  | _ :: rest ->
    (* leading 1, then fold remaining bits *)
    Npos (List.fold_left (fun acc b -> if b then XI acc else XO acc) XH rest)

let z_of_hex (s : string) : z =
  if String.length s > 0 && s.[0] = '-' then
    (match n_of_hex (String.sub s 1 (String.length s - 1)) with N0 -> Z0 | Npos p -> Zneg p)
  else (match n_of_hex s with N0 -> Z0 | Npos p -> Zpos p)

let hex_of_pos (p : positive) : string =
  (* collect bits LSB first *)
  let rec bits p acc = match p with
    | XH -> true :: acc
    | XO q -> bits q (false :: acc)
    | XI q -> bits q (true :: acc) in
  (* bits returns MSB-first list when accumulating this way: walk from LSB pushing on front *)
  let rec lsb p = match p with XH -> [true] | XO q -> false :: lsb q | XI q -> true :: lsb q in
  ignore bits;
  let l = Array.of_list (lsb p) in
  let nb = Array.length l in
  let nd = (nb + 3) / 4 in
  let b = Bytes.create nd in
  for d = 0 to nd - 1 do
    let v = ref 0 in
    for k = 0 to 3 do
      let i = d * 4 + k in
      if i < nb && l.(i) then v := !v lor (1 lsl k)
    done;
    Bytes.set b (nd - 1 - d) "0123456789abcdef".[!v]
  done;
  Bytes.to_string b

let hex_of_n (x : n) : string = match x with N0 -> "0" | Npos p -> hex_of_pos p
let hex_of_z (x : z) : string =
  match x with Z0 -> "0" | Zpos p -> hex_of_pos p | Zneg p -> "-" ^ hex_of_pos p

(* byte strings *)
let bytes_of_hex (s : string) : n list =
  let len = String.length s / 2 in
  let rec go i acc = if i < 0 then acc else
      go (i - 1) (byte_tab.(hexdigit s.[2*i] * 16 + hexdigit s.[2*i+1]) :: acc) in
  go (len - 1) []

let hex_tab : string array = Array.init 256 (fun i -> Printf.sprintf "%02x" i)
let add_hex_bytes (b : Buffer.t) (l : n list) : unit =
  List.iter (fun x -> Buffer.add_string b hex_tab.(int_of_n x land 255)) l
let hex_of_bytes (l : n list) : string =
  let b = Buffer.create 64 in add_hex_bytes b l; Buffer.contents b

(* dm <-> token text.  Tokens: n t f i<hex> d<hex>|dnan s<hex> b<hex> l<hex> a<cnt> m<cnt> k<hex> *)
let rec parse_dm (toks : string list) : dm * string list =
  match toks with
  | [] -> failwith "parse_dm: eof"
  | t :: rest ->
    let body = String.sub t 1 (String.length t - 1) in
    (match t.[0] with
     | 'n' -> (DNull, rest)
     | 't' -> (DBool true, rest)
     | 'f' -> (DBool false, rest)
     | 'i' -> (DInt (z_of_hex body), rest)
     | 'd' -> if body = "nan" then (DFloat (n_of_hex "7ff8000000000001"), rest)
              else (DFloat (n_of_hex body), rest)
     | 's' -> (DString (bytes_of_hex body), rest)
     | 'b' -> (DBytes (bytes_of_hex body), rest)
     | 'l' -> (DLink (bytes_of_hex body), rest)
     | 'a' ->
       let cnt = int_of_string body in
       let rec go i acc rest = if i = 0 then (List.rev acc, rest) else
           let (v, rest') = parse_dm rest in go (i - 1) (v :: acc) rest' in
       let (vs, rest') = go cnt [] rest in (DList vs, rest')
     | 'm' ->
       let cnt = int_of_string body in
       let rec go i acc rest = if i = 0 then (List.rev acc, rest) else
           (match rest with
            | kt :: rest1 when kt.[0] = 'k' ->
              let k = bytes_of_hex (String.sub kt 1 (String.length kt - 1)) in
              let (v, rest2) = parse_dm rest1 in go (i - 1) ((k, v) :: acc) rest2
            | _ -> failwith "parse_dm: expected key") in
       let (es, rest') = go cnt [] rest in (DMap es, rest')
     | _ -> failwith ("parse_dm: bad token " ^ t))

let dm_of_string (s : string) : dm =
  let toks = List.filter (fun x -> x <> "") (String.split_on_char ' ' s) in
  let (v, rest) = parse_dm toks in
  if rest <> [] then failwith "dm_of_string: trailing tokens"; v

let rec print_dm (b : Buffer.t) (v : dm) : unit =
  let sp () = if Buffer.length b > 0 then Buffer.add_char b ' ' in
  match v with
  | DNull -> sp (); Buffer.add_char b 'n'
  | DBool true -> sp (); Buffer.add_char b 't'
  | DBool false -> sp (); Buffer.add_char b 'f'
  | DInt z -> sp (); Buffer.add_char b 'i'; Buffer.add_string b (hex_of_z z)
  | DFloat f -> sp ();
    if f64_is_nan f then Buffer.add_string b "dnan"
    else (Buffer.add_char b 'd'; Buffer.add_string b (hex_of_n f))
  | DString s -> sp (); Buffer.add_char b 's'; Buffer.add_string b (hex_of_bytes s)
  | DBytes s -> sp (); Buffer.add_char b 'b'; Buffer.add_string b (hex_of_bytes s)
  | DLink s -> sp (); Buffer.add_char b 'l'; Buffer.add_string b (hex_of_bytes s)
  | DList l -> sp (); Buffer.add_string b (Printf.sprintf "a%d" (List.length l));
    List.iter (print_dm b) l
  | DMap m -> sp (); Buffer.add_string b (Printf.sprintf "m%d" (List.length m));
    List.iter (fun (k, x) -> Buffer.add_string b " k"; Buffer.add_string b (hex_of_bytes k);
                print_dm b x) m

let string_of_dm (v : dm) : string = let b = Buffer.create 256 in print_dm b v; Buffer.contents b

let split_tab (s : string) : string list = String.split_on_char '\t' s

let iter_lines (f : string -> unit) : unit =
  try while true do f (input_line stdin) done with End_of_file -> ()
