(* c20 driver: for each scenario the model predicts whether the goroutines' footprints are disjoint
   (premise of the data-race-freedom theorem C20_drf), hence "no race, every goroutine gets its
   sequential results", or names the race it predicts; the oracle is the property itself on what the
   race detector and the result comparison reported.

   record: id \t kind \t gomaxprocs \t nthreads \t spec \t observation   (see harness/cmd/c20/main.go)
   - kind basic / stream: the shared nodes are built in the heap model, each thread's calls are run
     alone in an arena of its own (coq/Heap/Script.v), the trace of API calls becomes the thread
     program, and [basic_check] evaluates the footprint disjointness on the access logs.
   - the other kinds use the abstract footprints of coq/Heap/Conc.v ([scen_check]). *)
open Model
open Dmio

let cfg = ref cfg_pinned
let cfginit_writes = ref true   (* does a traversal write defaults into the caller's Config? (probed) *)
let tsmode = ref TsUnsync       (* how the tree synchronises bindnode.defaultTypeSystem (probed) *)

let dm_of_commas (s : string) : dm = dm_of_string (String.map (fun c -> if c = ',' then ' ' else c) s)
let nat i = nat_of_int (int_of_string i)

let path_of (s : string) : seg list =
  if s = "-" then [] else
  List.map (fun t ->
      let body = String.sub t 1 (String.length t - 1) in
      if t.[0] = 's' then SegS (bytes_of_hex body) else SegI (nat body))
    (String.split_on_char '.' s)

let fuel = nat_of_int 40

(* run one thread op on the thread-local script state *)
let thread_op (st : sstate) (op : string) : sstate =
  let step st o = fst (sstep !cfg st o) in
  let node i = match List.nth_opt st.sregs i with Some (HNode r) -> Some r | _ -> None in
  let dump_reg st i =
    match node i with
    | Some r -> let (x, _) = dump !cfg fuel st.sx r in { st with sx = x }
    | None -> st in
  match String.split_on_char ':' op with
  | ["du"; i] -> dump_reg st (int_of_string i)
  | ["eq"; i; j] -> dump_reg (dump_reg st (int_of_string i)) (int_of_string j)
  | ["lk"; i; k] -> step st (SLookupS (nat i, bytes_of_hex k))
  | ["li"; i; k] -> step st (SLookupI (nat i, z_of_int (int_of_string k)))
  | ["cp"; i; _] -> step st (SCopy (nat i, PrAny))
  | ["en"; i] | ["ej"; i] -> step st (SEncode (nat i))
  | ["wk"; i] -> step st (SWalk (nat i))
  | ["tf"; i; p; j] -> step st (STransform (nat i, path_of p, nat j))
  | ["nb"; v] -> step st (SMake (dm_of_commas v))
  | ["lb"; i] -> step st (SLargeBytes (nat i))
  | ["rr"; r; k] -> step st (SReaderRead (nat r, if k = "a" then None else Some (nat k)))
  | ["sk"; r; o; w] -> step st (SReaderSeek (nat r, z_of_int (int_of_string o),
                                             (match w with "s" -> SeekStart | "c" -> SeekCurrent | _ -> SeekEnd)))
  | ["mt"; i; a; b] -> step st (SMatch (nat i, z_of_int (int_of_string a), z_of_int (int_of_string b)))
  | ["an"; i] ->
    let pr = (match node (int_of_string i) with
        | Some (RMap _) -> PrMap | Some (RList _) -> PrList | _ -> PrAny) in
    let st1 = step st (SNewBuilder pr) in
    let b = List.length st.sregs in
    let st2 = step st1 (SAssignNode (nat_of_int b, nat i)) in
    step st2 (SBuild (nat_of_int b))
  | _ -> failwith ("bad op " ^ op)

let basic_model (shared : sop list) (threads : string list list) : bool =
  let st0 = List.fold_left (fun st o -> fst (sstep !cfg st o)) sinit shared in
  let (ps0, _) = st0.sx in
  let traces = List.mapi (fun k ops ->
      let ps = { hp = ps0.hp; kn = ps0.kn; par = nat_of_int (k + 1); ptr = [] } in
      let st = List.fold_left thread_op { sx = (ps, true); sregs = st0.sregs } ops in
      let (psf, _) = st.sx in
      (nat_of_int (k + 1), List.rev psf.ptr)) threads in
  basic_check !cfg ps0.hp traces

let scen_of = function
  | "bindviews" -> Some ScReadViews | "walkcfg" -> Some ScWalk
  | "walklazy" | "walknoctx" | "walknochooser" -> Some (if !cfginit_writes then ScWalkLazyCfg else ScWalk)
  | "load" -> Some ScLoad | "proto" -> Some ScProtoBuild | "wrapschema" -> Some ScWrapSchema
  | "wrapinfer" -> Some (ScWrapInferred !tsmode)
  (* cloning / merging OUT OF a shared type system only loads it and builds fresh types; a walk with a
     compiled selector that has a stopAt condition only loads the selector *)
  | "clonets" -> Some ScProtoBuild | "stopat" -> Some ScWalk | _ -> None

(* the race classes the model allows for a scenario it predicts racy *)
let race_classes = function
  | "stream" -> ["race_streambytes_reader"]
  | "walklazy" | "walknoctx" | "walknochooser" -> ["race_traversal_config_init"]
  | "wrapinfer" ->
    (match !tsmode with
     | TsUnsync -> ["race_bindnode_default_typesystem"; "race_typesystem_lookup_during_infer"]
     | _ -> ["race_typesystem_lookup_during_infer"])
  | _ -> ["model_predicts_conflict"]

(* [bare]: what the implementation showed (race classes or norace), used only to pick, among the
   outcomes the model allows for a racy scenario, the one to print: which of two allowed classes the
   detector names, and — for the one race that is a matter of timing (a type lookup of a bound node
   during another goroutine's first inference, inference itself being serialised) — whether the
   detector saw it in this run. *)
let predict (kind : string) (n : int) (spec : string) (bare : string) : string =
  let disjoint =
    match kind with
    | "basic" ->
      (match String.split_on_char '|' spec with
       | [shared; threads] ->
         let vals = List.filter (fun s -> s <> "") (String.split_on_char ';' shared) in
         let ths = List.map (fun t -> List.filter (fun s -> s <> "") (String.split_on_char ' ' t))
             (String.split_on_char '/' threads) in
         basic_model (List.map (fun v -> SMake (dm_of_commas v)) vals) ths
       | _ -> failwith "basic spec")
    | "stream" ->
      (* what one goroutine of the harness does with the shared stream node (register 1); its own
         registers start at 2: lb -> 2, …, mt -> 7 (the matched node), which it reads as well *)
      let shared = [SNewSlice (bytes_of_hex "6162636465666768"); SNewStreamNode O] in
      let ops = ["du:1"; "lb:1"; "rr:2:3"; "sk:2:0:e"; "sk:2:2:s"; "rr:2:a"; "mt:1:1:5"; "du:7"; "du:1"] in
      basic_model shared (List.init n (fun _ -> ops))
    | k ->
      (match scen_of k with
       | Some s -> scen_check s (nat_of_int n)
       | None -> failwith ("kind " ^ k)) in
  if disjoint then "norace;same"
  else begin
    let allowed = race_classes kind in
    let shown = if String.length bare >= 5 && String.sub bare 0 5 = "race:"
      then String.split_on_char ',' (String.sub bare 5 (String.length bare - 5)) else [] in
    if shown <> [] && List.for_all (fun c -> List.mem c allowed) shown then bare
    else if kind = "wrapinfer" && !tsmode = TsInferMutex && bare = "norace;same" then bare
    else "race:" ^ List.hd allowed
  end

let oracle (obs : string) : string =
  (* "race:<classes>@<frames>": the frames are for the record only *)
  let obs = (match String.index_opt obs '@' with Some i -> String.sub obs 0 i | None -> obs) in
  if String.length obs >= 5 && String.sub obs 0 5 = "race:" then
    "fail:" ^ String.concat "," (List.map (fun c ->
        (* an unknown race keeps its frame so that it shows in the report, but its class is one name *)
        if String.length c >= 10 && String.sub c 0 10 = "race_other" then "race_other" else c)
        (String.split_on_char ',' (String.sub obs 5 (String.length obs - 5))))
  else if obs = "norace;same" then "ok"
  else if obs = "norace;differ" then "fail:results_differ"
  else if obs = "norace;changed" then "fail:shared_object_changed"
  else "fail:child_failed"

let () =
  iter_lines (fun line ->
      match split_tab line with
      | [id; "probe"; obs] ->
        let kv = List.filter_map (fun s -> match String.index_opt s '=' with
            | Some i -> Some (String.sub s 0 i, String.sub s (i + 1) (String.length s - i - 1)) | None -> None)
            (String.split_on_char ';' obs) in
        let get k = try List.assoc k kv with Not_found -> "?" in
        (match get "stream", get "cfginit", get "rewrap", get "tssync" with
         | ("empty" | "full" as st), ("writes" | "pure" as ci), ("ok" | "panic" as rw), ("lock" | "none" as tl) ->
           cfg := (if st = "empty" then cfg_pinned else cfg_repaired);
           cfginit_writes := (ci = "writes");
           tsmode := (if tl = "lock" then TsFullSync else if rw = "ok" then TsInferMutex else TsUnsync);
           Printf.printf "%s\t%s\tok\n" id obs
         | _ -> Printf.printf "%s\t?\tok\n" id)
      | [id; kind; _procs; n; spec; obs] ->
        (try
           let bare = (match String.index_opt obs '@' with Some i -> String.sub obs 0 i | None -> obs) in
           let m = predict kind (int_of_string n) spec bare in
           let v = oracle obs in
           let v = if v <> "ok" && m <> bare then v ^ ",model_disagrees" else v in
           Printf.printf "%s\t%s\t%s\n" id m v
         with e -> Printf.printf "%s\tmodel-exception:%s\t%s\n" id (Printexc.to_string e) (oracle obs))
      | _ -> ())
