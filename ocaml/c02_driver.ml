(* c02 driver: model observation + oracle verdict for each "enc" case *)
open Model
open Dmio

let sortmode_of = function "none" -> SortNone | "lex" -> SortLexical | _ -> SortRFC7049

let derr_name = function
  | DBudget -> "budget" | DDepth -> "depth" | DTrailing -> "trailing" | DOther -> "other" | DFuel -> "fuel"

let () =
  iter_lines (fun line ->
    match split_tab line with
    | id :: "enc" :: sm :: links :: _holder :: vtext :: obs :: _ ->
      let v = dm_of_string vtext in
      let links = (links = "1") in
      let eo = { e_allow_links = links; e_sort = sortmode_of sm } in
      let dop = { d_allow_links = links; d_relaxed = false; d_dont_parse_beyond = false;
                  d_budget = Z0; d_max_depth = Z0; d_reject_tags = true } in
      let b = Buffer.create 256 in
      let model_bytes = enc eo v in
      (match model_bytes with
       | Ok bs -> Buffer.add_string b ("ok:" ^ hex_of_bytes bs)
       | Err EELink -> Buffer.add_string b "err:link"
       | Err EEOther -> Buffer.add_string b "err:other");
      Buffer.add_char b '|';
      (match enc_len true v with
       | Ok z -> Buffer.add_string b (Printf.sprintf "len:%d" (int_of_z z))
       | Err _ -> Buffer.add_string b "lenerr");
      Buffer.add_char b '|';
      let expect_dec =
        match model_bytes with
        | Ok bs ->
          (match decode dop bs with
           | Ok (d, _) -> "dec:" ^ string_of_dm d
           | Err e -> "decerr:" ^ derr_name e)
        | Err _ -> "-" in
      Buffer.add_string b expect_dec;
      Buffer.add_string b "|src:same";
      let model_obs = Buffer.contents b in
      (* oracle on the implementation's behaviour, independent of agreement with the model:
         bytes must be the canonical form, the predicted length must be the produced length,
         decoding must give the value with maps in canonical order *)
      let verdict =
        if obs = "builderr" then "skip" else
        match String.split_on_char '|' obs with
        | [eb; el; ed; es] ->
          let canon = enc { e_allow_links = links; e_sort = SortRFC7049 } v in
          let fails = ref [] in
          if es <> "src:same" then fails := "source_mutated" :: !fails;
          (match canon with
           | Ok cbs ->
             if sm = "rfc" && eb <> "ok:" ^ hex_of_bytes cbs then fails := "noncanonical" :: !fails;
             if String.length eb >= 3 && String.sub eb 0 3 = "ok:" then begin
               let nbytes = (String.length eb - 3) / 2 in
               if el <> Printf.sprintf "len:%d" nbytes then fails := "enclen" :: !fails;
               if sm = "rfc" then begin
                 let want = "dec:" ^ string_of_dm (sort_maps rfc_ltb v) in
                 if ed <> want then fails := "roundtrip" :: !fails
               end
             end else if sm <> "rfc" then fails := "encode_failed" :: !fails
           | Err _ ->
             if eb <> "err:link" then fails := "link_not_refused" :: !fails);
          if !fails = [] then "ok" else "fail:" ^ String.concat "," (List.rev !fails)
        | _ -> "fail:malformed_obs" in
      print_string id; print_char '\t'; print_string model_obs; print_char '\t'; print_endline verdict
    | _ -> ())
