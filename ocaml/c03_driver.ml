(* c03 driver: model observation + SPEC oracle for each "dec" case *)
open Model
open Dmio

let derr_name = function
  | DBudget -> "budget" | DDepth -> "depth" | DTrailing -> "trailing" | DOther -> "other" | DFuel -> "fuel"

(* opts = s<0|1>l<0|1>e<0|1>b<int>d<int> *)
let parse_opts (s : string) =
  let strict = s.[1] = '1' and links = s.[3] = '1' and beyond = s.[5] = '1' in
  let rest = String.sub s 7 (String.length s - 7) in
  let i = String.index rest 'd' in
  let j = String.index rest 't' in
  let budget = int_of_string (String.sub rest 0 i) in
  let depth = int_of_string (String.sub rest (i + 1) (j - i - 1)) in
  (* t1 = permissive assembler target; only used in strict mode, where the decoder itself refuses
     repeated keys, so the model is the same *)
  (strict, links, beyond, budget, depth)

let rec firstn n l = if n = 0 then [] else match l with [] -> [] | x :: r -> x :: firstn (n - 1) r

let starts_with s p = String.length s >= String.length p && String.sub s 0 (String.length p) = p

let () =
  iter_lines (fun line ->
    match split_tab line with
    | id :: "dec" :: os :: hex :: obs :: _ ->
      let (strict, links, beyond, budget, depth) = parse_opts os in
      let bs = bytes_of_hex hex in
      let o = { d_allow_links = links; d_relaxed = not strict; d_dont_parse_beyond = beyond;
                d_budget = z_of_int budget; d_max_depth = z_of_int depth; d_reject_tags = true } in
      let model_obs =
        match decode o bs with
        | Ok (v, rest) -> Printf.sprintf "ok:%s|rest:%d" (string_of_dm v) (List.length rest)
        | Err e -> "err:" ^ derr_name e in
      let verdict =
        if starts_with obs "ok:" then begin
          match String.rindex_opt obs '|' with
          | None -> "fail:malformed_obs"
          | Some i ->
            let vtext = String.sub obs 3 (i - 3) in
            let restn = int_of_string (String.sub obs (i + 6) (String.length obs - i - 6)) in
            (try
              let v = dm_of_string vtext in
              let total = List.length bs in
              let item = firstn (total - restn) bs in
              let fails = ref [] in
              if restn <> 0 && not beyond then fails := "trailing_accepted" :: !fails;
              (match chk strict links false v item with
               | Some [] -> ()
               | _ ->
                 (match chk strict links true v item with
                  | Some [] -> fails := "negint_2_64_wrap" :: !fails
                  | _ -> fails := "accepted_not_denoted" :: !fails));
              let maxd = if depth > 0 then depth else 1024 in
              if int_of_nat (dm_depth v) > maxd then fails := "depth_exceeded" :: !fails;
              if !fails = [] then "ok" else "fail:" ^ String.concat "," (List.rev !fails)
            with Failure _ -> "fail:unreadable_node")
        end
        else if obs = "err:panic" || obs = "err:panic-on-read" then "fail:panic"
        else "ok" in
      print_string id; print_char '\t'; print_string model_obs; print_char '\t'; print_endline verdict
    | _ -> ())
