(* c17 driver: model observation + oracle verdict for storage histories.
   Record: id, store (mem|cidmem|fs), config, ops, impl_observation   (see harness/cmd/c17/main.go) *)
open Model
open Dmio

let errno_name = function
  | ENOENT -> "enoent" | ENOTDIR -> "enotdir" | EISDIR -> "eisdir" | EEXIST -> "eexist"
  | ENOTEMPTY -> "enotempty" | ENAMETOOLONG -> "enametoolong" | EINVAL -> "einval" | EXDEV -> "exdev"
  | EIO -> "eio" | ENOSPC -> "enospc" | EACCES -> "eacces" | E404 -> "e404"
  | EBADLINK -> "ebadlink" | EUSED -> "eused" | EEMPTYKEY -> "eemptykey" | EOTHER -> "eother"

(* blocks above 2048 bytes are shown as B<len>:<md5> (harness/lib ContentTok) *)
let content_tok (c : n list) : string =
  let len = List.length c in
  if len <= 2048 then hex_of_bytes c
  else begin
    let b = Bytes.create len in
    List.iteri (fun i x -> Bytes.set b i (Char.chr (int_of_n x land 255))) c;
    "B" ^ string_of_int len ^ ":" ^ Digest.to_hex (Digest.bytes b)
  end

(* the deterministic blobs of the N: token (harness/lib GenBlob / BlobSpec) *)
let gen_blob (n : int) (seed : int) : n list =
  List.init n (fun i -> byte_tab.((seed * 31 + i * 7 + (i lsr 8) * 13) land 255))
let blob_spec (spec : string) : n list =
  List.concat (List.map (fun part ->
      match String.split_on_char '.' part with
      | [l; sd] -> gen_blob (int_of_string l) (int_of_string sd)
      | _ -> []) (String.split_on_char '+' spec))

(* upper-case hex: the custom escaping function of store specs "<shard>:hex" *)
let hex_up (k : n list) : n list =
  List.concat (List.map (fun x ->
      let v = int_of_n x land 255 in
      let d i = byte_tab.(Char.code "0123456789ABCDEF".[i]) in
      [d (v lsr 4); d (v land 15)]) k)

let obs_tok = function
  | OUnit -> "-" | OOk -> "ok" | OErr e -> "e:" ^ errno_name e | OBytes c -> "b:" ^ content_tok c
  | OStreamErr e -> "se:" ^ errno_name e | OBool true -> "t" | OBool false -> "f"
  | OUnsupported -> "unsup" | OBadHandle -> "badh" | OPanic -> "panic"

let handles s =
  if s = "" then [] else List.map (fun t -> nat_of_int (int_of_string t)) (String.split_on_char ',' s)

let parse_op (t : string) : op option =
  match String.split_on_char ':' t with
  | ["n"; c] -> Some (ONew (bytes_of_hex c))
  | ["N"; spec] -> Some (ONew (blob_spec spec))
  | ["m"; h; c] -> Some (OMut (nat_of_int (int_of_string h), bytes_of_hex c))
  | ["p"; k; h] -> Some (OPut (bytes_of_hex k, nat_of_int (int_of_string h)))
  | ["s"; k; hs] -> Some (OPutStream (bytes_of_hex k, handles hs))
  | ["v"; k; hs] -> Some (OPutVec (bytes_of_hex k, handles hs))
  | ["g"; k] -> Some (OGet (bytes_of_hex k))
  | ["r"; k] -> Some (OGetStream (bytes_of_hex k))
  | ["k"; k] -> Some (OPeek (bytes_of_hex k))
  | ["h"; k] -> Some (OHas (bytes_of_hex k))
  | ["o"; _] -> Some OOpen
  | ["w"; sid; h] -> Some (OWrite (nat_of_int (int_of_string sid), nat_of_int (int_of_string h)))
  | ["c"; sid; k] -> Some (OCommit (nat_of_int (int_of_string sid), bytes_of_hex k))
  | _ -> None

let bytes_of_string (s : string) : n list =
  List.init (String.length s) (fun i -> byte_tab.(Char.code s.[i]))

let sandbox_dirs = ["d1"; "d2"; "d3"; "d4"; "d5"; "s"]
let base_path : n list list = List.map bytes_of_string sandbox_dirs
let base_hex = String.concat "/" (List.map (fun c -> hex_of_bytes c) base_path)

let abbreviate (ps : string) : string =
  let bl = String.length base_hex in
  if ps = base_hex then "B"
  else if String.length ps > bl && String.sub ps 0 (bl + 1) = base_hex ^ "/" then
    "B" ^ String.sub ps bl (String.length ps - bl)
  else ps

let path_text (p : n list list) : string =
  let n = List.length p in
  let staging =
    n = List.length base_path + 2
    && (match List.rev p with
        | name :: dir :: _ -> dir = temp_name && (match name with Npos (XI (XI (XO (XO (XO XH))))) :: _ -> true | _ -> false)
        | _ -> false) in
  let hx = List.mapi (fun i c -> if staging && i = n - 1 then "*" else hex_of_bytes c) p in
  abbreviate (String.concat "/" hx)

let listing (f : (n list list * node) list) : string =
  let ents = List.map (fun (p, nd) ->
      match nd with
      | Dir -> "d:" ^ path_text p
      | File c -> "f:" ^ path_text p ^ "=" ^ content_tok c) f in
  String.concat "," (List.sort compare ents)

let shard_of (spec : string) = match List.hd (String.split_on_char ':' spec) with "r133" -> R133 | "r122" -> R122 | _ -> R12
let esc_of (spec : string) : n list -> n list =
  match String.split_on_char ':' spec with [_; "hex"] -> hex_up | _ -> b32enc

let cfg_of (config : string) : fscfg =
  match String.split_on_char ',' config with
  | sh :: q :: _ when String.length q >= 3 ->
    { f_base = base_path; f_shard = shard_of sh; f_esc = esc_of sh;
      q_no_escape = (q.[1] = '1'); q_empty_ok = (q.[2] = '1');
      q_mkdir_exist_fails = (String.length q < 4 || q.[3] = '1') }
  | sh :: _ -> pinned_cfg base_path (shard_of sh)
  | [] -> pinned_cfg base_path R12

(* split "tok#listing" *)
let split_tok (t : string) : string * string option =
  match String.index_opt t '#' with
  | None -> (t, None)
  | Some i -> (String.sub t 0 i, Some (String.sub t (i + 1) (String.length t - i - 1)))

let is_prefix_dir_of_base (ent : string) : bool =
  (* "d:6431", "d:6431/6432", ... the sandbox's own directories above the base *)
  String.length ent > 2 && String.sub ent 0 2 = "d:" &&
  (let ps = String.sub ent 2 (String.length ent - 2) in
   let bl = String.length ps in
   bl < String.length base_hex && String.sub base_hex 0 bl = ps && base_hex.[bl] = '/')

let escapes (l : string) : bool =
  l <> "" &&
  List.exists (fun ent ->
      let inside = String.length ent > 2 && ent.[2] = 'B' in
      not inside && not (is_prefix_dir_of_base ent)) (String.split_on_char ',' l)

let key_of_op = function
  | OPut (k, _) | OPutStream (k, _) | OPutVec (k, _) | OGet k | OGetStream k | OPeek k | OHas k -> Some k
  | _ -> None

let add_class fails c = if not (List.mem c !fails) then fails := c :: !fails

(* the SPEC evaluated on the implementation's observations *)
let oracle (store : string) (cfg : fscfg) (ops : op list) (impl : string list) : string =
  let proj = if store = "cidmem" then cid_hash else (fun k -> Some k) in
  let full = store <> "cidmem" in
  let s = ref spec_empty in
  let fails = ref [] in
  let put_keys = ref [] in
  let cur_listing = ref "" in
  let impl = ref impl in
  (match !impl with
   | t :: r when store = "fs" ->
     (match split_tok t with ("init", Some l) -> cur_listing := l; impl := r | _ -> ())
   | _ -> ());
  let live = ref true in
  (try
     List.iter (fun o ->
         match !impl with
         | [] -> raise Exit
         | t :: rest ->
           impl := rest;
           let (tok, l) = split_tok t in
           (match l with
            | Some l -> cur_listing := l; if store = "fs" && escapes l then add_class fails "fs_path_escape"
            | None -> ());
           if !live && not (op_ok proj !s o) then live := false;
           if !live then begin
             let (s', exp) = spec_step proj full !s o in
             match o with
             | OOpen | OWrite _ ->
               if tok = obs_tok exp then s := s' else add_class fails "stream_op_failed"
             | OCommit (sid, k) ->
               if tok = "ok" then (s := s'; put_keys := k :: !put_keys)
               else begin
                 (* the stream is spent whatever happened *)
                 (match List.nth_opt !s.s_str (int_of_nat sid) with
                  | Some (c, _) -> s := { (!s) with s_str = upd (!s).s_str sid (c, true) }
                  | None -> ());
                 if store <> "fs" then add_class fails "mem_put_refused"
                 else if tok = "panic" || tok = "badh" then add_class fails "fs_put_panic"
                 else if k = [] then ()   (* commit("") is the abort *)
                 else ()
               end
             | ONew _ | OMut _ -> s := s'
             | OPut (k, _) | OPutStream (k, _) | OPutVec (k, _) ->
               if tok = "ok" then (s := s'; put_keys := k :: !put_keys)
               else if tok = "unsup" && exp = OUnsupported then ()
               else if store <> "fs" then add_class fails "mem_put_refused"
               else if tok = "panic" || tok = "badh" then add_class fails "fs_put_panic"
               else ()   (* an fs put may be refused with an error: the key is then simply not stored *)
             | OGet k | OGetStream k | OPeek k | OHas k ->
               let good =
                 match exp with
                 | OBytes _ | OBool true | OUnsupported -> tok = obs_tok exp
                 | OErr E404 | OBool false ->
                   tok = "f" || (String.length tok > 2 && (String.sub tok 0 2 = "e:" || String.sub tok 0 3 = "se:"))
                 | _ -> tok = obs_tok exp in
               if good then s := s'
               else begin
                 let cls =
                   if store <> "fs" then "mem_read_mismatch"
                   else if k = [] then
                     (match exp with OBytes _ | OBool true -> "fs_empty_key_put" | _ -> "fs_empty_key_has")
                   else
                     match path_for_key cfg k with
                     | None -> "fs_read_mismatch"
                     | Some p ->
                       if List.exists (fun k' -> k' <> k && path_for_key cfg k' = Some p) !put_keys
                       then "fs_key_alias"
                       else begin
                         let ents = String.split_on_char ',' !cur_listing in
                         let pl = List.length p and bl = List.length base_path in
                         let rec is_pref a b = match a, b with
                           | [], _ -> true | x :: a', y :: b' -> x = y && is_pref a' b' | _ -> false in
                         if List.mem ("d:" ^ path_text p) ents || (pl <= bl && is_pref p base_path)
                         then "fs_key_is_dir" else "fs_read_mismatch"
                       end in
                 add_class fails cls;
                 (* follow the implementation's handle numbering *)
                 (match o with
                  | OGet _ | OPeek _ when String.length tok >= 2 && String.sub tok 0 2 = "b:" ->
                    let rest = String.sub tok 2 (String.length tok - 2) in
                    let c = if String.length rest > 0 && rest.[0] = 'B'
                      then (match exp with OBytes e -> e | _ -> [])     (* digest only: the content itself is not in the record *)
                      else bytes_of_hex rest in
                    s := { (!s) with s_hnd = (!s).s_hnd @ [(c, (match o with OPeek _ -> true | _ -> false))] }
                  | _ -> ())
               end
           end) ops
   with Exit -> ());
  if !fails = [] then "ok" else "fail:" ^ String.concat "," (List.rev !fails)

(* ---- the LARGE-BLOCK cases (stores Lmem / Lcidmem / Lfs): the map specification on native strings.
   For these histories (one-operation puts, plain keys, one content per key) C17_refines and
   C17_refines_fs prove that the extracted models answer exactly as the specification, whatever the
   block size; evaluating the specification directly avoids building multi-MiB Coq lists. ---- *)
let gen_blob_s (n : int) (seed : int) : string =
  Bytes.to_string (Bytes.init n (fun i -> Char.unsafe_chr ((seed * 31 + i * 7 + (i lsr 8) * 13) land 255)))
let blob_spec_s (spec : string) : string =
  String.concat "" (List.map (fun part ->
      match String.split_on_char '.' part with
      | [l; sd] -> gen_blob_s (int_of_string l) (int_of_string sd)
      | _ -> "") (String.split_on_char '+' spec))
let hex_of_string (s : string) : string =
  let b = Buffer.create (2 * String.length s) in
  String.iter (fun c -> Buffer.add_string b hex_tab.(Char.code c)) s; Buffer.contents b
let content_tok_s (c : string) : string =
  if String.length c <= 2048 then hex_of_string c
  else "B" ^ string_of_int (String.length c) ^ ":" ^ Digest.to_hex (Digest.string c)

let large_spec (store : string) (optoks : string list) : string =
  let full = store <> "Lcidmem" in
  let notfound = if store = "Lfs" then "e:enoent" else "e:e404" in
  let hnd = ref [||] in
  let push c = hnd := Array.append !hnd [| c |] in
  let map : (string, string) Hashtbl.t = Hashtbl.create 16 in
  let tokc : (string, string) Hashtbl.t = Hashtbl.create 16 in   (* content -> token, computed once *)
  let tok_of c = match Hashtbl.find_opt tokc c with
    | Some t -> t | None -> let t = content_tok_s c in Hashtbl.replace tokc c t; t in
  let handle h = let i = int_of_string h in if i >= 0 && i < Array.length !hnd then Some !hnd.(i) else None in
  let gather hs =
    let l = if hs = "" then [] else List.map handle (String.split_on_char ',' hs) in
    if List.mem None l then None else Some (String.concat "" (List.map (function Some c -> c | None -> "") l)) in
  let put k c = if not (Hashtbl.mem map k) then Hashtbl.replace map k c in
  let out = List.map (fun t ->
      match String.split_on_char ':' t with
      | ["N"; spec] -> push (blob_spec_s spec); "-"
      | ["n"; hx] -> push (let l = bytes_of_hex hx in String.concat "" (List.map (fun x -> String.make 1 (Char.chr (int_of_n x))) l)); "-"
      | ["R"; _] -> "-"
      | ["p"; k; h] -> (match handle h with Some c -> put k c; "ok" | None -> "badh")
      | ["s"; k; hs] -> (match gather hs with Some c -> put k c; "ok" | None -> "badh")
      | ["v"; k; hs] -> if not full then "unsup" else (match gather hs with Some c -> put k c; "ok" | None -> "badh")
      | ["g"; k] -> (match Hashtbl.find_opt map k with Some c -> push c; "b:" ^ tok_of c | None -> notfound)
      | ["r"; k] -> if not full then "unsup" else (match Hashtbl.find_opt map k with Some c -> "b:" ^ tok_of c | None -> notfound)
      | ["k"; k] -> if not full then "unsup" else (match Hashtbl.find_opt map k with Some c -> push c; "b:" ^ tok_of c | None -> notfound)
      | ["h"; k] -> if not full then "unsup" else (if Hashtbl.mem map k then "t" else "f")
      | _ -> "badop") optoks in
  String.concat " " out

let () =
  iter_lines (fun line ->
      match split_tab line with
      | id :: store :: _config :: opstext :: rest when String.length store > 0 && store.[0] = 'L' ->
        let obs = match rest with o :: _ -> o | [] -> "" in
        let expected = large_spec store (List.filter (fun x -> x <> "") (String.split_on_char ' ' opstext)) in
        let verdict = if obs = expected then "ok" else "fail:large_block" in
        print_string id; print_char '\t'; print_string expected; print_char '\t'; print_endline verdict
      | id :: store :: config :: opstext :: rest ->
        let obs = match rest with o :: _ -> o | [] -> "" in
        let ops = List.filter_map parse_op (List.filter (fun x -> x <> "") (String.split_on_char ' ' opstext)) in
        let cfg = cfg_of config in
        let model_obs =
          match store with
          | "fs" ->
            let st0 = fstate0 cfg in
            let last = ref (listing st0.fs_fs) in
            let toks = List.map (fun ((ob, f), _log) ->
                let l = listing f in
                if l <> !last then (last := l; obs_tok ob ^ "#" ^ l) else obs_tok ob)
                (fs_run cfg st0 ops) in
            String.concat " " (("init#" ^ listing st0.fs_fs) :: toks)
          | "cidmem" -> String.concat " " (List.map obs_tok (mem_run memory_cfg mem_empty ops))
          | _ -> String.concat " " (List.map obs_tok (mem_run memstore_cfg mem_empty ops)) in
        let impl_toks = List.filter (fun x -> x <> "") (String.split_on_char ' ' obs) in
        let verdict = oracle store cfg ops impl_toks in
        print_string id; print_char '\t'; print_string model_obs; print_char '\t'; print_endline verdict
      | _ -> ())
