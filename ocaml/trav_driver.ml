(* trav_common.ml — shared by the c15 / c14 / c07 drivers: parsing of the traversal case fields,
   running the extracted model, the canonical trace text (same as harness/lib/trav.go TraceText). *)
open Model
open Dmio

let fuel = nat_of_int 400

let parse_blocks (s : string) : (n list * dm) list =
  if s = "-" || s = "" then [] else
  List.map (fun p ->
      let i = String.index p '=' in
      (bytes_of_hex (String.sub p 0 i), dm_of_string (String.sub p (i + 1) (String.length p - i - 1))))
    (String.split_on_char ';' s)

let string_of_bytes (l : n list) : string =
  let b = Buffer.create 16 in List.iter (fun x -> Buffer.add_char b (Char.chr (int_of_n x land 255))) l; Buffer.contents b
let bytes_of_string (s : string) : n list =
  List.init (String.length s) (fun i -> byte_tab.(Char.code s.[i]))

let segs_text (p : seg list) : string =
  String.concat "" (List.map (fun sg -> "." ^ hex_of_bytes (seg_string sg)) p)

let parse_segs (s : string) : seg list =
  if s = "" then [] else
  List.map (fun h -> SegS (bytes_of_hex h)) (String.split_on_char '.' (String.sub s 1 (String.length s - 1)))

let fnv32 (s : string) : int =
  let h = ref 0x811c9dc5 in
  String.iter (fun c -> h := ((!h lxor Char.code c) * 0x01000193) land 0xffffffff) s; !h
let digest (s : string) : string = Printf.sprintf "%08x" (fnv32 s)

let short (ls : n list list) : string =
  match ls with
  | [] -> "-"
  | c :: _ -> let h = hex_of_bytes c in String.sub h (String.length h - 6) 6

let class_of (o : outcome) : string =
  match o with
  | OOk -> "ok"
  | OErr WNodeBudget -> "budget_node"
  | OErr WLinkBudget -> "budget_link"
  | OErr WLoad -> "load"
  | OErr WExplore -> "other"
  | OPanic -> "panic"
  | OFuel -> "fuel"

let event_text (dg : bool) (e : event) : string =
  match e with
  | ELoad (p, c, _) -> "l:" ^ segs_text p ^ ":" ^ hex_of_bytes c
  | EVisit (p, nd, r, ls) ->
    let nt = string_of_dm nd in
    "v:" ^ segs_text p ^ ":" ^ (match r with RMatch -> "m" | RCand -> "x") ^ ":" ^ short ls ^ ":" ^
    (if dg then digest nt else nt)

let trace_text (dg : bool) ((evs, o) : event list * outcome) : string =
  String.concat "," (List.map (event_text dg) evs) ^ "|" ^ class_of o

(* ---- controls *)
type ctl_in = { nb : int; lb : int; start : seg list option; once : bool; skip : n list list; nsettings : int }

let parse_ctl (s : string) : ctl_in =
  let c = ref { nb = -1; lb = -1; start = None; once = false; skip = []; nsettings = 0 } in
  if s <> "u" then
    List.iter (fun p ->
        let pre k = String.length p >= String.length k && String.sub p 0 (String.length k) = k in
        let rest k = String.sub p (String.length k) (String.length p - String.length k) in
        c := { !c with nsettings = !c.nsettings + 1 };
        if pre "nb=" then c := { !c with nb = int_of_string (rest "nb=") }
        else if pre "lb=" then c := { !c with lb = int_of_string (rest "lb=") }
        else if pre "st=" then c := { !c with start = Some (parse_segs (rest "st=")) }
        else if p = "once" then c := { !c with once = true }
        else if pre "skip=" then c := { !c with skip = List.map bytes_of_hex (String.split_on_char '+' (rest "skip=")) }
        else failwith ("bad control " ^ p))
      (String.split_on_char '&' s);
  !c

let maxint64 : z = z_of_hex "7fffffffffffffff"

let model_ctl (c : ctl_in) : ctl * (z * z) option =
  ({ c_start = (match c.start with Some p -> p | None -> []); c_once = c.once; c_skip = c.skip },
   if c.nb < 0 && c.lb < 0 then None
   else Some ((if c.nb < 0 then maxint64 else z_of_int c.nb), (if c.lb < 0 then maxint64 else z_of_int c.lb)))

(* ---- parsing an implementation trace back into tokens *)
type tok = { load : bool; path : string; text : string; cid : string }

let parse_trace (s : string) : tok list * string =
  let i = String.rindex s '|' in
  let body = String.sub s 0 i and cls = String.sub s (i + 1) (String.length s - i - 1) in
  let evs = if body = "" then [] else
      List.map (fun t ->
          match String.split_on_char ':' t with
          | "l" :: p :: c :: _ -> { load = true; path = p; text = t; cid = c }
          | "v" :: p :: _ -> { load = false; path = p; text = t; cid = "" }
          | _ -> failwith ("bad event " ^ t))
        (String.split_on_char ',' body) in
  (evs, cls)

let is_prefix_path (q : string) (p : string) : bool =
  (* q is a prefix of p at a segment boundary *)
  let lq = String.length q and lp = String.length p in
  lq <= lp && String.sub p 0 lq = q && (lq = lp || p.[lq] = '.')
let is_strict_prefix_path q p = is_prefix_path q p && String.length q < String.length p

let rec firstn k l = if k <= 0 then [] else match l with [] -> [] | x :: r -> x :: firstn (k - 1) r
let rec is_prefix_list a b = match a, b with
  | [], _ -> true | x :: a', y :: b' -> x = y && is_prefix_list a' b' | _ :: _, [] -> false
let rec is_subseq a b = match a, b with
  | [], _ -> true | _ :: _, [] -> false
  | x :: a', y :: b' -> if x = y then is_subseq a' b' else is_subseq a b'

(* ======================================================================== C15 *)
(* Record: id, "c15", selector, root, blocks, control, observation (U<trace>#R<trace> | compile:<class>) *)

let split_ur (obs : string) : (string * string) option =
  if String.length obs > 0 && obs.[0] = 'U' then
    match String.index_opt obs '#' with
    | Some i when i + 1 < String.length obs && obs.[i + 1] = 'R' ->
      Some (String.sub obs 1 (i - 1), String.sub obs (i + 2) (String.length obs - i - 2))
    | _ -> None
  else None

let texts l = List.map (fun t -> t.text) l
let visits_of l = List.filter (fun t -> not t.load) l
let loads_of l = List.filter (fun t -> t.load) l

let rec nodup = function [] -> true | x :: r -> not (List.mem x r) && nodup r

(* the SPEC of visit-once on the unrestricted trace: a load of an already loaded link is dropped together
   with everything beneath its path *)
let prune_once (u : tok list) : tok list =
  let seen = Hashtbl.create 8 and pruned = ref [] in
  List.filter (fun t ->
      if t.load then begin
        if List.exists (fun q -> is_prefix_path q t.path) !pruned then false
        else if Hashtbl.mem seen t.cid then (pruned := t.path :: !pruned; false)
        else (Hashtbl.add seen t.cid (); true)
      end else not (List.exists (fun q -> is_prefix_path q t.path) !pruned)) u

(* the SPEC of skipping: every event beneath the path of a skipped load disappears; the load itself stays *)
let prune_skip (k : string list) (u : tok list) : tok list =
  let sk = List.filter_map (fun t -> if t.load && List.mem t.cid k then Some t.path else None) u in
  List.filter (fun t ->
      if t.load then not (List.exists (fun q -> is_strict_prefix_path q t.path) sk)
      else not (List.exists (fun q -> is_prefix_path q t.path) sk)) u

let c15_oracle (c : ctl_in) (ctl_text : string) (obs : string) : string =
  match split_ur obs with
  | None -> if String.length obs >= 8 && String.sub obs 0 8 = "compile:" then "ok" else "fail:malformed_obs"
  | Some (us, rs) ->
    let (u, ucls) = parse_trace us and (r, rcls) = parse_trace rs in
    let fails = ref [] in
    let fail x = if not (List.mem x !fails) then fails := x :: !fails in
    let uv = texts (visits_of u) and ul = texts (loads_of u) in
    let rv = texts (visits_of r) and rl = texts (loads_of r) in
    if c.nsettings = 0 then begin
      if us <> rs then fail "unrestricted_differs"
    end else if c.nsettings = 1 && c.nb >= 0 then begin
      if rv <> firstn c.nb uv then fail "nb_prefix";
      if not (is_prefix_list (texts r) (texts u)) then fail "nb_prefix";
      if c.nb < List.length uv then (if rcls <> "budget_node" then fail "nb_error")
      else if rs <> us then fail "nb_changes_sufficient"
    end else if c.nsettings = 1 && c.lb >= 0 then begin
      if rl <> firstn c.lb ul then fail "lb_prefix";
      if not (is_prefix_list (texts r) (texts u)) then fail "lb_prefix";
      if c.lb < List.length ul then (if rcls <> "budget_link" then fail "lb_error")
      else if rs <> us then fail "lb_changes_sufficient"
    end else if c.nsettings = 1 && c.once then begin
      if ucls = "ok" then begin
        if not (is_subseq (texts r) (texts u)) then fail "once_subseq";
        if not (nodup (List.map (fun t -> t.cid) (loads_of r))) then fail "once_repeat";
        if rcls <> "ok" then fail "once_error";
        if texts r <> texts (prune_once u) then fail "once_prune"
      end
    end else if c.nsettings = 1 && c.skip <> [] then begin
      if ucls = "ok" then begin
        let k = List.map hex_of_bytes c.skip in
        if rcls <> "ok" then fail "skip_error";
        if texts r <> texts (prune_skip k u) then fail "skip_subtree"
      end
    end else if c.nsettings = 1 then begin
      match c.start with
      | Some p when ucls = "ok" ->
        let ps = segs_text p in
        let upaths = List.map (fun t -> t.path) (visits_of u) in
        if List.mem ps upaths then begin
          (* split U at the first visit of p *)
          let rec split acc = function
            | [] -> (List.rev acc, [])
            | t :: rest when (not t.load) && t.path = ps -> (List.rev acc, t :: rest)
            | t :: rest -> split (t :: acc) rest in
          let (before, after) = split [] u in
          if nodup upaths then begin
            if rv <> texts (visits_of after) then fail "start_suffix";
            let want_loads = texts (List.filter (fun t -> t.load && is_prefix_path t.path ps) before) @ texts (loads_of after) in
            if rl <> want_loads then fail "start_loads";
            if rcls <> "ok" then fail "start_error"
          end else begin
            (* a path is visited twice (overlapping union interests, a C07 finding): only the weaker
               relation is required here *)
            if not (is_subseq rv uv) then fail "start_subseq"
          end
        end
      | _ -> ()
    end;
    if !fails = [] then "ok" else "fail:" ^ String.concat "," (List.rev !fails)

let c15_model q sel root blocks ctl =
  let model_obs =
    match compile (dm_of_string sel) with
    | CErr -> "compile:err"
    | CUnsupported -> "compile:unsupported"
    | COk s ->
      let g = parse_blocks blocks and r = dm_of_string root in
      let c = parse_ctl ctl in
      let (mc, budget) = model_ctl c in
      "U" ^ trace_text true (walk_adv q g fuel r s) ^ "#R" ^ trace_text true (cwalk_adv q mc g fuel budget r s) in
  model_obs

let c15_line q id sel root blocks ctl obs =
  let model_obs = c15_model q sel root blocks ctl in
  let verdict = if model_obs = "compile:unsupported" then "skip" else c15_oracle (parse_ctl ctl) ctl obs in
  print_string id; print_char '\t'; print_string model_obs; print_char '\t'; print_endline verdict

(* Record: id, "c15h", selector, root, blocks, ctl!ctl!..., observation  H<trace>#..;F<trace>#..
   consecutive walks sharing one Config: each must be the walk its controls alone determine *)
let c15h_model q sel root blocks hist =
  match compile (dm_of_string sel) with
  | CErr -> "compile:err"
  | CUnsupported -> "compile:unsupported"
  | COk s ->
    let g = parse_blocks blocks and r = dm_of_string root in
    let ts = List.map (fun ctl ->
        let (mc, budget) = model_ctl (parse_ctl ctl) in
        trace_text true (cwalk_adv q mc g fuel budget r s)) (String.split_on_char '!' hist) in
    let j = String.concat "#" ts in
    "H" ^ j ^ ";F" ^ j

let c15h_line q id sel root blocks hist obs =
  let model_obs = c15h_model q sel root blocks hist in
  let verdict =
    if model_obs = "compile:unsupported" then "skip" else
    match String.index_opt obs ';' with
    | Some i when String.length obs > i + 1 && obs.[0] = 'H' && obs.[i + 1] = 'F' ->
      if String.sub obs 1 (i - 1) = String.sub obs (i + 2) (String.length obs - i - 2) then "ok"
      else "fail:config_reuse_changes_walk"
    | _ -> "fail:malformed_obs" in
  print_string id; print_char '\t'; print_string model_obs; print_char '\t'; print_endline verdict

(* ======================================================================== C14 *)
let gerr_name = function
  | GNotExists -> "notexists" | GBadIndex -> "badindex" | GTerminal -> "terminal" | GLoad -> "load" | GFuel -> "fuel"

let get_text g root p =
  match get g root p with
  | Ok v -> "ok " ^ string_of_dm v
  | Err e -> "err " ^ gerr_name e

(* Get(ParsePath(path.String())) relative to Get(path): "=" / "-" / the differing text *)
let reparse_text g root (p : seg list) (get : string) : string =
  let strs = List.map (fun sg -> string_of_bytes (seg_string sg)) p in
  if not (List.for_all (fun x -> x <> "" && not (String.contains x '/')) strs) then "-" else begin
    let back = parse_path (format_path p) in
    let res = get_text g root back ^ (if segs_text back <> segs_text p then " path=" ^ segs_text back else "") in
    if res = get then "=" else res
  end

let has_prefix s k = String.length s >= String.length k && String.sub s 0 (String.length k) = k

(* is the hex string a an aligned substring of the hex string b *)
let hex_substring a b =
  let la = String.length a and lb = String.length b in
  let rec go i = i + la <= lb && (String.sub b i la = a || go (i + 2)) in
  go 0

let is_slice_of visited got =
  String.length visited >= 1 && String.length got >= 1 && visited.[0] = got.[0] &&
  (visited.[0] = 's' || visited.[0] = 'b') &&
  not (String.contains visited ' ') && not (String.contains got ' ') &&
  hex_substring (String.sub visited 1 (String.length visited - 1)) (String.sub got 1 (String.length got - 1))

let kind_letter (v : dm) : string =
  match v with DMap _ -> "m" | DList _ -> "a" | DLink _ -> "l" | _ -> "s"
let ctx_dump (v : dm) : string = String.map (fun c -> if c = ' ' then '_' else c) (string_of_dm v)
let ctx_entry (lp : seg list) (ln : dm) (parent : dm) : string =
  segs_text lp ^ "~" ^ ctx_dump ln ^ "~" ^ kind_letter parent
(* every context handed to a chooser names the link node itself and its container (or, for a block whose root is a
   link, the previous link node) *)
let ctx_ok (ctx : string) : bool =
  ctx = "" ||
  List.for_all (fun e ->
      match String.split_on_char '~' e with
      | [_; ln; pk] -> String.length ln > 0 && ln.[0] = 'l' && not (String.contains ln '_') && (pk = "m" || pk = "a" || pk = "l")
      | _ -> false) (String.split_on_char '+' ctx)

let c14v_oracle (obs0 : string) : string =
  if has_prefix obs0 "compile:" then "ok" else
  let (obs, ctx) =
    match String.split_on_char '|' obs0 with
    | [b; c; x] when has_prefix x "ctx:" -> (b ^ "|" ^ c, String.sub x 4 (String.length x - 4))
    | _ -> (obs0, "") in
  if not (ctx_ok ctx) then "fail:link_context_wrong" else
  let i = String.rindex obs '|' in
  let body = String.sub obs 0 i in
  let fails = ref [] in
  let fail x = if not (List.mem x !fails) then fails := x :: !fails in
  if body <> "" then
    List.iter (fun v ->
        match String.split_on_char ';' v with
        | [_path; reason; visited; get; focus; step; rep] ->
          if rep <> "=" && rep <> "-" then fail "reparse_differs";
          if visited <> "" && visited.[0] = 'l' then begin
            (* the walk visited a link node: a block whose root is itself a link; Get follows it *)
            if get <> "ok " ^ visited then fail "link_block_root_followed"
          end else if not (has_prefix get "ok ") then fail "visit_unresolvable"
          else begin
            let got = String.sub get 3 (String.length get - 3) in
            if visited <> got && not (reason = "m" && is_slice_of visited got) then fail "visit_differs"
          end;
          if focus <> "=" then fail "focus_differs";
          if step <> "=" then fail "stepwise_differs"
        | _ -> fail "malformed_obs")
      (String.split_on_char ',' body);
  if !fails = [] then "ok" else "fail:" ^ String.concat "," (List.rev !fails)

let c14v_model q sel root blocks =
  let model_obs =
    match compile (dm_of_string sel) with
    | CErr -> "compile:err"
    | CUnsupported -> "compile:unsupported"
    | COk s ->
      let g = parse_blocks blocks and r = dm_of_string root in
      let (evs, o) = walk_adv q g fuel r s in
      let vs = List.filter_map (fun e ->
          match e with
          | EVisit (p, nd, rs, _) ->
            let gt = get_text g r p in
            Some (segs_text p ^ ";" ^ (match rs with RMatch -> "m" | RCand -> "x") ^ ";" ^ string_of_dm nd ^ ";" ^
                  gt ^ ";=;=;" ^ reparse_text g r p gt)
          | ELoad _ -> None) evs in
      let removelast l = match List.rev l with [] -> [] | _ :: t -> List.rev t in
      let ctx = List.filter_map (fun e ->
          match e with
          | ELoad (p, c, _) ->
            let parent = match get g r (removelast p) with Ok v -> v | Err _ -> DNull in
            Some (ctx_entry p (DLink c) parent)
          | _ -> None) evs in
      String.concat "," vs ^ "|" ^ class_of o ^ "|ctx:" ^ String.concat "+" ctx in
  model_obs

let c14v_line q id sel root blocks obs =
  let model_obs = c14v_model q sel root blocks in
  let verdict = if model_obs = "compile:unsupported" then "skip" else c14v_oracle obs in
  print_string id; print_char '\t'; print_string model_obs; print_char '\t'; print_endline verdict

(* Record: id, "c14n", selector, root, blocks, script, observation: Focus / Get / WalkAdv on the Progress handed to a
   callback.  State: the path carried so far, the node, LastBlock.Link. *)
type nst = NF of seg list | NG of seg list | NW of int

let parse_script (s : string) : nst list =
  List.map (fun p ->
      let arg = String.sub p 2 (String.length p - 2) in
      match p.[0] with
      | 'F' -> NF (parse_segs arg)
      | 'G' -> NG (parse_segs arg)
      | _ -> NW (if arg = "-" then -1 else int_of_string arg))
    (String.split_on_char '>' s)

let c14n_model q sel root blocks script : string =
  match compile (dm_of_string sel) with
  | CErr -> "compile:err"
  | CUnsupported -> "compile:unsupported"
  | COk s ->
    let g = parse_blocks blocks in
    let rep = ref [] in
    let add x = rep := x :: !rep in
    (* returns the error class *)
    let rec exec (pre : seg list) (n : dm) (link : n list option) (steps : nst list) : string =
      match steps with
      | [] -> "ok"
      | NF qs :: rest ->
        (match focus_from g pre n qs with
         | Err e -> gerr_name e
         | Ok ((v, path), lb) ->
           let lbt = match lb with
             | None -> "^"
             | Some (rel, l) -> segs_text rel ^ "@" ^ short [l] in
           add ("f;" ^ segs_text path ^ ";" ^ lbt ^ ";" ^ string_of_dm v);
           let link' = match lb with Some (_, l) -> Some l | None -> link in
           exec path v link' rest)
      | NG qs :: _ -> add ("g;" ^ get_text g n qs); "ok"
      | NW k :: rest ->
        let ls = match link with Some l -> [l] | None -> [] in
        let (evs, o) = walk q g fuel ls pre n s in
        if k < 0 then begin
          List.iter (fun e -> match e with
              | EVisit (p, nd, r, ls') ->
                add ("v;" ^ segs_text p ^ ";" ^ (match r with RMatch -> "m" | RCand -> "x") ^ ";" ^ short ls' ^ ";" ^
                     digest (string_of_dm nd))
              | ELoad _ -> ()) evs;
          class_of o
        end else begin
          let visits = List.filter_map (fun e -> match e with EVisit (p, nd, _, ls') -> Some (p, nd, ls') | _ -> None) evs in
          match List.nth_opt visits k with
          | Some (p, nd, ls') ->
            exec p nd (match ls' with l :: _ -> Some l | [] -> None) rest
          | None -> class_of o
        end in
    let cls = exec [] (dm_of_string root) None (parse_script script) in
    String.concat "," (List.rev !rep) ^ "|" ^ cls

let c14n_line q id sel root blocks script obs =
  let model_obs = c14n_model q sel root blocks script in
  let verdict =
    if model_obs = "compile:unsupported" then "skip" else begin
      (* independent of the model: a nested focus reports a path that extends the path of the callback it was started
         from, and leaves LastBlock alone unless it loads a block *)
      let i = try String.rindex obs '|' with Not_found -> 0 in
      let body = String.sub obs 0 i in
      let fails = ref [] in
      let fail x = if not (List.mem x !fails) then fails := x :: !fails in
      let prev = ref "" in
      if body <> "" then
        List.iter (fun r ->
            match String.split_on_char ';' r with
            | "f" :: path :: lb :: _ ->
              if not (is_prefix_path !prev path) then fail "nested_focus_path";
              if lb = "!changed" then fail "nested_focus_lastblock";
              prev := path
            | "v" :: path :: _ -> if not (is_prefix_path !prev path) then fail "nested_walk_path"
            | _ -> ()) (String.split_on_char ',' body);
      if !fails = [] then "ok" else "fail:" ^ String.concat "," (List.rev !fails)
    end in
  print_string id; print_char '\t'; print_string model_obs; print_char '\t'; print_endline verdict

let c14p_line id root blocks path obs =
  let g = parse_blocks blocks and r = dm_of_string root in
  let gt = get_text g r (parse_segs path) in
  let (clog, _) = get_ctx g r [] (parse_segs path) in
  let ctx = String.concat "+" (List.map (fun ((lp, ln), pr) -> ctx_entry lp ln pr) clog) in
  let model_obs = gt ^ ";=;=;" ^ reparse_text g r (parse_segs path) gt ^ ";" ^ ctx in
  let verdict =
    match String.split_on_char ';' obs with
    | [_; focus; step; rep; ictx] ->
      let fails = (if step <> "=" then ["get_vs_stepwise"] else []) @ (if focus <> "=" then ["focus_differs"] else []) @
                  (if rep <> "=" && rep <> "-" then ["reparse_differs"] else []) @
                  (if not (ctx_ok ictx) then ["link_context_wrong"] else []) in
      if fails = [] then "ok" else "fail:" ^ String.concat "," fails
    | _ -> "fail:malformed_obs" in
  print_string id; print_char '\t'; print_string model_obs; print_char '\t'; print_endline verdict

(* c14t: WalkTransforming, oracle only (not modelled): every (path, node) handed to the TransformFn resolves with Get *)
let c14t_line id obs =
  let fails = ref [] in
  let fail x = if not (List.mem x !fails) then fails := x :: !fails in
  List.iter (fun v ->
      match String.split_on_char ';' v with
      | [_; visited; get] ->
        if visited <> "" && visited.[0] = 'l' then (if get <> "ok " ^ visited then fail "link_block_root_followed")
        else if get <> "ok " ^ visited then fail "transform_visit_unresolvable"
      | _ -> fail "malformed_obs") (String.split_on_char ',' obs);
  print_string id; print_char '\t'; print_string obs; print_char '\t';
  print_endline (if !fails = [] then "ok" else "fail:" ^ String.concat "," (List.rev !fails))

(* c14l: WalkLocal *)
let c14l_line id root obs =
  let r = dm_of_string root in
  let vs = List.map (fun (p, nd) ->
      let res = match get_local r p with
        | Ok v -> if string_of_dm v = string_of_dm nd then "=" else "other:" ^ digest (string_of_dm v)
        | Err _ -> "unresolvable" in
      segs_text p ^ ";" ^ digest (string_of_dm nd) ^ ";" ^ res) (walk_local_all r) in
  let model_obs = String.concat "," vs ^ "|ok" in
  let i = try String.rindex obs '|' with Not_found -> 0 in
  let body = String.sub obs 0 i in
  let bad = body <> "" && List.exists (fun v ->
      match String.split_on_char ';' v with [_; _; "="] -> false | _ -> true) (String.split_on_char ',' body) in
  let verdict = if bad then "fail:walklocal_path_unresolvable" else "ok" in
  print_string id; print_char '\t'; print_string model_obs; print_char '\t'; print_endline verdict

(* decimal int64 -> Z; PathSegmentOfInt only looks at the sign of a negative value, so any negative number will do *)
let z_of_dec (s : string) : z =
  let i = Int64.of_string s in
  if Int64.compare i 0L < 0 then z_of_int (-1) else z_of_hex (Printf.sprintf "%Lx" i)

(* c14a: the Path API *)
let c14a_line id start ops obs =
  let p = ref (parse_segs start) in
  let rep = ref [] in
  let stop = ref false in
  let show r = rep := (r ^ segs_text !p ^ "=" ^ hex_of_bytes (format_path !p)) :: !rep in
  let after k op = String.sub op k (String.length op - k) in
  if ops <> "" then
    List.iter (fun op ->
        if not !stop then begin
          if has_prefix op "as:" then (p := path_append_string !p (bytes_of_hex (after 3 op)); show "")
          else if has_prefix op "ap:" then (p := path_append_string !p (bytes_of_hex (after 3 op)); show "")
          else if has_prefix op "ai:" then (p := path_append_int !p (z_of_dec (after 3 op)); show "")
          else if has_prefix op "j:" then (p := path_join !p (parse_segs (after 2 op)); show "")
          else if has_prefix op "t:" then begin
            let i = int_of_string (after 2 op) in
            let len = List.length !p in
            match path_truncate !p (z_of_int (i mod (len + 1))) with
            | Some q -> p := q; show ""
            | None -> rep := "panic" :: !rep; stop := true
          end
          else if op = "pop" || op = "par" then (p := path_pop !p; show "")
          else if op = "sh" then begin
            let (h, rest) = path_shift !p in
            p := rest;
            show ("h" ^ (match h with Some sg -> hex_of_bytes (seg_string sg) | None -> "") ^ "/")
          end
          else if op = "last" then
            show ("h" ^ (match path_last !p with Some sg -> hex_of_bytes (seg_string sg) | None -> "") ^ "/")
          else if op = "len" then show (Printf.sprintf "n%d/" (List.length !p))
        end) (String.split_on_char ',' ops);
  let model_obs = String.concat "," (List.rev !rep) in
  (* oracle: AppendSegmentString adds exactly one segment carrying exactly the given bytes *)
  let verdict =
    let opl = if ops = "" then [] else String.split_on_char ',' ops in
    let reps = if obs = "" then [] else String.split_on_char ',' obs in
    let segs_of r = match String.index_opt r '=' with
      | Some i -> let b = String.sub r 0 i in (match String.rindex_opt b '/' with Some j -> String.sub b (j + 1) (String.length b - j - 1) | None -> b)
      | None -> "" in
    let rec chk prev opl reps =
      match opl, reps with
      | op :: ot, r :: rt ->
        let cur = segs_of r in
        if (has_prefix op "as:" || has_prefix op "ap:") && cur <> prev ^ "." ^ String.sub op 3 (String.length op - 3) then false
        else chk cur ot rt
      | _ -> true in
    if chk start opl reps then "ok" else "fail:path_append_not_one_segment" in
  print_string id; print_char '\t'; print_string model_obs; print_char '\t'; print_endline verdict

let c14r_line id segs obs =
  let p = parse_segs segs in
  let str = format_path p in
  let back = parse_path str in
  let model_obs = hex_of_bytes str ^ ";" ^ segs_text back in
  let strs = List.map (fun sg -> string_of_bytes (seg_string sg)) p in
  let clean = List.for_all (fun x -> x <> "" && not (String.contains x '/')) strs in
  let verdict =
    match String.split_on_char ';' obs with
    | [h; b] ->
      let fails = (if clean && b <> segs then ["path_roundtrip"] else []) @
                  (if h <> hex_of_bytes (bytes_of_string (String.concat "/" strs)) then ["path_format"] else []) in
      if fails = [] then "ok" else "fail:" ^ String.concat "," fails
    | _ -> "fail:malformed_obs" in
  print_string id; print_char '\t'; print_string model_obs; print_char '\t'; print_endline verdict

(* ======================================================================== C07 *)
(* Record: id, "c07", selector, root, blocks, observation (A<trace>#M<trace> | compile:<class>) *)
let quirk_names = ["union_dup"; "bare_edge_panic"; "exhausted_unwrap"; "shared_depth"]
let quirks_of_mask m =
  { q_union_dup = (m land 1 = 0); q_bare_edge_panic = (m land 2 = 0);
    q_exhausted_unwrap = (m land 4 = 0); q_shared_depth = (m land 8 = 0) }
(* masks are sets of REPAIRS: bit i set = deviation i switched off *)
let repairs_of q =
  (if q.q_union_dup then 0 else 1) lor (if q.q_bare_edge_panic then 0 else 2) lor
  (if q.q_exhausted_unwrap then 0 else 4) lor (if q.q_shared_depth then 0 else 8)
let popcount m = (m land 1) + ((m lsr 1) land 1) + ((m lsr 2) land 1) + ((m lsr 3) land 1)

let split_am (obs : string) : (string * string) option =
  if String.length obs > 0 && obs.[0] = 'A' then
    match String.index_opt obs '#' with
    | Some i when i + 1 < String.length obs && obs.[i + 1] = 'M' ->
      Some (String.sub obs 1 (i - 1), String.sub obs (i + 2) (String.length obs - i - 2))
    | _ -> None
  else None

(* TRAV_STATS=1: count, on stderr, the cases inside the fragment proved for the code as it is *)
let stats = (try Sys.getenv "TRAV_STATS" = "1" with Not_found -> false)
let n_c07 = ref 0 and n_free = ref 0 and n_free_dev = ref 0 and n_dev = ref 0
let n_nsd = ref 0 and n_nsd_dev = ref 0

let c07_line q id sel root blocks obs =
  match compile (dm_of_string sel) with
  | CErr -> print_string id; print_string "\tcompile:err\t"; print_endline (if has_prefix obs "compile:" then "ok" else "fail:compile_rejects")
  | CUnsupported -> print_string id; print_endline "\tcompile:unsupported\tskip"
  | COk s ->
    let g = parse_blocks blocks and r = dm_of_string root in
    let adv = trace_text false (walk_adv q g fuel r s) in
    let mat = trace_text false (walk_matching q g fuel r s) in
    let model_obs = "A" ^ adv ^ "#M" ^ mat in
    let spec = trace_text false (denote_sel g fuel r s) in
    if stats then begin
      incr n_c07;
      let free = walk_quirk_free q g fuel r s in
      if free then incr n_free;
      if adv <> spec then incr n_dev;
      if free && adv <> spec then incr n_free_dev;
      let nsd = no_shared_depth s in
      if nsd then incr n_nsd else prerr_endline ("outside no_shared_depth: " ^ id ^ (if adv <> spec then " (deviates)" else ""));
      if nsd && trace_text false (walk_adv current g fuel r s) <> spec then begin
        incr n_nsd_dev; prerr_endline ("no_shared_depth but current-tree model deviates: " ^ id) end
    end;
    let verdict =
      match split_am obs with
      | None -> "fail:malformed_obs"
      | Some (ia, im) ->
        let fails = ref [] in
        let fail x = if not (List.mem x !fails) then fails := x :: !fails in
        (* the matching walk sees exactly the matched visits (and the same loads) of the advanced walk *)
        let (ta, ca) = parse_trace ia and (tm, cm) = parse_trace im in
        let is_m t = t.load || (match String.split_on_char ':' t.text with _ :: _ :: "m" :: _ -> true | _ -> false) in
        if texts (List.filter is_m ta) <> texts tm || ca <> cm then fail "matching_subset";
        if ia <> spec then begin
          if ia <> adv then fail "walk_differs"
          else begin
            (* the walk is the pinned model's: which repairs make the model meet the specification? *)
            let best = ref None in
            for m = 1 to 15 do
              if m land (repairs_of q) = 0 &&
                 trace_text false (walk_adv (quirks_of_mask (m lor repairs_of q)) g fuel r s) = spec then
                match !best with
                | Some b when popcount b <= popcount m -> ()
                | _ -> best := Some m
            done;
            match !best with
            | None -> fail "spec_gap"
            | Some m ->
              (* the shared counter and the dropped empty union are reconciled by the same switch (per-member
                 wrapping); they are told apart by the declaration: an empty union and nothing else amiss *)
              if m = 8 && nsd_rec s && not (noempty s) then fail "empty_union_dropped"
              else List.iteri (fun i nm -> if m land (1 lsl i) <> 0 then fail nm) quirk_names
          end
        end;
        if !fails = [] then "ok" else "fail:" ^ String.concat "," (List.rev !fails) in
    print_string id; print_char '\t'; print_string model_obs; print_char '\t'; print_endline verdict

(* ======================================================================== C10 (selector clause) *)
(* Record: id, "c10s", declaration, root, blocks, observation
   observation = err | panic:<site> | huge:<how> | ok|A:<class>:<visits>:<loads>|M:<class>:<visits>:<loads> *)
let two20 : z = z_of_int (1 lsl 20)
let z_gt (a : z) (b : z) : bool =
  (* a > b for the extracted Z *)
  match a, b with
  | Zpos _, (Z0 | Zneg _) -> true
  | Z0, Zneg _ -> true
  | Zpos _, Zpos _ -> String.length (hex_of_z a) > String.length (hex_of_z b) ||
                      (String.length (hex_of_z a) = String.length (hex_of_z b) && hex_of_z a > hex_of_z b)
  | _ -> false

let c10_walk_class (o : outcome) : string =
  match o with OPanic -> "panic:edge" | _ -> class_of o

let count_evs evs =
  List.fold_left (fun (v, l) e -> match e with EVisit _ -> (v + 1, l) | ELoad _ -> (v, l + 1)) (0, 0) evs

(* None: the model does not predict this record (unsupported clause, or a range too wide to materialise) *)
let c10s_model q sel root blocks : string option =
  match compile (dm_of_string sel) with
  | CErr -> Some "err"
  | CUnsupported -> None
  | COk s ->
    if z_gt (compile_alloc s) two20 then None else begin
      let g = parse_blocks blocks and r = dm_of_string root in
      (* the fuel is the one C10_walk_total proves sufficient (graphs built from hashes have no link cycle) *)
      let fl = if chain_ok g (nat_of_int (List.length g)) r then walk_fuel g r else fuel in
      let part tag (evs, o) = let (v, l) = count_evs evs in Printf.sprintf "%s:%s:%d:%d" tag (c10_walk_class o) v l in
      Some ("ok|" ^ part "A" (walk_adv q g fl r s) ^ "|" ^ part "M" (walk_matching q g fl r s))
    end

let c10s_oracle (obs : string) : string =
  let fails = ref [] in
  let fail x = if not (List.mem x !fails) then fails := x :: !fails in
  if has_prefix obs "huge" then fail "selector_range_huge_alloc"
  else if has_prefix obs "panic" then fail "selector_compile_panic"
  else if obs = "err" then ()
  else begin
    match String.split_on_char '|' obs with
    | ["ok"; a; m] ->
      List.iter (fun part ->
          match String.split_on_char ':' part with
          | _ :: "panic" :: _ -> fail "selector_walk_panic"
          | _ :: ("ok" | "load" | "other") :: _ -> ()
          | _ -> fail "selector_walk_outcome") [a; m]
    | _ -> fail "malformed_obs"
  end;
  if !fails = [] then "ok" else "fail:" ^ String.concat "," (List.rev !fails)

let c10s_line q id sel root blocks obs =
  let verdict = c10s_oracle obs in
  match c10s_model q sel root blocks with
  | Some mo -> print_string id; print_char '\t'; print_string mo; print_char '\t'; print_endline verdict
  | None ->
    print_string id; print_string "\tunpredicted\t";
    print_endline (if has_prefix verdict "fail:" then verdict else "skip")

(* ---- which deviations does the tree under test have?  The harnesses emit a fixed corpus first (ids k...) that
   contains a witness of every deviation; the switch setting that agrees with the implementation on most corpus
   records (ties: the one closest to [pinned]) is used as "the code as it is" for all records.  On the unchanged
   tree this is [pinned]; after a fix commit the corresponding switch flips by itself. *)
let cur_q = ref pinned

let model_of_line q line : (string * string) option =
  match split_tab line with
  | _ :: "c15" :: sel :: root :: blocks :: ctl :: obs :: _ -> Some (c15_model q sel root blocks ctl, obs)
  | _ :: "c14v" :: sel :: root :: blocks :: obs :: _ -> Some (c14v_model q sel root blocks, obs)
  | _ :: "c10s" :: sel :: root :: blocks :: obs :: _ ->
    (match c10s_model q sel root blocks with Some mo -> Some (mo, obs) | None -> None)
  | _ :: "c07" :: sel :: root :: blocks :: obs :: _ ->
    (match compile (dm_of_string sel) with
     | COk s ->
       let g = parse_blocks blocks and r = dm_of_string root in
       Some ("A" ^ trace_text false (walk_adv q g fuel r s) ^ "#M" ^ trace_text false (walk_matching q g fuel r s), obs)
     | _ -> None)
  | _ -> None

let probe (corpus : string list) : unit =
  let best = ref (-1, 0) in
  for m = 0 to 15 do
    let q = quirks_of_mask m in
    let agree = List.fold_left (fun acc line ->
        match (try model_of_line q line with Stack_overflow -> None) with
        | Some (mo, obs) when mo = obs -> acc + 1
        | _ -> acc) 0 corpus in
    let (ba, bm) = !best in
    if agree > ba || (agree = ba && popcount m < popcount bm) then best := (agree, m)
  done;
  cur_q := quirks_of_mask (snd !best)

let process line =
  try
    match split_tab line with
    | id :: "c15" :: sel :: root :: blocks :: ctl :: obs :: _ -> c15_line !cur_q id sel root blocks ctl obs
    | id :: "c15h" :: sel :: root :: blocks :: hist :: obs :: _ -> c15h_line !cur_q id sel root blocks hist obs
    | id :: "c07" :: sel :: root :: blocks :: obs :: _ -> c07_line !cur_q id sel root blocks obs
    | id :: "c10s" :: sel :: root :: blocks :: obs :: _ -> c10s_line !cur_q id sel root blocks obs
    | id :: "c14v" :: sel :: root :: blocks :: obs :: _ -> c14v_line !cur_q id sel root blocks obs
    | id :: "c14n" :: sel :: root :: blocks :: script :: obs :: _ -> c14n_line !cur_q id sel root blocks script obs
    | id :: "c14p" :: root :: blocks :: path :: obs :: _ -> c14p_line id root blocks path obs
    | id :: "c14r" :: segs :: obs :: _ -> c14r_line id segs obs
    | id :: "c14t" :: _ :: _ :: _ :: obs :: _ -> c14t_line id obs
    | id :: "c14l" :: root :: obs :: _ -> c14l_line id root obs
    | id :: "c14a" :: start :: ops :: obs :: _ -> c14a_line id start ops obs
    | _ -> ()
  with Stack_overflow ->
    (match split_tab line with id :: _ -> print_string id; print_endline "\tmodel:stack_overflow\tskip" | _ -> ())

let () =
  let corpus = ref [] and probing = ref true in
  iter_lines (fun line ->
      if !probing then begin
        if String.length line > 0 && line.[0] = 'k' then corpus := line :: !corpus
        else begin
          probing := false;
          let c = List.rev !corpus in
          probe c; List.iter process c; process line
        end
      end else process line);
  if !probing then begin let c = List.rev !corpus in probe c; List.iter process c end;
  if stats then
    Printf.eprintf "c07 cases %d; inside the quirk-free fragment of the tree's setting %d; model deviates from spec %d (of which inside the fragment: %d)\n"
      !n_c07 !n_free !n_dev !n_free_dev;
  if stats then
    Printf.eprintf "c07: no_shared_depth holds for %d of %d compiled selectors; current-tree model deviates from spec inside it: %d\n"
      !n_nsd !n_c07 !n_nsd_dev
