(* c10 driver: totality / boundedness oracle for every record; exact model prediction for
   dag-cbor and cbor into the generic builder, and for path parsing *)
open Model
open Dmio

let derr_name = function
  | DBudget -> "budget" | DDepth -> "depth" | DTrailing -> "trailing" | DOther -> "other" | DFuel -> "fuel"

let contains s sub =
  let n = String.length s and m = String.length sub in
  let rec go i = i + m <= n && (String.sub s i m = sub || go (i + 1)) in go 0

let starts_with s p = String.length s >= String.length p && String.sub s 0 (String.length p) = p

(* cbor opts: s<0|1>l<0|1>e<0|1>b<int>d<int>p<int> *)
let parse_copts (s : string) =
  let strict = s.[1] = '1' and links = s.[3] = '1' and beyond = s.[5] = '1' in
  let rest = String.sub s 7 (String.length s - 7) in
  let i = String.index rest 'd' in
  let j = String.index rest 'p' in
  let budget = int_of_string (String.sub rest 0 i) in
  let depth = int_of_string (String.sub rest (i + 1) (j - i - 1)) in
  (strict, links, beyond, budget, depth)

(* json opts: l<0|1>y<0|1>e<0|1>d<int> *)
let json_depth (s : string) = int_of_string (String.sub s 7 (String.length s - 7))

let split_path (bs : int list) : int list list =
  let rec go cur acc = function
    | [] -> List.rev (if cur = [] then acc else List.rev cur :: acc)
    | 47 :: r -> go [] (if cur = [] then acc else List.rev cur :: acc) r
    | c :: r -> go (c :: cur) acc r in
  go [] [] bs

let ints_of_hex (h : string) : int list =
  let n = String.length h / 2 in
  List.init n (fun i -> int_of_string ("0x" ^ String.sub h (2 * i) 2))

let depth_of_obs obs =
  (* ok|d<k> *)
  match String.index_opt obs '|' with
  | Some i when String.length obs > i + 2 && obs.[i + 1] = 'd' ->
    (try Some (int_of_string (String.sub obs (i + 2) (String.length obs - i - 2))) with _ -> None)
  | _ -> None

let () =
  iter_lines (fun line ->
    match split_tab line with
    | id :: "dec" :: codec :: target :: os :: hex :: obs :: _ ->
      let is_cbor = (codec = "dagcbor" || codec = "cbor") in
      let maxd =
        if is_cbor then (let (_, _, _, _, d) = parse_copts os in if d > 0 then d else 1024)
        else if codec = "raw" then 1024
        else (let d = json_depth os in if d > 0 then d else 1024) in
      let model_obs =
        if is_cbor && target = "basic" then begin
          let (strict, links, beyond, budget, depth) = parse_copts os in
          let links = if codec = "cbor" then false else links in
          let o = { d_allow_links = links; d_relaxed = not strict; d_dont_parse_beyond = beyond;
                    d_budget = z_of_int budget; d_max_depth = z_of_int depth; d_reject_tags = true } in
          match decode o (bytes_of_hex hex) with
          | Ok (v, _) -> Printf.sprintf "ok|d%d" (int_of_nat (dm_depth v))
          | Err e -> "err:" ^ derr_name e
        end else obs in
      let verdict =
        if obs = "skip" then "skip"
        else if starts_with obs "panic:" then "fail:" ^ String.sub obs 6 (String.length obs - 6)
        else if starts_with obs "ok" then
          (match depth_of_obs obs with
           | Some d when d > maxd -> "fail:depth_exceeded"
           | _ -> "ok")
        else "ok" in
      print_string id; print_char '\t'; print_string model_obs; print_char '\t'; print_endline verdict
    | id :: "alloc" :: codec :: os :: hex :: obs :: _ ->
      let len = String.length hex / 2 in
      let budget =
        if codec = "dagcbor" || codec = "cbor" then (let (_, _, _, b, _) = parse_copts os in if b = 0 then 10485760 else max b 0)
        else 0 in
      let bound = 128 * budget + 256 * len + 1048576 in
      let alloc =
        (try Scanf.sscanf obs "alloc:%d|" (fun a -> a) with _ -> -1) in
      let verdict =
        if contains obs "crash" then "fail:alloc_crash"
        else if alloc < 0 then "fail:malformed_obs"
        else if alloc > bound then "fail:alloc_unbounded"
        else if contains obs "panic" then "fail:panic"
        else "ok" in
      print_string id; print_char '\t'; print_string obs; print_char '\t'; print_endline verdict
    | id :: "path" :: hex :: obs :: _ ->
      let segs = split_path (ints_of_hex hex) in
      let hexseg s = String.concat "" (List.map (Printf.sprintf "%02x") s) in
      let model_obs = Printf.sprintf "%d:%s" (List.length segs) (String.concat "," (List.map hexseg segs)) in
      let verdict = if starts_with obs "panic" then "fail:path_panic" else if obs <> model_obs then "fail:path_parse" else "ok" in
      print_string id; print_char '\t'; print_string model_obs; print_char '\t'; print_endline verdict
    | _ -> ())
