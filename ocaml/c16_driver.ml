(* c16 driver: the extracted transform model on the harness records (see harness/cmd/c16/main.go for
   the record layout) + the oracle: the SPEC [xupdate] on the link-expanded tree, evaluated on what the
   implementation returned. *)
open Model
open Dmio

let fuel = nat_of_int 200
let xfuel = nat_of_int 48

(* ---- text helpers *)
let split_on (sep : string) (s : string) : string list =
  (* split on a multi-character separator *)
  let n = String.length sep and l = String.length s in
  let rec go i start acc =
    if i + n > l then List.rev (String.sub s start (l - start) :: acc)
    else if String.sub s i n = sep then go (i + n) (i + n) (String.sub s start (i - start) :: acc)
    else go (i + 1) start acc in
  go 0 0 []

let starts_with p s = String.length s >= String.length p && String.sub s 0 (String.length p) = p
let after p s = String.sub s (String.length p) (String.length s - String.length p)

(* a Go nil node inside a container: the model's DLink [] prints as the dumper's "!nil" *)
let dump (v : dm) : string =
  String.concat " " (List.map (fun t -> if t = "l" then "!nil" else t) (String.split_on_char ' ' (string_of_dm v)))

(* "/<hex>" = string-stored segment, "/#<decimal>" = int-stored segment *)
let parse_path (t : string) : xseg list =
  if t = "." then [] else
  List.map (fun h -> if starts_with "#" h then SegI (z_of_int (int_of_string (after "#" h))) else SegS (bytes_of_hex h))
    (List.tl (String.split_on_char '/' t))

let parse_blocks (t : string) : (n list * dm) list =
  if t = "-" || t = "" then [] else
  List.map (fun b -> let i = String.index b '=' in
             (bytes_of_hex (String.sub b 0 i), dm_of_string (String.sub b (i + 1) (String.length b - i - 1))))
    (String.split_on_char ';' t)

let err_name = function
  | EScalar -> "err:scalar" | EListSeg -> "err:listseg" | EBounds -> "err:bounds" | ENoParent -> "err:noparent"
  | ELoad -> "err:load" | EWrongKind -> "err:wrong_kind" | EOther -> "err:other" | EStore -> "err:store"
  | EPanic -> "panic" | EFuel -> "err:fuel"

let seen_text = function None -> "-" | Some v -> dump v

(* ---- quirks *)
let quirk_names = ["ldn"; "apn"; "mdn"; "neg"; "app"; "nul"]
let class_of = function
  | "ldn" -> "xform_delete_list_elem_nil" | "apn" -> "xform_delete_append_nil"
  | "mdn" -> "xform_delete_missing_key_nil" | "neg" -> "xform_negative_index_appends"
  | "app" -> "xform_append_creates_parents" | "nul" -> "xform_null_root_panic" | s -> s
let mk_quirks (on : string list) : quirks =
  let h k = List.mem k on in
  { q_list_delete_nil = h "ldn"; q_append_nil = h "apn"; q_missing_delete_nil = h "mdn";
    q_neg_index_append = h "neg"; q_append_parents = h "app"; q_null_root_panic = h "nul" }
let current : string list ref = ref quirk_names   (* set by the probe record *)

(* ---- callbacks *)
let fn_of (t : string) : dm option -> dm option =
  if t = "id" then (fun x -> x)
  else if t = "del" then (fun _ -> None)
  else if t = "wrap" then (fun x -> match x with Some v -> Some (DList [v]) | None -> Some (DList []))
  else let v = dm_of_string (after "c:" t) in (fun _ -> Some v)

(* fault = the storage refuses every write of this transform ("!o", "!c", "!w<k>", "!s<k>");
   rfault = it refuses every load ("!rk" with SkipMe, "!re" with a plain error) *)
type stepspec = { path : xseg list; fn : string; cp : bool; fault : bool; rfault : bool }
let parse_step (t : string) : stepspec =
  match String.split_on_char ',' t with
  | [p; f; c] ->
    let rf = (match split_on "!r" c with [_; _] -> true | _ -> false) in
    { path = parse_path p; fn = f; cp = starts_with "1" c; fault = String.contains c '!' && not rf; rfault = rf }
  | _ -> failwith ("bad step " ^ t)

(* one step of the model under quirks q: outcome text (with the callback log) and the continuation *)
let model_step mklink (q : quirks) (st : (n list * dm) list) (cur : dm) (s : stepspec)
  : string * (dm * (n list * dm) list) option =
  (* a storage that refuses every load is, for the length of this transform, a storage holding no block: the
     model runs on the empty store (nothing can be stored either: a Store only follows a successful load) *)
  match focused_transform_segs rfc_ltb mklink q (fn_of s.fn) s.cp s.fault fuel (if s.rfault then [] else st) cur s.path with
  | Ok (v, (st', log)) ->
    ("ok:" ^ dump v ^ "#cb:" ^ String.concat "," (List.map seen_text log),
     if has_nil v then None else Some (v, if s.rfault then st else st'))
  | Err EPanic -> ("panic", None)
  | Err e -> (err_name e, Some (cur, st))   (* a failed transform leaves root and store as they were *)

let listing (bl : (n list * dm) list) : string =
  if bl = [] then "-" else
  String.concat ";" (List.sort compare (List.map (fun (c, v) -> hex_of_bytes c ^ "=" ^ dump v) bl))

let strip_cb (o : string) : string = match split_on "#cb:" o with x :: _ -> x | [] -> o
let cb_of (o : string) : string = match split_on "#cb:" o with [_; c] -> c | _ -> ""

(* the blocks an expanded tree is annotated with: (link, block as stored) *)
let rec blocks_of (t : xt) (acc : (n list * dm) list) : (n list * dm) list =
  match t with
  | XLeaf _ -> acc
  | XList l -> List.fold_left (fun a x -> blocks_of x a) acc l
  | XMap m -> List.fold_left (fun a (_, x) -> blocks_of x a) acc m
  | XBlock (c, t') -> blocks_of t' ((c, raw t') :: acc)

(* ---------------------------------------------------------------- ft records *)
let do_ft id blocks root steps links obs =
  let st0 = parse_blocks blocks in
  let root = dm_of_string root in
  let steps = List.map parse_step (String.split_on_char '|' steps) in
  let table = Hashtbl.create 16 in
  let st_final = parse_blocks links in
  List.iter (fun (c, v) -> Hashtbl.replace table (string_of_dm v) c) st_final;
  let mklink v = match Hashtbl.find_opt table (string_of_dm v) with Some c -> c | None -> [n_of_int 63] in
  (* ---- the model, with the quirks the probe found *)
  let q = mk_quirks !current in
  let rec run st cur steps acc =
    match steps with
    | [] -> (List.rev acc, st, cur)
    | s :: r ->
      let (o, k) = model_step mklink q st cur s in
      (match k with
       | Some (v, st') -> run st' v r (o :: acc)
       | None -> (List.rev (o :: acc), st, cur)) in
  let (outs, stl, last) = run st0 root steps [] in
  let newblocks = List.filter (fun (c, _) -> not (List.mem_assoc c st0)) stl in
  let model_obs =
    String.concat "|" outs ^ "||exp:" ^ string_of_dm (erase (xexpand xfuel stl last))
    ^ "||pure:1||new:" ^ listing newblocks in
  (* ---- the oracle: SPEC on the implementation's observation *)
  let verdict =
    if obs = "builderr" then "skip" else
    match split_on "||" obs with
    | [so; ex; pu; nw] ->
      let fails = ref [] in
      let add c = if not (List.mem c !fails) then fails := c :: !fails in
      let cur = ref root in
      let stop = ref false in
      let expected_new : (n list * dm) list ref = ref [] in
      let unsure = ref false in
      let sobs = String.split_on_char '|' so in
      List.iteri (fun i o ->
          if not !stop && i < List.length steps then begin
            let s = List.nth steps i in
            let f = fn_of s.fn in
            let t = xexpand xfuel st_final !cur in
            let outcome = strip_cb o and cb = cb_of o in
            let good =
              match xupdate rfc_ltb mklink f s.cp st_final t (render_path s.path) with
              | XNeedLoad -> unsure := true; true
              | XErr _ -> starts_with "err:" outcome
              | XOk (None, _) -> outcome <> "" && not (starts_with "ok:" outcome)   (* the root cannot be removed *)
              | XOk (Some t', seen) ->
                let v = raw t' in
                if s.path = [] && not (root_accepts !cur v) then starts_with "err:" outcome
                else
                (* a Store is attempted iff the path crosses a link (the SPEC re-links a block) *)
                let crossed =
                  match xupdate rfc_ltb (fun _ -> [n_of_int 255]) f s.cp st_final t (render_path s.path) with
                  | XOk (Some tm, _) -> List.exists (fun (c, _) -> c = [n_of_int 255]) (blocks_of tm [])
                  | _ -> false in
                if s.rfault && crossed
                (* the block behind the link could not be loaded, whatever the loader's error was (SkipMe
                   included): the target was not reached, so the transform fails as a whole *)
                then outcome = "err:load"
                else if
                  (* the Store must fail when the storage is faulty or a re-encoded block holds a link the
                     codec refuses: then the transform fails as a whole *)
                  (s.fault && crossed) || List.exists (fun (_, b) -> has_refused b) (blocks_of t' [])
                then outcome = "err:store"
                else begin
                  (* block structure: every block of the SPEC's tree must be in the store as annotated,
                     and the ones that were not there before are the blocks this step has to add *)
                  if outcome = "ok:" ^ dump v then
                    List.iter (fun (c, b) ->
                        (match List.assoc_opt c st_final with
                         | Some b' when dm_eqb b b' -> ()
                         | _ -> add "block_not_stored");
                        if not (List.mem_assoc c st0) && not (List.mem_assoc c !expected_new) then
                          expected_new := (c, b) :: !expected_new)
                      (blocks_of t' []);
                  outcome = "ok:" ^ dump v
                  && (let calls = String.split_on_char ',' cb in
                      calls <> [] && List.for_all (fun c -> c = seen_text seen) calls)
                end in
            if not good then begin
              (* which confirmed defect, if any, explains exactly this behaviour? *)
              let try_q on = fst (model_step mklink (mk_quirks on) st_final !cur s) in
              let same m = strip_cb m = outcome && (not (starts_with "ok:" m) || cb_of m = cb) in
              let singles = List.filter (fun k -> same (try_q [k])) quirk_names in
              if singles <> [] then List.iter (fun k -> add (class_of k)) singles
              else if same (try_q quirk_names) then
                List.iter (fun k ->
                    if not (same (try_q (List.filter (fun x -> x <> k) quirk_names))) then add (class_of k))
                  quirk_names
              else add (if outcome = "panic" then "unexplained_panic"
                        else if starts_with "err:" outcome then "unexplained_error" else "unexplained_result");
              if !fails = [] then add "unexplained_result"
            end;
            if starts_with "ok:" outcome && not (String.contains outcome '!') then
              cur := dm_of_string (after "ok:" outcome)
            else if starts_with "err:" outcome then ()   (* a failed transform: the run goes on from the same tree *)
            else stop := true
          end) sobs;
      if ex <> "exp:" ^ string_of_dm (erase (xexpand xfuel st_final !cur)) then add "reload_differs";
      if pu <> "pure:1" then add "input_mutated";
      (* the set of newly stored blocks is exactly what the SPEC's trees call for (only meaningful when
         every step agreed with the SPEC) *)
      if !fails = [] && not !unsure then begin
        let got = List.sort compare (List.map (fun (c, _) -> hex_of_bytes c) (parse_blocks (after "new:" nw))) in
        let want = List.sort compare (List.map (fun (c, _) -> hex_of_bytes c) !expected_new) in
        if got <> want then add "stored_blocks_differ"
      end;
      List.iter (fun (c, v) ->
          if not (dm_eqb (sort_maps rfc_ltb v) v) then add "noncanonical_block";
          (* stored under the prototype of the link that was crossed: CIDv1, dag-cbor, sha2-256 *)
          if not (starts_with "01711220" (hex_of_bytes c)) then add "link_prototype_changed")
        (parse_blocks (after "new:" nw));
      if !fails = [] then "ok" else "fail:" ^ String.concat "," (List.rev !fails)
    | _ -> "fail:malformed_obs" in
  print_string id; print_char '\t'; print_string model_obs; print_char '\t'; print_endline verdict

(* ---------------------------------------------------------------- wt records *)
let rec parse_sel (t : string) (i : int) : sel * int =
  match t.[i] with
  | 'M' -> (SMatch, i + 1)
  | 'E' -> (SEdge, i + 1)
  | 'A' -> let (k, j) = parse_sel t (i + 2) in (SAll k, j + 1)
  | 'G' ->
    let c1 = String.index_from t i ',' in
    let c2 = String.index_from t (c1 + 1) ',' in
    let a = int_of_string (String.sub t (i + 2) (c1 - i - 2)) in
    let b = int_of_string (String.sub t (c1 + 1) (c2 - c1 - 1)) in
    let (k, j) = parse_sel t (c2 + 1) in
    (SRange (z_of_int a, z_of_int b, k), j + 1)
  | 'I' | 'R' as c ->
    let comma = String.index_from t i ',' in
    let num = String.sub t (i + 2) (comma - i - 2) in
    let (k, j) = parse_sel t (comma + 1) in
    if c = 'I' then (SIndex (z_of_int (int_of_string num), k), j + 1)
    else (SRec (k, k, (if num = "-" then None else Some (z_of_int (int_of_string num)))), j + 1)
  | 'U' ->
    let rec go j acc =
      if t.[j] = ')' then (List.rev acc, j + 1)
      else let j = if t.[j] = ',' then j + 1 else j in
        let (k, j') = parse_sel t j in go j' (k :: acc) in
    let (ks, j) = go (i + 2) [] in (SUnion ks, j)
  | 'F' ->
    let rec go j acc =
      if t.[j] = ')' then (List.rev acc, j + 1)
      else let j = if t.[j] = ',' then j + 1 else j in
        let colon = String.index_from t j ':' in
        let key = bytes_of_hex (String.sub t j (colon - j)) in
        let (k, j') = parse_sel t (colon + 1) in go j' ((key, k) :: acc) in
    let (fs, j) = go (i + 2) [] in (SFields fs, j)
  | _ -> failwith ("bad selector " ^ t)

let wfn_of (t : string) : dm -> dm option =
  match t with
  | "id" -> (fun _ -> None)
  | "i2s" -> (fun v -> match v with DInt _ -> Some (DString [n_of_int 105]) | _ -> None)
  | "l2n" -> (fun v -> match v with DList _ -> Some DNull | _ -> None)
  | "m2l" -> (fun v -> match v with DMap _ -> Some (DList []) | _ -> None)
  | _ -> let c = dm_of_string (after "c:" t) in (fun _ -> Some c)

(* selector-independent part of "exactly the targeted positions are replaced": the result differs
   from the input only where a node was replaced by what the callback returns for it (a crossed link
   counts as its block) *)
let rec walk_rel (g : dm -> dm option) st (a : dm) (b : dm) : bool =
  (match g a with Some v -> dm_eqb v b | None -> false)
  || (match a, b with
      | DLink c, _ when not (dm_eqb a b) ->
        (match List.assoc_opt c st with Some blk -> walk_rel g st blk b | None -> false)
      | DList la, DList lb -> List.length la = List.length lb && List.for_all2 (walk_rel g st) la lb
      | DMap ma, DMap mb ->
        List.length ma = List.length mb
        && List.for_all2 (fun (k, x) (k', y) -> k = k' && walk_rel g st x y) ma mb
      | _, _ -> dm_eqb a b)

let mk_squirks (on : string list) : squirks =
  { sq_edge_panics = List.mem "sep" on; sq_exhaust_unwrap = List.mem "sxu" on;
    sq_union_nodedup = List.mem "snd" on }

module Dmio_str = struct
  let ascii_of_hex (h : string) : string =
    String.init (String.length h / 2) (fun i -> Char.chr (int_of_string ("0x" ^ String.sub h (2 * i) 2)))
end

let path_text (p : n list list) : string =
  if p = [] then "." else String.concat "" (List.map (fun s -> "/" ^ hex_of_bytes s) p)

(* the node a walk shows its callback at a path: children by key / decimal index, a child that is a
   link is loaded (once) before it is walked *)
let rec walk_at st (v : dm) (p : string list) : dm option =
  match p with
  | [] -> Some v
  | seg :: r ->
    let child =
      match v with
      | DMap m -> List.assoc_opt (bytes_of_hex seg) m
      | DList l ->
        (match int_of_string_opt (Dmio_str.ascii_of_hex seg) with
         | Some i when i >= 0 && i < List.length l -> Some (List.nth l i)
         | _ -> None)
      | _ -> None in
    (match child with
     | Some (DLink c) -> (match List.assoc_opt c st with Some b -> walk_at st b r | None -> None)
     | Some x -> walk_at st x r
     | None -> None)

(* "only matcher positions are decided": can a Matcher be the active selector after exactly n explore
   steps?  Over-approximation by the selector's syntax alone (node shapes, interests and the walk's
   machinery ignored); an edge fires - is replaced by the recursion's sequence - when it is reached by a
   step and the depth limit still allows it (limit.depth >= 2, or no limit). *)
let rec can_match (seq : (sel * z option) option) (s : sel) (n : int) : bool =
  let step x = n > 0 && after_step seq x (n - 1) in
  match s with
  | SMatch -> n = 0
  | SEdge -> false
  | SAll x | SIndex (_, x) | SRange (_, _, x) -> step x
  | SFields fs -> List.exists (fun (_, x) -> step x) fs
  | SUnion ms -> List.exists (fun m -> can_match seq m n) ms
  | SRec (sq, cur, lim) -> can_match (Some (sq, lim)) cur n
and after_step seq (x : sel) (n : int) : bool =
  match x with
  | SEdge ->
    (match seq with
     | None -> false
     | Some (sq, None) -> can_match (Some (sq, None)) sq n
     | Some (sq, Some d) -> int_of_z d >= 2 && can_match (Some (sq, Some (z_of_int (int_of_z d - 1)))) sq n)
  | SUnion ms -> List.exists (fun m -> after_step seq m n) ms
  | _ -> can_match seq x n

let do_wt id blocks root selt fn obs =
  let st = parse_blocks blocks in
  let root = dm_of_string root in
  let (s, _) = parse_sel selt 0 in
  let model_obs =
    (match wt (mk_squirks !current) (wfn_of fn) st fuel s [] root [] with
     | Ok (v, log) -> "ok:" ^ dump v ^ "#cb:" ^ String.concat "," (List.map (fun (p, x) -> path_text p ^ "=" ^ dump x) log)
     | Err e -> err_name e) ^ "||pure:1||new:0" in
  let verdict =
    if obs = "builderr" || obs = "selerr" then "skip" else
    match split_on "||" obs with
    | [o; pu; nw] ->
      let fails = ref [] in
      let add c = fails := c :: !fails in
      let outcome = strip_cb o in
      if pu <> "pure:1" then add "input_mutated";
      if nw <> "new:0" then add "walk_stored_blocks";
      if outcome = "panic" then add "walk_panic";
      if starts_with "ok:" outcome && not (String.contains outcome '!')
         && not (walk_rel (wfn_of fn) st root (dm_of_string (after "ok:" outcome))) then add "walk_result_not_update";
      (* every call of the callback was shown the node that sits at the reported path *)
      if starts_with "ok:" outcome && cb_of o <> "" then
        List.iter (fun e ->
            match String.index_opt e '=' with
            | None -> add "walk_callback_malformed"
            | Some i ->
              let pt = String.sub e 0 i and nd = String.sub e (i + 1) (String.length e - i - 1) in
              let segs = if pt = "." then [] else List.tl (String.split_on_char '/' pt) in
              if not (can_match None s (List.length segs)) && not (List.mem "walk_callback_off_matcher" !fails)
              then add "walk_callback_off_matcher";
              (match walk_at st root segs with
               | Some x when dump x = nd -> ()
               | _ -> if not (List.mem "walk_callback_not_at_path" !fails) then add "walk_callback_not_at_path"))
          (String.split_on_char ',' (cb_of o));
      if starts_with "ok:" outcome && String.contains outcome '!' then add "walk_result_nil_node";
      if fn = "id" && starts_with "ok:" outcome && not (String.contains outcome '!') then begin
        let r = dm_of_string (after "ok:" outcome) in
        let full v = erase (xexpand xfuel st v) in
        if not (dm_eqb (full r) (full root)) then add "walk_identity_differs"
        else if not (dm_eqb r root) then add "xform_walk_inlines_links"
      end;
      if !fails = [] then "ok" else "fail:" ^ String.concat "," (List.rev !fails)
    | _ -> "fail:malformed_obs" in
  print_string id; print_char '\t'; print_string model_obs; print_char '\t'; print_endline verdict

let () =
  iter_lines (fun line ->
      (* an observation the driver cannot even read (e.g. a stored block that does not load: "!load")
         is a failure of the property, not of the driver *)
      try
      match split_tab line with
      | [id; "quirks"; obs] ->
        current := List.filter_map (fun kv ->
            match String.split_on_char '=' kv with
            | [k; "1"] -> Some k
            | _ -> None) (String.split_on_char ',' obs);
        print_string id; print_char '\t'; print_string obs; print_char '\t'; print_endline "ok"
      | [id; "ft"; blocks; root; steps; links; obs] -> do_ft id blocks root steps links obs
      | [id; "wt"; blocks; root; s; fn; obs] -> do_wt id blocks root s fn obs
      | _ -> ()
      with Failure _ | Not_found | Invalid_argument _ ->
        (match split_tab line with
         | id :: _ -> print_string id; print_endline "\tunreadable\tfail:unreadable_observation"
         | [] -> ()))
