(* schema driver (C08, C09, C13): model observation + oracle verdict for each record.
   Record: id, op, schema (prefix text), level, route, tree, observation
     op = val  : C08 — a typed value given by its type-level tree; views, two routes, bytes
     op = build: C09 — one build at a level; accept/reject and, if accepted, both views
     op = both : C13 — the same build on both engines; observation = <bindnode>#<generated> *)
open Model
open Dmio

(* ------------------------------------------------------------------ schema text *)
let unx (s : string) : n list = bytes_of_hex (String.sub s 1 (String.length s - 1))

let kind_of_letter = function
  | 'b' -> KBool | 'i' -> KInt | 'd' -> KFloat | 's' -> KString | 'y' -> KBytes
  | 'k' -> KLink | 'l' -> KList | 'm' -> KMap | _ -> KNull

let rec parse_ty (toks : string list) : ty * string list =
  match toks with
  | [] -> failwith "schema: eof"
  | t :: rest ->
    (match t.[0] with
     | 'B' -> (TBool, rest) | 'D' -> (TFloat, rest) | 'S' -> (TString, rest)
     | 'Y' -> (TBytes, rest) | 'K' -> (TLink, rest) | 'A' -> (TAny, rest)
     | 'I' -> ((if t = "I8" then TInt W8 else TInt W64), rest)
     | 'L' -> let (e, rest) = parse_ty rest in (TList (t.[1] = '1', e), rest)
     | 'M' -> let (e, rest) = parse_ty rest in (TMap (t.[1] = '1', e), rest)
     | 'R' ->
       let (n, rest) = (match rest with c :: r -> (int_of_string c, r) | [] -> failwith "schema") in
       let (repr, rest) =
         (match t.[1] with
          | 'm' -> (SMap, rest) | 't' -> (STuple, rest) | 'p' -> (SListpairs, rest)
          | _ -> (match rest with d :: r -> (SStringjoin (unx d), r) | [] -> failwith "schema")) in
       let rec fields i acc rest =
         if i = 0 then (List.rev acc, rest) else
           (match rest with
            | nm :: key :: flags :: r ->
              let (ft, r) = parse_ty r in
              fields (i - 1) (({ f_name = unx nm; f_key = unx key; f_opt = flags.[0] = '1';
                                 f_nul = flags.[1] = '1' }, ft) :: acc) r
            | _ -> failwith "schema: field") in
       let (fs, rest) = fields n [] rest in
       (TStruct (repr, fs), rest)
     | 'U' ->
       let (n, rest) = (match rest with c :: r -> (int_of_string c, r) | [] -> failwith "schema") in
       let (repr, rest) = (match t.[1] with
           | 'k' -> (UKeyed, rest) | 'd' -> (UKinded, rest)
           | _ -> (match rest with dl :: r -> (UStringprefix (unx dl), r) | [] -> failwith "schema")) in
       let rec members i acc rest =
         if i = 0 then (List.rev acc, rest) else
           (match rest with
            | nm :: disc :: kd :: r ->
              let (mt, r) = parse_ty r in
              members (i - 1) (({ m_name = unx nm; m_disc = unx disc; m_kind = kind_of_letter kd.[0] }, mt) :: acc) r
            | _ -> failwith "schema: member") in
       let (ms, rest) = members n [] rest in
       (TUnion (repr, ms), rest)
     | 'E' ->
       let (n, rest) = (match rest with c :: r -> (int_of_string c, r) | [] -> failwith "schema") in
       let rec enums i acc rest =
         if i = 0 then (List.rev acc, rest) else
           (match rest with
            | nm :: st :: iv :: r ->
              enums (i - 1) ({ e_name = unx nm; e_str = unx st; e_int = z_of_int (int_of_string iv) } :: acc) r
            | _ -> failwith "schema: enum") in
       let (es, rest) = enums n [] rest in
       (TEnum (t.[1] = 'i', es), rest)
     | _ -> failwith ("schema: bad token " ^ t))

let ty_of_string (s : string) : ty =
  let toks = List.filter (fun x -> x <> "") (String.split_on_char ' ' s) in
  let (t, rest) = parse_ty toks in
  if rest <> [] then failwith "schema: trailing tokens"; t

(* ------------------------------------------------------------------ view printing (= lib.SchDump) *)
let rec print_ov (b : Buffer.t) (o : ov) : unit =
  match o with
  | OAbsent -> Buffer.add_char b 'u'
  | OErr false -> Buffer.add_string b "!e"
  | OErr true -> Buffer.add_string b "!p"
  | OScalar d ->
    (match d with
     | DNull -> Buffer.add_char b 'n'
     | DBool true -> Buffer.add_char b 't'
     | DBool false -> Buffer.add_char b 'f'
     | DInt z -> Buffer.add_char b 'i'; Buffer.add_string b (hex_of_z z)
     | DFloat f -> if f64_is_nan f then Buffer.add_string b "dnan"
       else (Buffer.add_char b 'd'; Buffer.add_string b (hex_of_n f))
     | DString s -> Buffer.add_char b 's'; add_hex_bytes b s
     | DBytes s -> Buffer.add_char b 'b'; add_hex_bytes b s
     | DLink s -> Buffer.add_char b 'l'; add_hex_bytes b s
     | _ -> Buffer.add_string b "!kind")
  | OList (len, its) ->
    Buffer.add_string b (Printf.sprintf "a%d(" (int_of_z len));
    List.iteri (fun pos (idx, x) ->
        let i = int_of_z idx in
        if i <> -1 then begin   (* lookup-only positions are not iterated *)
          if pos > 0 then Buffer.add_char b ',';
          if i <> pos then Buffer.add_string b (Printf.sprintf "@%d:" i);
          print_ov b x end) its;
    Buffer.add_char b ')'
  | OMap (len, ents) ->
    Buffer.add_string b (Printf.sprintf "m%d(" (int_of_z len));
    List.iteri (fun pos (k, x) ->
        if pos > 0 then Buffer.add_char b ',';
        Buffer.add_char b 'k'; add_hex_bytes b k; Buffer.add_char b '=';
        print_ov b x) ents;
    Buffer.add_char b ')'

let string_of_ov (o : ov) : string = let b = Buffer.create 256 in print_ov b o; Buffer.contents b

let rec sort_ov (o : ov) : ov =
  match o with
  | OList (len, its) -> OList (len, List.map (fun (i, x) -> (i, sort_ov x)) its)
  | OMap (len, ents) ->
    let ents = List.map (fun (k, x) -> (k, sort_ov x)) ents in
    OMap (len, List.stable_sort (fun (a, _) (b, _) ->
        if bytes_ltb a b then -1 else if bytes_ltb b a then 1 else 0) ents)
  | _ -> o

(* what the codecs need: lengths are counts, every read succeeds (iterator indices are not used) *)
let rec encodable (o : ov) : bool =
  match o with
  | OScalar _ -> true
  | OAbsent | OErr _ -> false
  | OList (len, its) -> int_of_z len = List.length its && List.for_all (fun (_, x) -> encodable x) its
  | OMap (len, ents) -> int_of_z len = List.length ents && List.for_all (fun (_, x) -> encodable x) ents

(* ------------------------------------------------------------------ quirks *)
let quirk_table : (string * (quirks -> bool -> quirks)) list = [
  "dup_field", (fun q b -> { q with q_dup_field = b });
  "dup_mapkey", (fun q b -> { q with q_dup_mapkey = b });
  "union_two", (fun q b -> { q with q_union_two = b });
  "rename_alias", (fun q b -> { q with q_rename_alias = b });
  "member_alias", (fun q b -> { q with q_member_alias = b });
  "listpairs_dup", (fun q b -> { q with q_listpairs_dup = b });
  "listpairs_short", (fun q b -> { q with q_listpairs_short = b });
  "listpairs_unknown_panic", (fun q b -> { q with q_listpairs_unknown_panic = b });
  "listpairs_iter_index", (fun q b -> { q with q_listpairs_iter_index = b });
  "enum_name_alias", (fun q b -> { q with q_enum_name_alias = b });
  "enum_type_unchecked", (fun q b -> { q with q_enum_type_unchecked = b });
  "kinded_enum_kind", (fun q b -> { q with q_kinded_enum_kind = b });
  "kinded_len", (fun q b -> { q with q_kinded_len = b });
  "nullable_sum_panic", (fun q b -> { q with q_nullable_sum_panic = b });
  "int_narrow", (fun q b -> { q with q_int_narrow = b });
  "union_any", (fun q b -> { q with q_union_any = b });
]

(* deviations of the generated code *)
let gen_quirk_table : (string * (quirks -> bool -> quirks)) list = [
  "gen_tuple_missing", (fun q b -> { q with qg_tuple_missing = b });
  "gen_nullable_kinded_null", (fun q b -> { q with qg_nullable_kinded_null = b });
  "gen_stringprefix_split", (fun q b -> { q with qg_stringprefix_split = b });
  "gen_map_kv_dup", (fun q b -> { q with qg_map_kv_dup = b });
]

(* ------------------------------------------------------------------ model observations *)
let views_str (e : engine) (q : quirks) (t : ty) (v : tv) : string =
  "T=" ^ string_of_ov (type_view e q t v) ^ "|R=" ^ string_of_ov (repr_view e q t v)

let build_obs (e : engine) (q : quirks) (lvl : level) (t : ty) (d : dm) : string =
  match build e q lvl t d with
  | BOk v -> "ok|" ^ views_str e q t v
  | BErr _ -> "err"
  | BPanic -> "panic"

let hex_enc (d : dm) : string option =
  match enc dagcbor_eopts d with Ok bs -> Some (hex_of_bytes bs) | Err _ -> None

let val_obs (e : engine) (q : quirks) (t : ty) (d : dm) : string =
  match tbuild e q t d with
  | BErr _ -> "builderr"
  | BPanic -> "buildpanic"
  | BOk v ->
    let b = Buffer.create 256 in
    let vs = views_str e q t v in
    Buffer.add_string b vs;
    let rvw = repr_view e q t v in
    (match ov_to_dm rvw with
     | Some rd when dm_wf rd ->
       (match rbuild e q t rd with
        | BErr _ -> Buffer.add_string b "|RB=err"
        | BPanic -> Buffer.add_string b "|RB=panic"
        | BOk v2 -> Buffer.add_string b (if views_str e q t v2 = vs then "|RB=same" else "|RB=diff"))
     | _ -> Buffer.add_string b "|RB=nocopy");
    let bytes1 = (match ov_enc_dm rvw with
        | Some rd -> (match enc dagcbor_eopts rd with Ok bs -> Some bs | Err _ -> None)
        | None -> None) in
    (match bytes1 with
     | None -> Buffer.add_string b "|B=encfail|RT=-"
     | Some bs ->
       Buffer.add_string b ("|B=ok:" ^ hex_of_bytes bs);
       (match decode (dagcbor_dopts false) bs with
        | Err _ -> Buffer.add_string b "|RT=decerr"
        | Ok (d2, _) ->
          (match rbuild e q t d2 with
           | BErr _ -> Buffer.add_string b "|RT=decerr"
           | BPanic -> Buffer.add_string b "|RT=decpanic"
           | BOk v3 ->
             let rvw3 = repr_view e q t v3 in
             let bytes3 = (match ov_enc_dm rvw3 with
                 | Some rd -> (match enc dagcbor_eopts rd with Ok bs -> Some bs | Err _ -> None)
                 | None -> None) in
             (match bytes3 with
              | None -> Buffer.add_string b "|RT=encfail"
              | Some bs3 ->
                if bs3 <> bs then Buffer.add_string b "|RT=diffbytes"
                else if string_of_ov (sort_ov (type_view e q t v3)) <> string_of_ov (sort_ov (type_view e q t v))
                then Buffer.add_string b "|RT=difftv"
                else Buffer.add_string b "|RT=same"))));
    Buffer.contents b

(* ------------------------------------------------------------------ SPEC expectations *)
let spec_views (t : ty) (v : tv) : string =
  "T=" ^ string_of_ov (tview_spec t v) ^ "|R=" ^ string_of_ov (ov_of_dm (repr_spec t v))

let spec_build (lvl : level) (t : ty) (d : dm) : string =
  match (match lvl with LType -> conforms_t t d | LRepr -> conforms_r t d) with
  | Some v -> "ok|" ^ spec_views t v
  | None -> "err"

let spec_val (t : ty) (d : dm) : string option =
  match conforms_t t d with
  | None -> None
  | Some v ->
    (match hex_enc (repr_spec t v) with
     | Some h -> Some (spec_views t v ^ "|RB=same|B=ok:" ^ h ^ "|RT=same")
     | None -> Some (spec_views t v ^ "|RB=same|B=encfail|RT=-"))

(* ------------------------------------------------------------------ which switches does the tree exhibit *)
(* The unchanged tree exhibits [pinned].  Once fixes are applied some switches are off in the tree.
   The record the tree exhibits is established once per run:
   (1) default: [pinned] with every switch whose finding is marked "fixed" for the property in
       known_findings.json switched off;
   (2) evidence: on the first cases of the run (the fixed corpus comes first and holds a witness per
       defect) a switch is voted ON when the implementation does what the specification-with-only-
       that-switch says and not what the specification says, OFF in the opposite case; any ON vote
       wins (a defect that still occurs somewhere is present), else any OFF vote, else the default.
   Per case the prediction is made with that record; if it does not reproduce the observation,
   records differing from it in one or two switches are tried (a regression that only partly
   resembles a finding matches none and is reported).  The classes of a deviation are a minimal set
   of switches that must stay on to reproduce the observation, so a repaired defect is never named
   unless it really recurs — and then its entry is "fixed", which is a violation. *)
let is_on (q : quirks) (set : quirks -> bool -> quirks) : bool = set q false <> q

let prop_of_op = function "val" | "valg" -> "C08" | "build" | "buildg" | "bytes" | "bytesg" -> "C09" | _ -> "C13"

let read_file (path : string) : string option =
  try let ic = open_in_bin path in
    let n = in_channel_length ic in let s = really_input_string ic n in close_in ic; Some s
  with _ -> None

let find_from (s : string) (pat : string) (from : int) : int option =
  let n = String.length s and m = String.length pat in
  let rec go i = if i + m > n then None else if String.sub s i m = pat then Some i else go (i + 1) in
  go from

(* (property, class) pairs whose status starts with "fixed" *)
let fixed_classes : (string * string) list Lazy.t = lazy (
  match read_file "known_findings.json" with
  | None -> []
  | Some s ->
    let field from name =
      match find_from s ("\"" ^ name ^ "\": \"") from with
      | None -> None
      | Some i -> let st = i + String.length name + 5 in
        (match String.index_from_opt s st '"' with
         | Some e -> Some (String.sub s st (e - st), e) | None -> None) in
    let rec go from acc =
      match field from "property" with
      | None -> acc
      | Some (prop, e1) ->
        (match field e1 "class", field e1 "status" with
         | Some (cls, _), Some (status, e3) ->
           let acc = if String.length status >= 5 && String.sub status 0 5 = "fixed" then (prop, cls) :: acc else acc in
           go e3 acc
         | _ -> acc) in
    go 0 [])

let default_record (prop : string) : quirks =
  List.fold_left (fun q (name, set) ->
      if List.mem (prop, name) (Lazy.force fixed_classes) then set q false else q)
    pinned (quirk_table @ gen_quirk_table)

let outcome (s : string) : string =
  if String.length s >= 2 && String.sub s 0 2 = "ok" then "ok" else s

let toggle (q : quirks) (set : quirks -> bool -> quirks) : quirks = set q (not (is_on q set))

let candidates (q0 : quirks) (table : (string * (quirks -> bool -> quirks)) list) : quirks list =
  let singles = List.map (fun (_, set) -> toggle q0 set) table in
  let doubles = List.concat (List.mapi (fun i (_, s1) ->
      List.filteri (fun j _ -> j > i) table |> List.map (fun (_, s2) -> toggle (toggle q0 s1) s2)) table) in
  (singles @ [qoff; pinned]) @ doubles

let settle (q0 : quirks) table (f : quirks -> string) (impl : string) : quirks option =
  if f q0 = impl then Some q0 else List.find_opt (fun q -> f q = impl) (candidates q0 table)

(* a minimal set of switches of [q] that must stay on for [proj (f _)] to remain [proj impl] *)
let explain table (q : quirks) (f : quirks -> string) (proj : string -> string) (impl : string) : string list =
  let (_, acc) = List.fold_left (fun (q, acc) (name, set) ->
      if is_on q set then
        (if proj (f (set q false)) = proj impl then (set q false, acc) else (q, name :: acc))
      else (q, acc)) (q, []) table in
  List.rev acc

let split_bar s = String.split_on_char '|' s

let component_classes (impl : string) (want : string) : string list =
  let a = split_bar impl and b = split_bar want in
  if List.length a <> List.length b then
    [if impl = "panic" || impl = "buildpanic" then "unexplained_panic"
     else if want = "err" then "unexplained_accept"
     else if impl = "err" then "unexplained_reject" else "unexplained_outcome"]
  else
    List.concat (List.map2 (fun x y ->
        if x = y then [] else
          let tag = (match String.index_opt x '=' with Some i -> String.sub x 0 i | None -> x) in
          ["unexplained_" ^ tag]) a b)

(* model observation and verdict for one engine: [proj] selects the part of an observation the
   property at hand judges *)
let judge (q0 : quirks) table (f : quirks -> string) (proj : string -> string) (impl : string) (want : string) : string * string =
  match settle q0 table f impl with
  | Some q ->
    let verdict =
      if proj impl = proj want then "ok" else
        (match explain table q f proj impl with
         | [] -> "fail:" ^ String.concat "," (component_classes (proj impl) (proj want))
         | l -> "fail:" ^ String.concat "," l) in
    (f q, verdict)
  | None ->
    (f q0, if proj impl = proj want then "ok"
     else "fail:" ^ String.concat "," (component_classes (proj impl) (proj want)))

let level_of = function "r" -> LRepr | _ -> LType

(* C09 judges the outcome and the type-level content of an accepted node (the representation view
   is C08's business): cut the observation before |R= *)
let strip_r (s : string) : string =
  let n = String.length s in
  let rec find i = if i + 3 > n then n else if String.sub s i 3 = "|R=" then i else find (i + 1) in
  String.sub s 0 (find 0)

let id_proj (s : string) = s

type case = { id : string; op : string; t : ty; d : dm; lv : level; route : string; obs : string }

(* the key+value defect of generated typed maps exists on the key+value route only *)
let gen_q (c : case) (q : quirks) : quirks = if c.route = "kv" then q else { q with qg_map_kv_dup = false }

type pc = Case of case | Bad of string * string

let parse_case (line : string) : pc option =
  match split_tab line with
  | id :: op :: stext :: lvl :: route :: vtext :: obs :: _ ->
    (try Some (Case { id; op; t = ty_of_string stext; d = dm_of_string vtext; lv = level_of lvl; route; obs })
     with Failure m -> Some (Bad (id, m)))
  | _ -> None

let split_obs (obs : string) : (string * string) option =
  match String.index_opt obs '#' with
  | None -> None
  | Some i -> Some (String.sub obs 0 i, String.sub obs (i + 1) (String.length obs - i - 1))

let bind_fun (c : case) : quirks -> string =
  match c.op with
  | "val" -> (fun q -> val_obs Bind q c.t c.d)
  | _ -> (fun q -> build_obs Bind q c.lv c.t c.d)

(* ---- evidence from the first cases of the run *)
let votes : (string, int * int) Hashtbl.t = Hashtbl.create 32

let vote name on =
  let (a, b) = try Hashtbl.find votes name with Not_found -> (0, 0) in
  Hashtbl.replace votes name (if on then (a + 1, b) else (a, b + 1))

let gather (c : case) : unit =
  if wf c.t then begin
    let bind_obs = (match c.op with "both" -> (match split_obs c.obs with Some (b, _) -> Some b | None -> None)
                                  | "valg" | "buildg" | "bytes" | "bytesg" -> None
                                  | _ -> Some c.obs) in
    (match bind_obs with
     | Some ob ->
       let f = bind_fun c in
       let base = f qoff in
       List.iter (fun (name, set) ->
           let a = f (set qoff true) in
           if a <> base then (if ob = a then vote name true else if ob = base then vote name false)) quirk_table
     | None -> ());
    (match c.op, (if c.op = "buildg" then Some ("", c.obs) else split_obs c.obs) with
     | ("both" | "buildg"), Some (_, og) when gen_supported c.t ->
       let f q = outcome (build_obs Gen (gen_q c q) c.lv c.t c.d) in
       let base = f qoff in
       List.iter (fun (name, set) ->
           let a = f (set qoff true) in
           if a <> base then (if outcome og = a then vote name true else if outcome og = base then vote name false))
         gen_quirk_table
     | _ -> ())
  end

let tree_record (prop : string) : quirks =
  List.fold_left (fun q (name, set) ->
      match (try Hashtbl.find votes name with Not_found -> (0, 0)) with
      | (a, _) when a > 0 -> set q true
      | (0, b) when b > 0 -> set q false
      | _ -> q) (default_record prop) (quirk_table @ gen_quirk_table)

(* the generated code: its deviations are modelled exactly where they only change an outcome, and up
   to the outcome (ok / err / panic) where a node is wrongly accepted *)
let judge_gen (q0 : quirks) (fg : quirks -> string) (proj : string -> string) (og : string) (want : string) : string * string =
  let unexplained () =
    "fail:" ^ String.concat "," (List.map (fun c -> "gen_" ^ c) (component_classes (proj og) (proj want))) in
  match settle q0 gen_quirk_table fg og with
  | Some q -> (fg q, if proj og = proj want then "ok" else
                 (match explain gen_quirk_table q fg proj og with
                  | [] -> unexplained () | l -> "fail:" ^ String.concat "," l))
  | None ->
    if proj og = proj want then (fg q0, "ok") else
      (match settle q0 gen_quirk_table (fun q -> outcome (fg q)) (outcome og) with
       | Some q ->
         (match explain gen_quirk_table q fg outcome og with
          | [] -> (fg q0, unexplained ()) | l -> (fg q0, "fail:" ^ String.concat "," l))
       | None -> (fg q0, unexplained ()))

let process (q0 : quirks) (c : case) : unit =
  let out model verdict =
    print_string c.id; print_char '\t'; print_string model; print_char '\t'; print_endline verdict in
  let t = c.t and d = c.d and lv = c.lv and obs = c.obs in
  match c.op with
  | "val" ->
    let f q = val_obs Bind q t d in
    if obs = "schemaerr" || obs = "protoerr" then out (f q0) "fail:harness_schema"
    else if not (wf t) then out (f q0) "skip"
    else (match spec_val t d with
        | None -> out (f q0) "fail:generator_nonconforming"
        | Some want ->
          (match conforms_t t d with
           | Some v when not (has_type t v) -> out (f q0) "fail:spec_has_type"
           | _ -> let (m, v) = judge q0 quirk_table f id_proj obs want in out m v))
  | "valg" ->
    (* C08 on freshly generated code *)
    let f q = val_obs Gen (gen_q c q) t d in
    if obs = "nobuild" then out (f q0) "fail:gen_does_not_compile"
    else if not (wf t && gen_supported t) then out (f q0) "skip"
    else (match spec_val t d with
        | None -> out (f q0) "fail:generator_nonconforming"
        | Some want -> let (m, v) = judge_gen q0 f id_proj obs want in out m v)
  | "buildg" ->
    (* C09 on freshly generated code *)
    let f q = build_obs Gen (gen_q c q) lv t d in
    if obs = "nobuild" then out (f q0) "fail:gen_does_not_compile"
    else if not (wf t && gen_supported t) then out (f q0) "skip"
    else let (m, v) = judge_gen q0 f strip_r obs (spec_build lv t d) in out m v
  | "bytes" | "bytesg" ->
    (* dag-cbor bytes decoded by the strict decoder straight into the representation builder; the model
       decodes to a tree (Codec/Cbor.v, repaired tree) and feeds rbuild; the SPEC is C09_bytes_accept_iff *)
    let gen = (c.op = "bytesg") in
    let bs = (match d with DBytes s -> s | _ -> failwith "bytes record without bytes") in
    let dec = (match decode (dagcbor_dopts true) bs with Ok (d', _) -> Some d' | Err _ -> None) in
    let f q = (match dec with
        | Some d' -> build_obs (if gen then Gen else Bind) (if gen then gen_q c q else q) LRepr t d'
        | None -> "err") in
    let want = (match dec with Some d' -> spec_build LRepr t d' | None -> "err") in
    let rename v =
      if String.length v > 5 && String.sub v 0 5 = "fail:" then
        "fail:" ^ String.concat "," (List.map (fun cl ->
            let cl = if String.length cl > 4 && String.sub cl 0 4 = "gen_" && String.length cl > 15 && String.sub cl 4 11 = "unexplained"
              then String.sub cl 4 (String.length cl - 4) else cl in
            match cl with
            | "unexplained_accept" -> "bytes_accept_nonconforming"
            | "unexplained_reject" -> "bytes_reject_conforming"
            | "unexplained_panic" -> "bytes_panic"
            | "unexplained_outcome" | "unexplained_T" | "unexplained_ok" -> "bytes_value"
            | x -> x) (String.split_on_char ',' (String.sub v 5 (String.length v - 5))))
      else v in
    if obs = "nobuild" then out (f q0) "fail:gen_does_not_compile"
    else if obs = "schemaerr" || obs = "protoerr" then out (f q0) "fail:harness_schema"
    else if not (wf t) || (gen && not (gen_supported t)) then out (f q0) "skip"
    else
      let (m, v) = if gen then judge_gen q0 f strip_r obs want else judge q0 quirk_table f strip_r obs want in
      out m (rename v)
  | "build" ->
    let f q = build_obs Bind q lv t d in
    if obs = "schemaerr" || obs = "protoerr" then out (f q0) "fail:harness_schema"
    else if not (wf t) then out (f q0) "skip"
    else let (m, v) = judge q0 quirk_table f strip_r obs (spec_build lv t d) in out m v
  | "both" ->
    let fb q = build_obs Bind q lv t d in
    let fg q = build_obs Gen (gen_q c q) lv t d in
    (* a type-level tree can denote a struct value that has no tuple / stringjoin representation (an
       absent field before a present one; a delimiter inside a field): its representation view is
       unspecified and the engines show different things — out of scope for the comparison *)
    let unrepresentable =
      (match (match lv with LType -> conforms_t t d | LRepr -> conforms_r t d) with
       | Some v -> not (has_type t v) | None -> false) in
    if not (wf t && gen_supported t) || unrepresentable then out (fb q0 ^ "#" ^ fg q0) "skip" else
      (match split_obs obs with
       | None -> out (fb q0 ^ "#" ^ fg q0)
                   ("fail:" ^ (if obs = "nobuild" then "gen_does_not_compile" else "harness_schema"))
       | Some (ob, og) ->
         let want = spec_build lv t d in
         let (mb, vb) = judge q0 quirk_table fb id_proj ob want in
         let (mg, vg) = judge_gen q0 fg id_proj og want in
         let model = mb ^ "#" ^ mg in
         if ob = og then out model "ok"
         else begin
           let cls v = if String.length v > 5 && String.sub v 0 5 = "fail:" then
               String.split_on_char ',' (String.sub v 5 (String.length v - 5)) else [] in
           match cls vb @ cls vg with
           | [] -> out model "fail:engines_differ"
           | l -> out model ("fail:" ^ String.concat "," l)
         end)
  | _ -> ()

let () =
  (* buffer the head of the run (the corpus and the first generated schemas), establish the tree's
     record from it, then stream *)
  let head_max = 3000 in
  let head = ref [] and n = ref 0 in
  (try while !n < head_max do head := input_line stdin :: !head; incr n done with End_of_file -> ());
  let head = List.rev !head in
  let parsed = List.filter_map parse_case head in
  List.iter (function Case c -> (try gather c with Failure _ -> ()) | Bad _ -> ()) parsed;
  let prop = (match List.find_opt (function Case _ -> true | _ -> false) parsed with
      | Some (Case c) -> prop_of_op c.op | _ -> "C08") in
  let q0 = tree_record prop in
  let handle = function
    | Case c -> (try process q0 c with Failure m ->
        print_string c.id; print_string "\tdriver-error:"; print_string m; print_endline "\tfail:driver_error")
    | Bad (id, m) -> print_string id; print_string "\tdriver-error:"; print_string m; print_endline "\tfail:driver_error" in
  List.iter handle parsed;
  iter_lines (fun line -> match parse_case line with Some r -> handle r | None -> ())
