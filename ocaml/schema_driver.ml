(* schema driver (C08, C09, C13): model observation + oracle verdict for each record.
   Record: id, op, schema (prefix text), level, route, tree, observation
     op = val  : C08 — a typed value given by its type-level tree; views, two routes, bytes
     op = build: C09 — one build at a level; accept/reject and, if accepted, both views
     op = both : C13 — the same build on both engines; observation = <bindnode>#<generated> *)
open Model
open Dmio

(* ------------------------------------------------------------------ schema text *)
let unx (s : string) : n list = bytes_of_hex (String.sub s 1 (String.length s - 1))

let kind_of_letter = function
  | 'b' -> KBool | 'i' -> KInt | 'd' -> KFloat | 's' -> KString | 'y' -> KBytes
  | 'k' -> KLink | 'l' -> KList | 'm' -> KMap | _ -> KNull

let rec parse_ty (toks : string list) : ty * string list =
  match toks with
  | [] -> failwith "schema: eof"
  | t :: rest ->
    (match t.[0] with
     | 'B' -> (TBool, rest) | 'D' -> (TFloat, rest) | 'S' -> (TString, rest)
     | 'Y' -> (TBytes, rest) | 'K' -> (TLink, rest) | 'A' -> (TAny, rest)
     | 'I' -> ((if t = "I8" then TInt W8 else TInt W64), rest)
     | 'L' -> let (e, rest) = parse_ty rest in (TList (t.[1] = '1', e), rest)
     | 'M' -> let (e, rest) = parse_ty rest in (TMap (t.[1] = '1', e), rest)
     | 'R' ->
       let (n, rest) = (match rest with c :: r -> (int_of_string c, r) | [] -> failwith "schema") in
       let (repr, rest) =
         (match t.[1] with
          | 'm' -> (SMap, rest) | 't' -> (STuple, rest) | 'p' -> (SListpairs, rest)
          | _ -> (match rest with d :: r -> (SStringjoin (unx d), r) | [] -> failwith "schema")) in
       let rec fields i acc rest =
         if i = 0 then (List.rev acc, rest) else
           (match rest with
            | nm :: key :: flags :: r ->
              let (ft, r) = parse_ty r in
              fields (i - 1) (({ f_name = unx nm; f_key = unx key; f_opt = flags.[0] = '1';
                                 f_nul = flags.[1] = '1' }, ft) :: acc) r
            | _ -> failwith "schema: field") in
       let (fs, rest) = fields n [] rest in
       (TStruct (repr, fs), rest)
     | 'U' ->
       let (n, rest) = (match rest with c :: r -> (int_of_string c, r) | [] -> failwith "schema") in
       let repr = (match t.[1] with 'k' -> UKeyed | 'd' -> UKinded | _ -> UStringprefix) in
       let rec members i acc rest =
         if i = 0 then (List.rev acc, rest) else
           (match rest with
            | nm :: disc :: kd :: r ->
              let (mt, r) = parse_ty r in
              members (i - 1) (({ m_name = unx nm; m_disc = unx disc; m_kind = kind_of_letter kd.[0] }, mt) :: acc) r
            | _ -> failwith "schema: member") in
       let (ms, rest) = members n [] rest in
       (TUnion (repr, ms), rest)
     | 'E' ->
       let (n, rest) = (match rest with c :: r -> (int_of_string c, r) | [] -> failwith "schema") in
       let rec enums i acc rest =
         if i = 0 then (List.rev acc, rest) else
           (match rest with
            | nm :: st :: iv :: r ->
              enums (i - 1) ({ e_name = unx nm; e_str = unx st; e_int = z_of_int (int_of_string iv) } :: acc) r
            | _ -> failwith "schema: enum") in
       let (es, rest) = enums n [] rest in
       (TEnum (t.[1] = 'i', es), rest)
     | _ -> failwith ("schema: bad token " ^ t))

let ty_of_string (s : string) : ty =
  let toks = List.filter (fun x -> x <> "") (String.split_on_char ' ' s) in
  let (t, rest) = parse_ty toks in
  if rest <> [] then failwith "schema: trailing tokens"; t

(* ------------------------------------------------------------------ view printing (= lib.SchDump) *)
let rec print_ov (b : Buffer.t) (o : ov) : unit =
  match o with
  | OAbsent -> Buffer.add_char b 'u'
  | OErr false -> Buffer.add_string b "!e"
  | OErr true -> Buffer.add_string b "!p"
  | OScalar d ->
    (match d with
     | DNull -> Buffer.add_char b 'n'
     | DBool true -> Buffer.add_char b 't'
     | DBool false -> Buffer.add_char b 'f'
     | DInt z -> Buffer.add_char b 'i'; Buffer.add_string b (hex_of_z z)
     | DFloat f -> if f64_is_nan f then Buffer.add_string b "dnan"
       else (Buffer.add_char b 'd'; Buffer.add_string b (hex_of_n f))
     | DString s -> Buffer.add_char b 's'; add_hex_bytes b s
     | DBytes s -> Buffer.add_char b 'b'; add_hex_bytes b s
     | DLink s -> Buffer.add_char b 'l'; add_hex_bytes b s
     | _ -> Buffer.add_string b "!kind")
  | OList (len, its) ->
    Buffer.add_string b (Printf.sprintf "a%d(" (int_of_z len));
    List.iteri (fun pos (idx, x) ->
        let i = int_of_z idx in
        if i <> -1 then begin   (* lookup-only positions are not iterated *)
          if pos > 0 then Buffer.add_char b ',';
          if i <> pos then Buffer.add_string b (Printf.sprintf "@%d:" i);
          print_ov b x end) its;
    Buffer.add_char b ')'
  | OMap (len, ents) ->
    Buffer.add_string b (Printf.sprintf "m%d(" (int_of_z len));
    List.iteri (fun pos (k, x) ->
        if pos > 0 then Buffer.add_char b ',';
        Buffer.add_char b 'k'; add_hex_bytes b k; Buffer.add_char b '=';
        print_ov b x) ents;
    Buffer.add_char b ')'

let string_of_ov (o : ov) : string = let b = Buffer.create 256 in print_ov b o; Buffer.contents b

let rec sort_ov (o : ov) : ov =
  match o with
  | OList (len, its) -> OList (len, List.map (fun (i, x) -> (i, sort_ov x)) its)
  | OMap (len, ents) ->
    let ents = List.map (fun (k, x) -> (k, sort_ov x)) ents in
    OMap (len, List.stable_sort (fun (a, _) (b, _) ->
        if bytes_ltb a b then -1 else if bytes_ltb b a then 1 else 0) ents)
  | _ -> o

(* what the codecs need: lengths are counts, every read succeeds (iterator indices are not used) *)
let rec encodable (o : ov) : bool =
  match o with
  | OScalar _ -> true
  | OAbsent | OErr _ -> false
  | OList (len, its) -> int_of_z len = List.length its && List.for_all (fun (_, x) -> encodable x) its
  | OMap (len, ents) -> int_of_z len = List.length ents && List.for_all (fun (_, x) -> encodable x) ents

(* ------------------------------------------------------------------ quirks *)
let quirk_table : (string * (quirks -> bool -> quirks)) list = [
  "dup_field", (fun q b -> { q with q_dup_field = b });
  "dup_mapkey", (fun q b -> { q with q_dup_mapkey = b });
  "union_two", (fun q b -> { q with q_union_two = b });
  "rename_alias", (fun q b -> { q with q_rename_alias = b });
  "member_alias", (fun q b -> { q with q_member_alias = b });
  "listpairs_dup", (fun q b -> { q with q_listpairs_dup = b });
  "listpairs_short", (fun q b -> { q with q_listpairs_short = b });
  "listpairs_unknown_panic", (fun q b -> { q with q_listpairs_unknown_panic = b });
  "listpairs_iter_index", (fun q b -> { q with q_listpairs_iter_index = b });
  "enum_name_alias", (fun q b -> { q with q_enum_name_alias = b });
  "enum_type_unchecked", (fun q b -> { q with q_enum_type_unchecked = b });
  "kinded_enum_kind", (fun q b -> { q with q_kinded_enum_kind = b });
  "kinded_len", (fun q b -> { q with q_kinded_len = b });
  "nullable_sum_panic", (fun q b -> { q with q_nullable_sum_panic = b });
  "int_narrow", (fun q b -> { q with q_int_narrow = b });
  "union_any", (fun q b -> { q with q_union_any = b });
]

(* deviations of the generated code *)
let gen_quirk_table : (string * (quirks -> bool -> quirks)) list = [
  "gen_tuple_missing", (fun q b -> { q with qg_tuple_missing = b });
  "gen_nullable_kinded_null", (fun q b -> { q with qg_nullable_kinded_null = b });
  "gen_stringprefix_split", (fun q b -> { q with qg_stringprefix_split = b });
]

(* ------------------------------------------------------------------ model observations *)
let views_str (e : engine) (q : quirks) (t : ty) (v : tv) : string =
  "T=" ^ string_of_ov (type_view e q t v) ^ "|R=" ^ string_of_ov (repr_view e q t v)

let build_obs (e : engine) (q : quirks) (lvl : level) (t : ty) (d : dm) : string =
  match build e q lvl t d with
  | BOk v -> "ok|" ^ views_str e q t v
  | BErr _ -> "err"
  | BPanic -> "panic"

let hex_enc (d : dm) : string option =
  match enc dagcbor_eopts d with Ok bs -> Some (hex_of_bytes bs) | Err _ -> None

let val_obs (e : engine) (q : quirks) (t : ty) (d : dm) : string =
  match tbuild e q t d with
  | BErr _ -> "builderr"
  | BPanic -> "buildpanic"
  | BOk v ->
    let b = Buffer.create 256 in
    let vs = views_str e q t v in
    Buffer.add_string b vs;
    let rvw = repr_view e q t v in
    (match ov_to_dm rvw with
     | Some rd when dm_wf rd ->
       (match rbuild e q t rd with
        | BErr _ -> Buffer.add_string b "|RB=err"
        | BPanic -> Buffer.add_string b "|RB=panic"
        | BOk v2 -> Buffer.add_string b (if views_str e q t v2 = vs then "|RB=same" else "|RB=diff"))
     | _ -> Buffer.add_string b "|RB=nocopy");
    let bytes1 = (match ov_enc_dm rvw with
        | Some rd -> (match enc dagcbor_eopts rd with Ok bs -> Some bs | Err _ -> None)
        | None -> None) in
    (match bytes1 with
     | None -> Buffer.add_string b "|B=encfail|RT=-"
     | Some bs ->
       Buffer.add_string b ("|B=ok:" ^ hex_of_bytes bs);
       (match decode (dagcbor_dopts false) bs with
        | Err _ -> Buffer.add_string b "|RT=decerr"
        | Ok (d2, _) ->
          (match rbuild e q t d2 with
           | BErr _ -> Buffer.add_string b "|RT=decerr"
           | BPanic -> Buffer.add_string b "|RT=decpanic"
           | BOk v3 ->
             let rvw3 = repr_view e q t v3 in
             let bytes3 = (match ov_enc_dm rvw3 with
                 | Some rd -> (match enc dagcbor_eopts rd with Ok bs -> Some bs | Err _ -> None)
                 | None -> None) in
             (match bytes3 with
              | None -> Buffer.add_string b "|RT=encfail"
              | Some bs3 ->
                if bs3 <> bs then Buffer.add_string b "|RT=diffbytes"
                else if string_of_ov (sort_ov (type_view e q t v3)) <> string_of_ov (sort_ov (type_view e q t v))
                then Buffer.add_string b "|RT=difftv"
                else Buffer.add_string b "|RT=same"))));
    Buffer.contents b

(* ------------------------------------------------------------------ SPEC expectations *)
let spec_views (t : ty) (v : tv) : string =
  "T=" ^ string_of_ov (tview_spec t v) ^ "|R=" ^ string_of_ov (ov_of_dm (repr_spec t v))

let spec_build (lvl : level) (t : ty) (d : dm) : string =
  match (match lvl with LType -> conforms_t t d | LRepr -> conforms_r t d) with
  | Some v -> "ok|" ^ spec_views t v
  | None -> "err"

let spec_val (t : ty) (d : dm) : string option =
  match conforms_t t d with
  | None -> None
  | Some v ->
    (match hex_enc (repr_spec t v) with
     | Some h -> Some (spec_views t v ^ "|RB=same|B=ok:" ^ h ^ "|RT=same")
     | None -> Some (spec_views t v ^ "|RB=same|B=encfail|RT=-"))

(* ------------------------------------------------------------------ which switches does the tree exhibit *)
(* The unchanged tree exhibits [pinned].  A tree in which some of the defects have been repaired
   exhibits [pinned] with those switches off: per case we look for the pinned record, the fully
   repaired one, and every record with one or two switches turned off, and predict with the first
   that reproduces the implementation's observation (a regression that only partly resembles a
   finding matches none of them and is reported). *)
let candidates (table : (string * (quirks -> bool -> quirks)) list) : quirks list =
  let singles = List.map (fun (_, set) -> set pinned false) table in
  let doubles = List.concat (List.mapi (fun i (_, s1) ->
      List.filteri (fun j _ -> j > i) table |> List.map (fun (_, s2) -> s2 (s1 pinned false) false)) table) in
  (qoff :: singles) @ doubles

let settle table (f : quirks -> string) (impl : string) : quirks option =
  if f pinned = impl then Some pinned else List.find_opt (fun q -> f q = impl) (candidates table)

(* classes of a deviation: the switches that are on in [q] and matter for this case *)
let relevant_at table (q : quirks) (f : quirks -> string) : string list =
  let base = f q and base0 = f qoff in
  List.filter_map (fun (name, set) ->
      if set q false <> q && (f (set q false) <> base || f (set qoff true) <> base0) then Some name else None) table

let outcome (s : string) : string =
  if String.length s >= 2 && String.sub s 0 2 = "ok" then "ok" else s

let split_bar s = String.split_on_char '|' s

let component_classes (impl : string) (want : string) : string list =
  let a = split_bar impl and b = split_bar want in
  if List.length a <> List.length b then
    [if impl = "panic" || impl = "buildpanic" then "unexplained_panic"
     else if want = "err" then "unexplained_accept"
     else if impl = "err" then "unexplained_reject" else "unexplained_outcome"]
  else
    List.concat (List.map2 (fun x y ->
        if x = y then [] else
          let tag = (match String.index_opt x '=' with Some i -> String.sub x 0 i | None -> x) in
          ["unexplained_" ^ tag]) a b)

(* model observation and verdict for one engine: [proj] selects the part of an observation the
   property at hand judges *)
let judge table (f : quirks -> string) (proj : string -> string) (impl : string) (want : string) : string * string =
  match settle table f impl with
  | Some q ->
    let verdict =
      if proj impl = proj want then "ok" else
        (match relevant_at table q (fun q -> proj (f q)) with
         | [] -> "fail:" ^ String.concat "," (component_classes (proj impl) (proj want))
         | l -> "fail:" ^ String.concat "," l) in
    (f q, verdict)
  | None ->
    (f pinned, if proj impl = proj want then "ok"
     else "fail:" ^ String.concat "," (component_classes (proj impl) (proj want)))

let level_of = function "r" -> LRepr | _ -> LType

(* C09 judges the outcome and the type-level content of an accepted node (the representation view
   is C08's business): cut the observation before |R= *)
let strip_r (s : string) : string =
  let n = String.length s in
  let rec find i = if i + 3 > n then n else if String.sub s i 3 = "|R=" then i else find (i + 1) in
  String.sub s 0 (find 0)

let id_proj (s : string) = s

let () =
  iter_lines (fun line ->
    match split_tab line with
    | id :: op :: stext :: lvl :: _route :: vtext :: obs :: _ ->
      let out model verdict =
        print_string id; print_char '\t'; print_string model; print_char '\t'; print_endline verdict in
      (try
        let t = ty_of_string stext in
        let d = dm_of_string vtext in
        let lv = level_of lvl in
        (match op with
         | "val" ->
           let f q = val_obs Bind q t d in
           if obs = "schemaerr" || obs = "protoerr" then out (f pinned) "fail:harness_schema"
           else if not (wf t) then out (f pinned) "skip"
           else (match spec_val t d with
               | None -> out (f pinned) "fail:generator_nonconforming"
               | Some want ->
                 (match conforms_t t d with
                  | Some v when not (has_type t v) -> out (f pinned) "fail:spec_has_type"
                  | _ -> let (m, v) = judge quirk_table f id_proj obs want in out m v))
         | "build" ->
           let f q = build_obs Bind q lv t d in
           if obs = "schemaerr" || obs = "protoerr" then out (f pinned) "fail:harness_schema"
           else if not (wf t) then out (f pinned) "skip"
           else let (m, v) = judge quirk_table f strip_r obs (spec_build lv t d) in out m v
         | "both" ->
           let fb q = build_obs Bind q lv t d in
           let fg q = build_obs Gen q lv t d in
           if not (wf t && gen_supported t) then out (fb pinned ^ "#" ^ fg pinned) "skip" else
           (match String.index_opt obs '#' with
            | None -> out (fb pinned ^ "#" ^ fg pinned)
                        ("fail:" ^ (if obs = "nobuild" then "gen_does_not_compile" else "harness_schema"))
            | Some i ->
              let ob = String.sub obs 0 i and og = String.sub obs (i + 1) (String.length obs - i - 1) in
              let want = spec_build lv t d in
              let (mb, vb) = judge quirk_table fb id_proj ob want in
              (* the generated code's deviations are modelled up to the outcome (ok / err / panic) *)
              let (mg, vg) =
                (match settle gen_quirk_table fg og with
                 | Some q -> (fg q, if og = want then "ok" else
                                (match relevant_at gen_quirk_table q fg with
                                 | [] -> "fail:" ^ String.concat "," (List.map (fun c -> "gen_" ^ c) (component_classes og want))
                                 | l -> "fail:" ^ String.concat "," l))
                 | None ->
                   if og = want then (fg pinned, "ok") else
                   (match settle gen_quirk_table (fun q -> outcome (fg q)) (outcome og) with
                    | Some q ->
                      (match relevant_at gen_quirk_table q (fun q -> outcome (fg q)) with
                       | [] -> (fg pinned, "fail:" ^ String.concat "," (List.map (fun c -> "gen_" ^ c) (component_classes og want)))
                       | l -> (fg pinned, "fail:" ^ String.concat "," l))
                    | None -> (fg pinned, "fail:" ^ String.concat "," (List.map (fun c -> "gen_" ^ c) (component_classes og want))))) in
              let model = mb ^ "#" ^ mg in
              if ob = og then out model "ok"
              else begin
                let cls v = if String.length v > 5 && String.sub v 0 5 = "fail:" then
                    String.split_on_char ',' (String.sub v 5 (String.length v - 5)) else [] in
                match cls vb @ cls vg with
                | [] -> out model "fail:engines_differ"
                | l -> out model ("fail:" ^ String.concat "," l)
              end)
         | _ -> ())
      with Failure m -> out ("driver-error:" ^ m) "fail:driver_error")
    | _ -> ())
