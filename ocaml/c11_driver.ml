(* c11 driver: runs each history on the heap model (coq/Heap/BasicHeap.v + Script.v, extracted),
   prints the model's prediction of the harness observation, and the oracle verdict:
   on a Legal history no finished node may ever re-dump differently from its first dump, and the
   two dumps taken each time must agree.

   record:  id \t script \t observation
   script:  ops separated by ' ', fields by ':'        (see harness/cmd/c11/main.go)
   observation: steps separated by '|'; a step is  ob{;item}  with items
        <i>=<dump>   first dump of node register i      (<i>~<dump> when it contains a streamBytes)
        c<i>=<dump>  register i now dumps differently from its first dump
        r<i>         the two dumps of register i taken at this step differ
   the first record is a probe of the streamBytes quirk; it selects the model configuration. *)
open Model
open Dmio

let cfg = ref cfg_pinned

(* ---------------------------------------------------------------- printing *)

let kind_letter = function
  | KdNull -> 'n' | KdBool -> 'b' | KdInt -> 'i' | KdFloat -> 'd' | KdString -> 's' | KdBytes -> 'y'
  | KdLink -> 'l' | KdList -> 'a' | KdMap -> 'm' | KdInvalid -> 'x'

let add_tok b s = if Buffer.length b > 0 then Buffer.add_char b ','; Buffer.add_string b s

let scalar_tok = function
  | SBool true -> "t" | SBool false -> "f"
  | SInt z -> "i" ^ hex_of_z z
  | SFloat f -> "d" ^ hex_of_n f
  | SString s -> "s" ^ hex_of_bytes s
  | SLink c -> "l" ^ hex_of_bytes c

let rec print_dn b = function
  | DnErr t -> add_tok b ("!" ^ string_of_int (int_of_nat t))
  | DnNull -> add_tok b "n"
  | DnScalar s -> add_tok b (scalar_tok s)
  | DnBytes (x, None) -> add_tok b ("b" ^ hex_of_bytes x)
  | DnBytes (x, Some l) -> add_tok b ("b" ^ hex_of_bytes x ^ "/" ^ hex_of_bytes l)
  | DnList (n, items, ks) ->
    add_tok b ("a" ^ string_of_int (int_of_z n));
    List.iter (print_dn b) items;
    add_tok b ("?" ^ String.init (List.length ks) (fun i -> kind_letter (List.nth ks i)))
  | DnMap (n, ents, ks, ps) ->
    add_tok b ("m" ^ string_of_int (int_of_z n));
    List.iter (fun (k, d) -> add_tok b ("k" ^ hex_of_bytes k); print_dn b d) ents;
    add_tok b ("?" ^ String.init (List.length ks) (fun i -> kind_letter (List.nth ks i))
               ^ "/" ^ String.init (List.length ps) (fun i -> kind_letter (List.nth ps i)))

let string_of_dn d = let b = Buffer.create 64 in print_dn b d; Buffer.contents b

let errc_name = function
  | EWrongKind -> "wrong_kind" | ERepeatedKey -> "repeated_key" | ENotExists -> "not_exists" | EOther -> "other"

let sobs_text = function
  | OOk -> "ok" | OErrC e -> "e:" ^ errc_name e | OPanic -> "panic" | ONoNode -> "nonode"
  | OCount n -> "cnt" ^ string_of_int (int_of_nat n) | OBadReg -> "badreg" | OFuel -> "fuel"
  | OData bs -> "d:" ^ hex_of_bytes bs
  | OPos z -> "p:" ^ string_of_int (int_of_z z)

(* ---------------------------------------------------------------- parsing *)

let proto_of = function
  | "any" -> PrAny | "map" -> PrMap | "list" -> PrList | "bytes" -> PrBytes
  | "bool" -> PrScalar KBool | "int" -> PrScalar KInt | "float" -> PrScalar KFloat
  | "string" -> PrScalar KString | "link" -> PrScalar KLink
  | s -> failwith ("proto " ^ s)

let sval_of (t : string) : sval =
  let body = String.sub t 1 (String.length t - 1) in
  match t.[0] with
  | 'n' -> AvNull
  | 't' -> AvScalar (SBool true)
  | 'f' -> AvScalar (SBool false)
  | 'i' -> AvScalar (SInt (z_of_hex body))
  | 'd' -> AvScalar (SFloat (n_of_hex body))
  | 's' -> AvScalar (SString (bytes_of_hex body))
  | 'l' -> AvScalar (SLink (bytes_of_hex body))
  | _ -> failwith ("sval " ^ t)

let dm_of_commas (s : string) : dm = dm_of_string (String.map (fun c -> if c = ',' then ' ' else c) s)

let nat i = nat_of_int (int_of_string i)

let path_of (s : string) : seg list =
  if s = "-" then [] else
  List.map (fun t ->
      let body = String.sub t 1 (String.length t - 1) in
      if t.[0] = 's' then SegS (bytes_of_hex body) else SegI (nat body))
    (String.split_on_char '/' s)

let sop_of (s : string) : sop =
  match String.split_on_char ':' s with
  | ["nb"; p] -> SNewBuilder (proto_of p)
  | ["bm"; h; n] -> SBeginMap (nat h, nat n)
  | ["bl"; h; n] -> SBeginList (nat h, nat n)
  | ["ae"; h; k] -> SAssembleEntry (nat h, bytes_of_hex k)
  | ["ak"; h] -> SAssembleKey (nat h)
  | ["av"; h] -> SAssembleValue (nat h)
  | ["as"; h; t] -> SAssign (nat h, sval_of t)
  | ["ab"; h; r] -> SAssignBytes (nat h, nat r)
  | ["an"; h; r] -> SAssignNode (nat h, nat r)
  | ["fi"; h] -> SFinish (nat h)
  | ["bu"; h] -> SBuild (nat h)
  | ["rs"; h] -> SReset (nat h)
  | ["sl"; x] -> SNewSlice (bytes_of_hex x)
  | ["nby"; r] -> SNewBytesNode (nat r)
  | ["nst"; r] -> SNewStreamNode (nat r)
  | ["ns"; t] -> SNewScalarNode (sval_of t)
  | ["fo"; v] -> SForeign (dm_of_commas v)
  | ["mk"; _; v] -> SMake (dm_of_commas v)
  | ["cp"; r; p] -> SCopy (nat r, proto_of p)
  | ["lk"; r; k] -> SLookupS (nat r, bytes_of_hex k)
  | ["li"; r; i] -> SLookupI (nat r, z_of_int (int_of_string i))
  | ["mt"; r; f; t] -> SMatch (nat r, z_of_int (int_of_string f), z_of_int (int_of_string t))
  | ["tf"; r; p; x] -> STransform (nat r, path_of p, nat x)
  | ["en"; r] -> SEncode (nat r)
  | ["wk"; r] -> SWalk (nat r)
  | ["cw"; r; i; b] -> SCallerWrite (nat r, nat i, n_of_int (int_of_string b))
  | ["lb"; r] -> SLargeBytes (nat r)
  | ["rr"; r; k] -> SReaderRead (nat r, if k = "a" then None else Some (nat k))
  | ["sk"; r; o; w] -> SReaderSeek (nat r, z_of_int (int_of_string o),
                                    (match w with "s" -> SeekStart | "c" -> SeekCurrent | _ -> SeekEnd))
  | _ -> failwith ("bad op " ^ s)

(* ---------------------------------------------------------------- model run *)

(* returns the predicted observation and, per step, whether the history is still Legal *)
let run_model (script : string) : string * bool array =
  let ops = List.filter (fun s -> s <> "") (String.split_on_char ' ' script) in
  let st = ref sinit in
  let firsts : (int, string) Hashtbl.t = Hashtbl.create 16 in
  let out = Buffer.create 1024 in
  let legal = ref [] in
  List.iteri (fun j ops ->
      (* a trailing '!' = no re-dump after this step *)
      let quiet = String.length ops > 0 && ops.[String.length ops - 1] = '!' in
      let ops = if quiet then String.sub ops 0 (String.length ops - 1) else ops in
      let ((st', ob), ds) =
        if quiet then (sstep !cfg !st (sop_of ops), []) else sstep_full !cfg !st (sop_of ops) in
      st := st';
      legal := slegal st' :: !legal;
      if j > 0 then Buffer.add_char out '|';
      Buffer.add_string out (sobs_text ob);
      let (ps, _) = st'.sx in
      let regs = Array.of_list st'.sregs in
      List.iter (fun ((i, d1), d2) ->
          let i = int_of_nat i in
          let t1 = string_of_dn d1 in
          (match Hashtbl.find_opt firsts i with
           | None ->
             Hashtbl.add firsts i t1;
             let strm = (match regs.(i) with HNode r -> has_stream (nat_of_int 40) ps.hp r | _ -> false) in
             Buffer.add_string out (Printf.sprintf ";%d%c%s" i (if strm then '~' else '=') t1)
           | Some f -> if f <> t1 then Buffer.add_string out (Printf.sprintf ";c%d=%s" i t1));
          if d1 <> d2 then Buffer.add_string out (Printf.sprintf ";r%d" i)) ds) ops;
  (Buffer.contents out, Array.of_list (List.rev !legal))

(* ---------------------------------------------------------------- oracle *)

let only_bytes_differ (a : string) (b : string) : bool =
  let ta = String.split_on_char ',' a and tb = String.split_on_char ',' b in
  List.length ta = List.length tb &&
  List.for_all2 (fun x y -> x = y || (String.length x > 0 && String.length y > 0 && x.[0] = 'b' && y.[0] = 'b')) ta tb

(* SPEC of a handed-out reader, independent of the model: the bytes it yields from offset o are
   content[o:], where content is what the node's first dump showed and o is moved by the reads and
   seeks of THIS reader only — whatever other readers, accessors, matches did in between. *)
let sub_hex (h : string) (o : int) (k : int option) : string =
  let n = String.length h / 2 in
  let o = min (max o 0) n in
  let l = (match k with None -> n - o | Some k -> min k (n - o)) in
  String.sub h (2 * o) (2 * l)

let oracle (script : string) (obs : string) (legal : bool array) : string =
  let steps = String.split_on_char '|' obs in
  let ops = Array.of_list (List.filter (fun s -> s <> "") (String.split_on_char ' ' script)) in
  let firsts : (int, string * bool) Hashtbl.t = Hashtbl.create 16 in
  let readers : (int, string * int ref) Hashtbl.t = Hashtbl.create 8 in   (* reader register -> content hex, offset *)
  let fails = ref [] in
  let add c = if not (List.mem c !fails) then fails := c :: !fails in
  List.iteri (fun j step ->
      let is_legal = j < Array.length legal && legal.(j) in
      match String.split_on_char ';' step with
      | [] -> ()
      | out :: items ->
        (* reader-level operations *)
        (if j < Array.length ops then
           let opj = ops.(j) in
           let opj = if String.length opj > 0 && opj.[String.length opj - 1] = '!'
             then String.sub opj 0 (String.length opj - 1) else opj in
           match String.split_on_char ':' opj with
           | ["lb"; n] when out = "ok" ->
             (match Hashtbl.find_opt firsts (int_of_string n) with
              | Some (txt, _) when String.length txt > 0 && txt.[0] = 'b' ->
                let body = String.sub txt 1 (String.length txt - 1) in
                let content = (match String.index_opt body '/' with Some i -> String.sub body 0 i | None -> body) in
                Hashtbl.replace readers j (content, ref 0)
              | _ -> ())
           | ["rr"; r; k] ->
             (match Hashtbl.find_opt readers (int_of_string r) with
              | Some (content, off) when String.length out >= 2 && String.sub out 0 2 = "d:" ->
                let got = String.sub out 2 (String.length out - 2) in
                let want = sub_hex content !off (if k = "a" then None else Some (int_of_string k)) in
                if is_legal && got <> want then add "reader_not_independent";
                off := !off + String.length want / 2
              | Some _ -> if is_legal then add "reader_not_independent"
              | None -> ())
           | ["sk"; r; o; w] ->
             (match Hashtbl.find_opt readers (int_of_string r) with
              | Some (content, off) ->
                let abs = (match w with "s" -> int_of_string o | "c" -> !off + int_of_string o
                                      | _ -> String.length content / 2 + int_of_string o) in
                if abs < 0 then (if is_legal && out <> "e:other" then add "reader_not_independent")
                else begin
                  if is_legal && out <> "p:" ^ string_of_int abs then add "reader_not_independent";
                  off := abs
                end
              | None -> ())
           | _ -> ());
        List.iter (fun it ->
            if it = "" then () else
            try
              if it.[0] = 'k' then
                (* a node an iterator handed out read differently once the iterator had moved on (nothing
                   but reads in between): a failure on every history *)
                add "iterator_node_changed"
              else if it.[0] = 'h' then
                (* … or after later steps, while the register it came from still reads the same *)
                (if is_legal then add "iterator_node_changed")
              else if it.[0] = 'c' then begin
                let eq = String.index it '=' in
                let i = int_of_string (String.sub it 1 (eq - 1)) in
                let txt = String.sub it (eq + 1) (String.length it - eq - 1) in
                if is_legal then
                  (match Hashtbl.find_opt firsts i with
                   | Some (f, strm) when strm && only_bytes_differ f txt -> add "streambytes_second_read"
                   | _ -> add "node_changed")
              end else if it.[0] = 'r' then begin
                let i = int_of_string (String.sub it 1 (String.length it - 1)) in
                if is_legal then
                  (match Hashtbl.find_opt firsts i with
                   | Some (_, true) -> add "streambytes_second_read"
                   | _ -> add "read_not_repeatable")
              end else begin
                let p = (try String.index it '=' with Not_found -> String.index it '~') in
                let p = (match String.index_opt it '~' with Some q when q < p -> q | _ -> p) in
                let i = int_of_string (String.sub it 0 p) in
                Hashtbl.replace firsts i (String.sub it (p + 1) (String.length it - p - 1), it.[p] = '~')
              end
            with _ -> add "malformed_obs") items) steps;
  if !fails = [] then "ok" else "fail:" ^ String.concat "," (List.rev !fails)

let () =
  iter_lines (fun line ->
      match split_tab line with
      | [id; "probe"; obs] ->
        (* the quirks as the tree exhibits them now select the model configuration; anything else
           than the two known behaviours of each quirk is reported as a disagreement *)
        let kv = List.filter_map (fun s -> match String.index_opt s '=' with
            | Some i -> Some (String.sub s 0 i, String.sub s (i + 1) (String.length s - i - 1)) | None -> None)
            (String.split_on_char ';' obs) in
        let get k = try List.assoc k kv with Not_found -> "?" in
        (match get "stream", get "mapcopy" with
         | ("empty" | "full" as st), ("ok" | "panic" as mc) ->
           cfg := cfg_of (st = "empty") (mc = "ok");
           Printf.printf "%s\t%s\tok\n" id obs
         | _ -> Printf.printf "%s\t?\tok\n" id)
      | [id; script; obs] when String.length script >= 6 && String.sub script 0 6 = "typed:" ->
        (* typed engines: no heap model; the specification itself is the prediction *)
        let basic = String.length script >= 12 && String.sub script 0 12 = "typed:basic:" in
        Printf.printf "%s\tstable\t%s\n" id
          (if obs = "stable" then "ok" else if basic then "fail:iterator_node_changed" else "fail:typed_child_changed")
      | [id; script; obs] ->
        (try
           let (m, legal) = run_model script in
           let v = oracle script obs legal in
           (* the runner compares model and implementation only on cases the oracle passes; a case that
              fails with a known class must not hide a disagreement between the two *)
           (* retention tokens (;k<i> ;h<i>, at the end of a step) are the oracle's business, not the
              model's: the model hands out frozen nodes and never predicts one.  They are left out when
              deciding whether model and implementation disagree, and on steps that are not Legal (where
              the oracle is vacuous) the model's prediction takes them over from the implementation. *)
           let is_ret it = String.length it > 0 && (it.[0] = 'k' || it.[0] = 'h') in
           let strip step = String.concat ";" (List.filter (fun it -> not (is_ret it)) (String.split_on_char ';' step)) in
           let osteps = String.split_on_char '|' obs and msteps = String.split_on_char '|' m in
           let obs_stripped = String.concat "|" (List.map strip osteps) in
           let m' =
             if List.length osteps <> List.length msteps then m else
               String.concat "|" (List.mapi (fun j ms ->
                   let is_legal = j < Array.length legal && legal.(j) in
                   if is_legal then ms else
                     String.concat ";" (ms :: List.filter is_ret (String.split_on_char ';' (List.nth osteps j)))) msteps) in
           let v = if v <> "ok" && m <> obs_stripped then v ^ ",model_disagrees" else v in
           Printf.printf "%s\t%s\t%s\n" id m' v
         with e -> Printf.printf "%s\tmodel-exception:%s\tok\n" id (Printexc.to_string e))
      | _ -> ())
