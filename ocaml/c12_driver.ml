(* c12 driver: for each "c12" record, (1) the per-call results and the built value the extracted
   models predict (basicnode: Node/Basic.v run_tol; typed engines: Node/Typed.v trun_tol; pinned
   quirks), (2) the oracle: the contract — every call has exactly the annotated result (ok, or the
   class the injected rejection must be reported with), the builder finishes, and the node is the
   value of the accepted entries, as if the rejected calls had not been made; Reset makes the
   builder usable again.  The parsing helpers are the same as in c01_driver.ml. *)
open Model
open Dmio

(* ---------------------------------------------------------------- small helpers *)
let str_of_bytes (l : n list) : string =
  let b = Buffer.create 16 in List.iter (fun x -> Buffer.add_char b (Char.chr (int_of_n x land 255))) l; Buffer.contents b
let bytes_of_str (s : string) : n list =
  let rec go i acc = if i < 0 then acc else go (i - 1) (byte_tab.(Char.code s.[i]) :: acc) in
  go (String.length s - 1) []
let hex_of_str (s : string) : string = hex_of_bytes (bytes_of_str s)

let z_of_int64 (x : int64) : z =
  if Int64.compare x 0L >= 0 then z_of_hex (Printf.sprintf "%Lx" x)
  else if x = Int64.min_int then z_of_hex "-8000000000000000"
  else z_of_hex ("-" ^ Printf.sprintf "%Lx" (Int64.neg x))

let err_letter = function
  | EWrongKind -> "w" | ERepeatedKey -> "r" | ENotExists -> "e" | EInvalidSegment -> "g"
  | EOverread -> "v" | EOther -> "o"

let two63_z = z_of_hex "8000000000000000"
let z_lt a b = match Z.compare a b with Lt -> true | _ -> false

(* ---------------------------------------------------------------- parsing nodes and scripts *)
let rec parse_node (toks : string list) : node * string list =
  match toks with
  | [] -> failwith "parse_node: eof"
  | t :: rest ->
    let body = String.sub t 1 (String.length t - 1) in
    (match t.[0] with
     | 'T' ->
       (* a node of a typed engine: the value follows.  A node whose Go type is the engine's type-level
          node type (engines tbind / tgen) is a same-type node (NFMap / NFList: the assembler's shortcut);
          the representation VIEW of one (engines tbindr / tgenr) is, to every assembler, a node of
          another implementation: it is ranged over like a basicnode one *)
       let et = str_of_bytes (bytes_of_hex body) in
       let eng = String.sub et 0 (String.index et ':') in
       let view = String.length eng > 0 && eng.[String.length eng - 1] = 'r' in
       (match parse_node rest with
        | (NMap (t, _), r) when not view -> (NFMap t, r)
        | (NList x, r) when not view -> (NFList x, r)
        | other -> other)
     | 'F' | 'K' ->                (* the child under a key of a typed node / the key node its iterator yields *)
       let et = str_of_bytes (bytes_of_hex body) in
       let i = String.index et ':' in
       let j = String.index_from et (i + 1) ':' in
       let key = String.sub et (j + 1) (String.length et - j - 1) in
       let view = i > 0 && et.[i - 1] = 'r' in     (* looked up from a representation view: a view again *)
       let (c, r) = parse_node rest in
       if t.[0] = 'K' then (NString (bytes_of_str key), r)
       else (match lookup_by_string c (bytes_of_str key) with
           | Ok (NMap (t, _)) when not view -> (NFMap t, r)     (* a container of that engine, not a basicnode one *)
           | Ok (NList x) when not view -> (NFList x, r)
           | Ok v -> (v, r)
           | Err _ -> failwith "parse_node: F: no such key")
     | 'n' -> (NNull, rest)
     | 't' -> (NBool true, rest)
     | 'f' -> (NBool false, rest)
     | 'i' | 'I' -> (NInt (z_of_hex body), rest)
     | 'u' -> (NUint (z_of_hex body), rest)
     | 'd' -> ((if body = "nan" then NFloat (n_of_hex "7ff8000000000001") else NFloat (n_of_hex body)), rest)
     | 's' | 'Z' -> (NString (bytes_of_hex body), rest)
     | 'b' -> (NBytes (bytes_of_hex body), rest)
     | 'l' -> (NLink (bytes_of_hex body), rest)
     | 'a' | 'A' ->
       let cnt = int_of_string body in
       let rec go i acc rest = if i = 0 then (List.rev acc, rest) else
           let (v, rest') = parse_node rest in go (i - 1) (v :: acc) rest' in
       let (vs, rest') = go cnt [] rest in
       ((if t.[0] = 'a' then NList vs else NFList vs), rest')
     | 'm' | 'M' | 'S' | 'Q' ->
       let cnt = int_of_string body in
       let rec go i acc rest = if i = 0 then (List.rev acc, rest) else
           (match rest with
            | kt :: rest1 when kt.[0] = 'k' ->
              let k = bytes_of_hex (String.sub kt 1 (String.length kt - 1)) in
              let (v, rest2) = parse_node rest1 in go (i - 1) ((k, v) :: acc) rest2
            | _ -> failwith "parse_node: expected key") in
       let (es, rest') = go cnt [] rest in
       ((if t.[0] = 'm' then NMap (es, List.rev es) else NFMap es), rest')
     | _ -> failwith ("parse_node: bad token " ^ t))

(* returns ops with the annotated expectation letter ("" = ok) *)
let parse_script (s : string) : (aop * string) list =
  let toks = List.filter (fun x -> x <> "") (String.split_on_char ' ' s) in
  let rec go toks acc =
    match toks with
    | [] -> List.rev acc
    | t0 :: rest ->
      let (t, want) = match String.index_opt t0 '!' with
        | Some i -> (String.sub t0 0 i, String.sub t0 (i + 1) (String.length t0 - i - 1))
        | None -> (t0, "") in
      let tail k = String.sub t k (String.length t - k) in
      if t = "AK" then go rest ((AssembleKey, want) :: acc)
      else if t = "AV" then go rest ((AssembleValue, want) :: acc)
      else if t = "FI" then go rest ((Finish, want) :: acc)
      else if t = "XN" then
        let (n, rest') = parse_node rest in go rest' ((AssignNode n, want) :: acc)
      else if String.length t >= 2 && String.sub t 0 2 = "BM" then
        go rest ((BeginMap (z_of_int64 (Int64.of_string (tail 2))), want) :: acc)
      else if String.length t >= 2 && String.sub t 0 2 = "BL" then
        go rest ((BeginList (z_of_int64 (Int64.of_string (tail 2))), want) :: acc)
      else if String.length t >= 2 && String.sub t 0 2 = "AE" then
        go rest ((AssembleEntry (bytes_of_hex (tail 2)), want) :: acc)
      else if t.[0] = 'X' then
        let op = match dm_of_string (tail 1) with
          | DNull -> AssignNull | DBool b -> AssignBool b | DInt z -> AssignInt z
          | DFloat f -> AssignFloat f | DString x -> AssignString x | DBytes x -> AssignBytes x
          | DLink c -> AssignLink c | _ -> failwith "parse_script: X of a container" in
        go rest ((op, want) :: acc)
      else failwith ("parse_script: bad op " ^ t) in
  go toks []

let proto_of = function
  | "any" -> PAny | "map" -> PMap | "list" -> PList | "bool" -> PBool | "int" -> PInt
  | "float" -> PFloat | "string" -> PString | "bytes" -> PBytes | "link" -> PLink
  | s -> failwith ("proto_of " ^ s)


module Str_split = struct
  let split (s : string) : string list = String.split_on_char '#' s
end

let kind_name_of = function
  | KNull -> "null" | KBool -> "bool" | KInt -> "int" | KFloat -> "float" | KString -> "string"
  | KBytes -> "bytes" | KLink -> "link" | KList -> "list" | KMap -> "map"

let letter_of_sres = function
  | SOk -> "." | SErr e -> err_letter e | SPanic -> "P" | SNoMethod -> "X"
let tletter = function
  | TSOk -> "." | TSErr TEWrong -> "w" | TSErr TERepeated -> "r" | TSErr TEMissing -> "m"
  | TSErr TEInvalidKey -> "k" | TSErr TEOther -> "o" | TSPanic -> "P" | TSNoMethod -> "X"

(* the quirk setting of the models: what the probes at the head of the run found on this tree *)
let tq_bs = ref true and tq_bm = ref true and tq_br = ref true and tq_gs = ref true and tq_gm = ref true
and tq_gn = ref true
let current_tq () : tquirks =
  { tq_bind_struct_nodup = !tq_bs; tq_bind_map_nodup = !tq_bm; tq_bind_reset_panics = !tq_br;
    tq_gen_struct_stuck = !tq_gs; tq_gen_map_key_nodup = !tq_gm; tq_gen_map_node_panics = !tq_gn }

(* split "a RS b RS c" *)
let split_segments (script : string) : string list =
  let toks = List.filter (fun x -> x <> "") (String.split_on_char ' ' script) in
  let rec go cur acc = function
    | [] -> List.rev (String.concat " " (List.rev cur) :: acc)
    | "RS" :: r -> go [] (String.concat " " (List.rev cur) :: acc) r
    | t :: r -> go (t :: cur) acc r in
  go [] [] toks

(* one segment on the model: (trace, live, built value) *)
let run_segment (engine : string) (ops : aop list) : string * bool * string option =
  let finish letters live built =
    let tr = String.concat "" letters in
    if not live then (tr, false, None) else (tr, true, built) in
  if String.length engine > 6 && String.sub engine 0 6 = "basic:" || engine = "enum:any" then begin
    let p = if engine = "enum:any" then PAny else proto_of (String.sub engine 6 (String.length engine - 6)) in
    let (tr, fin) = run_tol pinned (init p) ops in
    let letters = List.map letter_of_sres tr in
    match fin with
    | None -> finish letters false None
    | Some s -> finish letters true (match build s with Some n -> Some (string_of_dm (abs n)) | None -> None)
  end else begin
    let e = if String.sub engine 0 4 = "bind" then EBind else EGen in
    (* the type is spelled outside-in after the colon: S, MS = {String:Msg3}, LMS = [{String:Msg3}], ... *)
    let spec = String.sub engine (String.index engine ':' + 1) (String.length engine - String.index engine ':' - 1) in
    let spec = if spec = "M" then "MS" else spec in
    let rec ty_of i = if i >= String.length spec then TyS else
        match spec.[i] with 'M' -> TyM (ty_of (i + 1)) | 'L' -> TyL (ty_of (i + 1)) | _ -> TyS in
    let ty = ty_of 0 in
    let (tr, fin) = trun_tol e (current_tq ()) (tinit ty) ops in
    let letters = List.map tletter tr in
    match fin with
    | None -> finish letters false None
    | Some s -> finish letters true (match tbuild e s with Some v -> Some (string_of_dm v) | None -> None)
  end

let seg_obs (tr, live, built) =
  if not live then "tr=" ^ tr ^ "|b=-|t=-"
  else match built with
    | None -> "tr=" ^ tr ^ "|b=P|t=-"
    | Some d -> "tr=" ^ tr ^ "|b=ok|t=" ^ d

let reset_ok (engine : string) : bool =
  if String.length engine >= 4 && String.sub engine 0 4 = "bind" then treset_ok EBind (current_tq ()) else true

let starts_with s p = String.length s >= String.length p && String.sub s 0 (String.length p) = p

let () =
  iter_lines (fun line ->
    match split_tab line with
    | id :: "probe" :: name :: obs :: _ ->
      let v = (obs = "1") in
      (match name with
       | "bind_struct_nodup" -> tq_bs := v | "bind_map_nodup" -> tq_bm := v | "bind_reset_panics" -> tq_br := v
       | "gen_struct_stuck" -> tq_gs := v | "gen_map_key_nodup" -> tq_gm := v
       | "gen_map_node_panics" -> tq_gn := v | _ -> ());
      print_string id; print_char '\t'; print_string obs; print_char '\t'; print_endline "ok"
    | id :: "c12" :: engine :: vtexts :: script :: obs :: _ ->
      let segs = split_segments script in
      let parsed = List.map parse_script segs in
      (* ---- model *)
      let b = Buffer.create 256 in
      let first_dump = ref None in
      let rec go i = function
        | [] -> ()
        | seg :: rest ->
          let continue_ =
            if i = 0 then true
            else if reset_ok engine then (Buffer.add_string b "#rs=.#"; true)
            else (Buffer.add_string b "#rs=P#"; false) in
          if continue_ then begin
            let (tr, live, built) = run_segment engine (List.map fst seg) in
            Buffer.add_string b (seg_obs (tr, live, built));
            (match built with
             | Some d when live && i = 0 -> first_dump := Some d
             | Some _ when live && i > 0 ->
               (* the models are pure: the first node is a value and reads as before *)
               (match !first_dump with Some d0 -> Buffer.add_string b ("#again=" ^ d0) | None -> ())
             | _ -> ());
            if live then go (i + 1) rest
          end in
      if not (starts_with engine "tbind" || starts_with engine "tgen") then go 0 parsed;
      let model_obs = Buffer.contents b in
      (* ---- oracle *)
      let typed_family = starts_with engine "tbind" || starts_with engine "tgen" in
      let form_name (o : aop) : string = match o with
        | BeginMap _ -> "beginmap" | BeginList _ -> "beginlist" | AssignNull -> "null" | AssignBool _ -> "bool"
        | AssignInt _ -> "int" | AssignFloat _ -> "float" | AssignString _ -> "string" | AssignBytes _ -> "bytes"
        | AssignLink _ -> "link"
        | AssignNode (NUint _) -> "uintnode"
        | AssignNode n -> "node" ^ kind_name_of (kind_of n)
        | AssembleKey -> "assemblekey" | AssembleValue -> "assemblevalue" | AssembleEntry _ -> "assembleentry"
        | Finish -> "finish" in
      if typed_family then begin
        (* SPEC only (no Coq model of these builders): every legal call is ok; a call annotated E<T>
           (a kind the position of type T cannot hold) returns an error of any class — never ok, never a
           panic — and the assembler stays usable; the built node reads back as the given value *)
        let seg = (match parsed with [s] -> s | _ -> []) in
        let get name =
          let parts = String.split_on_char '|' obs in
          let pre = name ^ "=" in
          match List.find_opt (fun x -> starts_with x pre) parts with
          | Some x -> String.sub x (String.length pre) (String.length x - String.length pre) | None -> "" in
        let ot = get "tr" in
        let cls = ref "" in
        let set c = if !cls = "" then cls := c in
        let model_tr = Buffer.create 64 in
        List.iteri (fun j (o, w) ->
            let oc = if j < String.length ot then ot.[j] else '?' in
            if w = "" || String.length w = 1 && w <> "E" then begin
              let wc = if w = "" then '.' else w.[0] in
              Buffer.add_char model_tr wc;
              if !cls = "" && oc <> wc then
                set (if oc = 'P' && starts_with engine "tgen" &&
                        (match o with
                         | AssignNode (NMap ((_ :: _ as t), _)) ->
                           List.for_all (fun (_, c) -> kind_of c = KMap) t   (* a map of structs, not a Msg3 *)
                         | _ -> false)
                     then "gen_map_assignnode_foreign_panic"
                     else if oc = 'P' then "legal_call_panics"
                     else if wc = 'r' && oc = '.' then "dup_accepted"
                     else if wc = 'r' then "dup_misreported"
                     else if wc = 'w' then "bad_kind_misreported"
                     else if oc = '?' then "trace_length"
                     else "legal_call_refused")
            end else begin
              (* E<T> *)
              let ty = String.sub w 1 (String.length w - 1) in
              let acceptable = not (oc = '.' || oc = 'P' || oc = 'X' || oc = 'B' || oc = '?') in
              Buffer.add_char model_tr (if acceptable then oc else 'w');
              if !cls = "" && not acceptable then
                set ((if oc = 'P' then "bad_kind_panics_" else "bad_kind_accepted_") ^ form_name o ^ "_at_" ^ ty)
            end) seg;
        if !cls = "" && String.length ot <> List.length seg then set "trace_length";
        if !cls = "" && get "b" <> "ok" then set "build_panic";
        if !cls = "" && get "t" <> vtexts then set "result_differs";
        let model_obs = "tr=" ^ Buffer.contents model_tr ^ "|b=ok|t=" ^ vtexts in
        print_string id; print_char '\t'; print_string model_obs; print_char '\t';
        print_endline (if !cls = "" then "ok" else "fail:" ^ !cls)
      end else
      let verdict =
        if engine = "enum:any" then "ok"    (* arbitrary call orders: the contract demands nothing *)
        else begin
          let vals = if vtexts = "" then [] else List.map dm_of_string (String.split_on_char ';' vtexts) in
          let want_seg seg v =
            let tr = String.concat "" (List.map (fun (_, w) -> if w = "" then "." else w) seg) in
            "tr=" ^ tr ^ "|b=ok|t=" ^ string_of_dm v in
          let want = String.concat "#rs=.#" (List.map2 want_seg parsed vals) ^
                     (match vals with v0 :: _ :: _ -> "#again=" ^ string_of_dm v0 | _ -> "") in
          if want = obs then "ok" else begin
            (* the first place where the implementation leaves the contract decides the class *)
            let isegs = Str_split.split obs in
            let wsegs = Str_split.split want in
            let cls = ref "" in
            let set c = if !cls = "" then cls := c in
            let bind = starts_with engine "bind" and gen = starts_with engine "gen" in
            let is_s = engine.[String.length engine - 1] = 'S' in
            List.iteri (fun i w ->
                if !cls = "" then
                  match List.nth_opt isegs i with
                  | None -> set "truncated"
                  | Some o when o = w -> ()
                  | Some o ->
                    if starts_with w "again=" then set "first_node_changed_after_reset"
                    else if starts_with w "rs=" then begin
                      if bind && o = "rs=P" then set "bind_reset_panics" else set "reset"
                    end else begin
                      let get s name =
                        let parts = String.split_on_char '|' s in
                        let pre = name ^ "=" in
                        match List.find_opt (fun x -> starts_with x pre) parts with
                        | Some x -> String.sub x (String.length pre) (String.length x - String.length pre) | None -> "" in
                      let wt = get w "tr" and ot = get o "tr" in
                      if wt <> ot then begin
                        (* first differing call *)
                        let n = min (String.length wt) (String.length ot) in
                        let j = ref 0 in
                        while !j < n && wt.[!j] = ot.[!j] do incr j done;
                        if !j >= n then set "trace_length"
                        else begin
                          let wc = wt.[!j] and oc = ot.[!j] in
                          let seg = List.nth parsed (i / 2) in
                          let (opj, _) = List.nth seg !j in
                          let via_key_assembler = (match opj with AssignString _ | AssignNode _ -> true | _ -> false) in
                          (* a repeated struct field or a repeated map key?  by the key that was supplied *)
                          let is_s = (match opj with
                              | AssembleEntry k | AssignString k | AssignNode (NString k) ->
                                let ks = str_of_bytes k in ks = "whee" || ks = "woot" || ks = "waga"
                              | _ -> is_s) in
                          if oc = 'P' && gen && wc = '.' &&
                             (match opj with
                              | AssignNode (NMap ((_ :: _ as t), _)) -> List.for_all (fun (_, c) -> kind_of c = KMap) t
                              | _ -> false)
                          then set "gen_map_assignnode_foreign_panic"
                          else if wc = 'r' && oc = '.' then begin
                            if bind && is_s then set "bind_struct_dup_accepted"
                            else if bind then set "bind_map_dup_accepted"
                            else if gen && (not is_s) && via_key_assembler then set "gen_map_keypath_dup_accepted"
                            else set "dup_accepted"
                          end else if oc = 'P' && gen && !j > 0 && wt.[!j - 1] = 'r' && ot.[!j - 1] = 'r'
                                    && (match fst (List.nth seg (!j - 1)) with AssignString _ | AssignNode _ -> true | _ -> false)
                          then set "gen_struct_key_not_rolled_back"
                          else if wc = 'r' then set "dup_misreported"
                          else if wc = 'w' || wc = 'o' then set "bad_kind_misreported"
                          else if oc = 'P' then set "legal_call_panics"
                          else set "legal_call_refused"
                        end
                      end
                      else if get w "b" <> get o "b" then set "build_panic"
                      else set "result_differs"
                    end) wsegs;
            "fail:" ^ (if !cls = "" then "observation" else !cls)
          end
        end in
      print_string id; print_char '\t'; print_string model_obs; print_char '\t'; print_endline verdict
    | _ -> ())
