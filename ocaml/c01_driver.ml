(* c01 driver: for each "c01" record, (1) the observation the extracted model of basicnode predicts
   for the script (pinned quirks), (2) the oracle: the observation the SPECIFICATION demands —
   computed from the intended value alone, with no reference to the model of the code — compared
   with the implementation's observation.

   Observation = sections joined by '|':  tr= b= t= r= e= c= y=   (see harness/cmd/c01/main.go).
   Cells inside sections are ';'-separated.  A cell "?a/b" (model of foreign nodes, or the
   specification where the contract leaves the class of an error open) admits alternatives. *)
open Model
open Dmio

(* ---------------------------------------------------------------- small helpers *)
let str_of_bytes (l : n list) : string =
  let b = Buffer.create 16 in List.iter (fun x -> Buffer.add_char b (Char.chr (int_of_n x land 255))) l; Buffer.contents b
let bytes_of_str (s : string) : n list =
  let rec go i acc = if i < 0 then acc else go (i - 1) (byte_tab.(Char.code s.[i]) :: acc) in
  go (String.length s - 1) []
let hex_of_str (s : string) : string = hex_of_bytes (bytes_of_str s)

let z_of_int64 (x : int64) : z =
  if Int64.compare x 0L >= 0 then z_of_hex (Printf.sprintf "%Lx" x)
  else if x = Int64.min_int then z_of_hex "-8000000000000000"
  else z_of_hex ("-" ^ Printf.sprintf "%Lx" (Int64.neg x))

let err_letter = function
  | EWrongKind -> "w" | ERepeatedKey -> "r" | ENotExists -> "e" | EInvalidSegment -> "g"
  | EOverread -> "v" | EOther -> "o"

let two63_z = z_of_hex "8000000000000000"
let z_lt a b = match Z.compare a b with Lt -> true | _ -> false

(* ---------------------------------------------------------------- parsing nodes and scripts *)
let rec parse_node (toks : string list) : node * string list =
  match toks with
  | [] -> failwith "parse_node: eof"
  | t :: rest ->
    let body = String.sub t 1 (String.length t - 1) in
    (match t.[0] with
     | 'T' ->
       (* a node of a typed engine: the value follows.  A node whose Go type is the engine's type-level
          node type (engines tbind / tgen) is a same-type node (NFMap / NFList: the assembler's shortcut);
          the representation VIEW of one (engines tbindr / tgenr) is, to every assembler, a node of
          another implementation: it is ranged over like a basicnode one *)
       let et = str_of_bytes (bytes_of_hex body) in
       let eng = String.sub et 0 (String.index et ':') in
       let view = String.length eng > 0 && eng.[String.length eng - 1] = 'r' in
       (match parse_node rest with
        | (NMap (t, _), r) when not view -> (NFMap t, r)
        | (NList x, r) when not view -> (NFList x, r)
        | other -> other)
     | 'F' | 'K' ->                (* the child under a key of a typed node / the key node its iterator yields *)
       let et = str_of_bytes (bytes_of_hex body) in
       let i = String.index et ':' in
       let j = String.index_from et (i + 1) ':' in
       let key = String.sub et (j + 1) (String.length et - j - 1) in
       let view = i > 0 && et.[i - 1] = 'r' in     (* looked up from a representation view: a view again *)
       let (c, r) = parse_node rest in
       if t.[0] = 'K' then (NString (bytes_of_str key), r)
       else (match lookup_by_string c (bytes_of_str key) with
           | Ok (NMap (t, _)) when not view -> (NFMap t, r)     (* a container of that engine, not a basicnode one *)
           | Ok (NList x) when not view -> (NFList x, r)
           | Ok v -> (v, r)
           | Err _ -> failwith "parse_node: F: no such key")
     | 'n' -> (NNull, rest)
     | 't' -> (NBool true, rest)
     | 'f' -> (NBool false, rest)
     | 'i' | 'I' -> (NInt (z_of_hex body), rest)
     | 'u' -> (NUint (z_of_hex body), rest)
     | 'd' -> ((if body = "nan" then NFloat (n_of_hex "7ff8000000000001") else NFloat (n_of_hex body)), rest)
     | 's' | 'Z' -> (NString (bytes_of_hex body), rest)
     | 'b' -> (NBytes (bytes_of_hex body), rest)
     | 'l' -> (NLink (bytes_of_hex body), rest)
     | 'a' | 'A' ->
       let cnt = int_of_string body in
       let rec go i acc rest = if i = 0 then (List.rev acc, rest) else
           let (v, rest') = parse_node rest in go (i - 1) (v :: acc) rest' in
       let (vs, rest') = go cnt [] rest in
       ((if t.[0] = 'a' then NList vs else NFList vs), rest')
     | 'm' | 'M' | 'S' | 'Q' ->
       let cnt = int_of_string body in
       let rec go i acc rest = if i = 0 then (List.rev acc, rest) else
           (match rest with
            | kt :: rest1 when kt.[0] = 'k' ->
              let k = bytes_of_hex (String.sub kt 1 (String.length kt - 1)) in
              let (v, rest2) = parse_node rest1 in go (i - 1) ((k, v) :: acc) rest2
            | _ -> failwith "parse_node: expected key") in
       let (es, rest') = go cnt [] rest in
       ((if t.[0] = 'm' then NMap (es, List.rev es) else NFMap es), rest')
     | _ -> failwith ("parse_node: bad token " ^ t))

(* returns ops with the annotated expectation letter ("" = ok) *)
let parse_script (s : string) : (aop * string) list =
  let toks = List.filter (fun x -> x <> "") (String.split_on_char ' ' s) in
  let rec go toks acc =
    match toks with
    | [] -> List.rev acc
    | t0 :: rest ->
      let (t, want) = match String.index_opt t0 '!' with
        | Some i -> (String.sub t0 0 i, String.sub t0 (i + 1) (String.length t0 - i - 1))
        | None -> (t0, "") in
      let tail k = String.sub t k (String.length t - k) in
      if t = "AK" then go rest ((AssembleKey, want) :: acc)
      else if t = "AV" then go rest ((AssembleValue, want) :: acc)
      else if t = "FI" then go rest ((Finish, want) :: acc)
      else if t = "XN" then
        let (n, rest') = parse_node rest in go rest' ((AssignNode n, want) :: acc)
      else if String.length t >= 2 && String.sub t 0 2 = "BM" then
        go rest ((BeginMap (z_of_int64 (Int64.of_string (tail 2))), want) :: acc)
      else if String.length t >= 2 && String.sub t 0 2 = "BL" then
        go rest ((BeginList (z_of_int64 (Int64.of_string (tail 2))), want) :: acc)
      else if String.length t >= 2 && String.sub t 0 2 = "AE" then
        go rest ((AssembleEntry (bytes_of_hex (tail 2)), want) :: acc)
      else if t.[0] = 'X' then
        let op = match dm_of_string (tail 1) with
          | DNull -> AssignNull | DBool b -> AssignBool b | DInt z -> AssignInt z
          | DFloat f -> AssignFloat f | DString x -> AssignString x | DBytes x -> AssignBytes x
          | DLink c -> AssignLink c | _ -> failwith "parse_script: X of a container" in
        go rest ((op, want) :: acc)
      else failwith ("parse_script: bad op " ^ t) in
  go toks []

let proto_of = function
  | "any" -> PAny | "map" -> PMap | "list" -> PList | "bool" -> PBool | "int" -> PInt
  | "float" -> PFloat | "string" -> PString | "bytes" -> PBytes | "link" -> PLink
  | s -> failwith ("proto_of " ^ s)

(* ---------------------------------------------------------------- the generic read renderer *)
type 'a api = {
  kind_name : 'a -> string;
  len : 'a -> string;
  asl : 'a -> string;
  mi : 'a -> ((string * 'a) list * string) option;      (* (raw key, value) list, over-read letter *)
  li : 'a -> ((string * 'a) list * string) option;      (* (index text, value) list, over-read letter *)
  dump : 'a -> string;
  by_string : 'a -> string -> string;                   (* result cells: "=dump" "!x" "?alt/alt" *)
  by_node_string : 'a -> string -> string;
  by_node_int : 'a -> int64 -> string;
  by_index : 'a -> int64 -> string;
  by_seg_string : 'a -> string -> string;
  by_seg_int : 'a -> int64 -> string;
  rebuild : 'a -> string;        (* a map re-assembled from the collected (key, value) pairs vs the source: T F P *)
}

let map_absent_probes = [""; "zz"; "0"; "1"]
let list_seg_probes = ["01"; "+0"; "-0"; ""; "x"; "1_0"; "0x1"; " 1"; "9223372036854775808"; "00000000000000000000001"]

let rec render : 'a. 'a api -> Buffer.t -> 'a -> unit = fun a b n ->
  let add = Buffer.add_string b in
  let kn = a.kind_name n in
  (* IsNull / IsAbsent: true / false for null, false / false for everything else a builder yields *)
  add (Printf.sprintf "(%s;L%s;as:%s;na:%s;" kn (a.len n) (a.asl n) (if kn = "null" then "10" else "00"));
  let kids = ref [] in
  add "mi:";
  let keys = ref [] in
  (match a.mi n with
   | None -> add "nil"
   | Some (es, ov) ->
     add "[";
     List.iter (fun (k, v) -> keys := k :: !keys; kids := v :: !kids;
                 add ("k" ^ hex_of_str k ^ "=" ^ a.dump v ^ ",")) es;
     add "]"; add ov);
  (* the pass that collects all (key node, value node) pairs first and reads them afterwards *)
  add ";rk:";
  (match a.mi n with
   | None -> add "nil"
   | Some (es, _) ->
     add "[";
     List.iter (fun (k, _) -> add ("k" ^ hex_of_str k ^ ":" ^ a.by_node_string n k ^ ",")) es;
     add "]rb:"; add (a.rebuild n));
  add ";li:";
  let nlist = ref 0 in
  (match a.li n with
   | None -> add "nil"
   | Some (es, ov) ->
     add "[";
     List.iter (fun (i, v) -> incr nlist; kids := v :: !kids; add (i ^ "=" ^ a.dump v ^ ",")) es;
     add "]"; add ov);
  add ";lk:;";
  (match kn with
   | "map" ->
     List.iter (fun k ->
         add ("k" ^ hex_of_str k ^ ":" ^ a.by_string n k ^ ";");
         add ("n:" ^ a.by_node_string n k ^ ";");
         add ("g:" ^ a.by_seg_string n k ^ ";")) (List.rev !keys @ map_absent_probes);
     add ("ni:" ^ a.by_node_int n 0L ^ ";");
     add ("x0:" ^ a.by_index n 0L ^ ";");
     add ("gi0:" ^ a.by_seg_int n 0L ^ ";");
     add ("gi-1:" ^ a.by_seg_int n (-1L) ^ ";")
   | "list" ->
     let ln = Int64.of_int !nlist in
     let idxs = List.init (min !nlist 40) Int64.of_int
                @ [-1L; ln; Int64.add ln 1L; Int64.max_int; Int64.min_int] in
     List.iter (fun i ->
         add ("x" ^ Int64.to_string i ^ ":" ^ a.by_index n i ^ ";");
         add ("gi:" ^ a.by_seg_int n i ^ ";");
         add ("gs:" ^ a.by_seg_string n (Int64.to_string i) ^ ";");
         add ("n:" ^ a.by_node_int n i ^ ";")) idxs;
     List.iter (fun s -> add ("s" ^ hex_of_str s ^ ":" ^ a.by_seg_string n s ^ ";")) list_seg_probes;
     add ("ks:" ^ a.by_string n "0" ^ ";");
     add ("ns:" ^ a.by_node_string n "0" ^ ";")
   | _ ->
     add ("ks:" ^ a.by_string n "a" ^ ";");
     add ("x0:" ^ a.by_index n 0L ^ ";");
     add ("n:" ^ a.by_node_string n "a" ^ ";");
     add ("g:" ^ a.by_seg_string n "a" ^ ";"));
  add ")";
  List.iter (fun c ->
      match a.kind_name c with
      | "map" | "list" -> add ";"; render a b c
      | _ -> ()) (List.rev !kids)

let render_reads (a : 'a api) (n : 'a) : string =
  let b = Buffer.create 1024 in render a b n; Buffer.contents b

(* ---------------------------------------------------------------- instance 1: the extracted model *)
let kind_name_of = function
  | KNull -> "null" | KBool -> "bool" | KInt -> "int" | KFloat -> "float" | KString -> "string"
  | KBytes -> "bytes" | KLink -> "link" | KList -> "list" | KMap -> "map"

let mdump (n : node) : string = string_of_dm (abs n)
let letter_of_res = function Ok _ -> "." | Err e -> err_letter e
let cell_of_res = function Ok v -> "=" ^ mdump v | Err e -> "!" ^ err_letter e
let is_fmap = function NFMap _ -> true | _ -> false
let is_flist = function NFList _ -> true | _ -> false

let quirks_hook : (unit -> quirks) ref = ref (fun () -> pinned)

let model_api : node api = {
  kind_name = (fun n -> kind_name_of (kind_of n));
  len = (fun n -> string_of_int (int_of_z (length_of n)));
  asl = (fun n -> String.concat "" [letter_of_res (as_bool n); letter_of_res (as_int n);
                                    letter_of_res (as_float n); letter_of_res (as_string n);
                                    letter_of_res (as_bytes n); letter_of_res (as_link n)]);
  mi = (fun n -> match map_entries n with
      | None -> None
      | Some es ->
        let (got, ov) = iterate es in
        Some (List.map (fun (k, v) -> (match as_string k with Ok s -> str_of_bytes s | Err _ -> "?"), v) got,
              (match ov with Some e -> err_letter e | None -> ".")));
  li = (fun n -> match list_entries n with
      | None -> None
      | Some xs ->
        let (got, ov) = iterate xs in
        Some (List.mapi (fun i v -> (string_of_int i, v)) got,
              (match ov with Some e -> err_letter e | None -> ".")));
  dump = mdump;
  by_string = (fun n k ->
      match lookup_by_string n (bytes_of_str k) with
      | Err ENotExists when is_fmap n -> "?!e/!k"       (* typed foreign maps answer "no such field" *)
      | r -> cell_of_res r);
  by_node_string = (fun n k ->
      match lookup_by_node n (NString (bytes_of_str k)) with
      | Err ENotExists when is_fmap n -> "?!e/!k"
      | r -> cell_of_res r);
  by_node_int = (fun n i -> cell_of_res (lookup_by_node n (NInt (z_of_int64 i))));
  by_index = (fun n i -> cell_of_res (lookup_by_index n (z_of_int64 i)));
  by_seg_string = (fun n s ->
      match lookup_by_segment n (seg_of_string (bytes_of_str s)) with
      | Err ENotExists when is_fmap n -> "?!e/!k"
      | Err EInvalidSegment when is_flist n -> "?!g/!o"
      | r -> cell_of_res r);
  by_seg_int = (fun n i ->
      match lookup_by_segment n (seg_of_int (z_of_int64 i)) with
      | Err ENotExists when is_fmap n -> "?!e/!k"
      | Err EInvalidSegment when is_flist n -> "?!g/!o"
      | r -> cell_of_res r);
  rebuild = (fun n ->
      (* key nodes are values in the model: the rebuilt basicnode map holds the same entries *)
      match map_entries n with
      | None -> "-"
      | Some es ->
        let t = List.map (fun (k, v) -> ((match as_string k with Ok s -> s | Err _ -> []), v)) es in
        (match deep_equal (!quirks_hook ()) (NMap (t, List.rev t)) n with
         | ROk true -> "T" | ROk false -> "F" | _ -> "!P"));
}

(* ---------------------------------------------------------------- instance 2: the specification *)
(* Written directly over the abstract value; uses nothing of the model of basicnode. *)
let sdump = string_of_dm
let spec_kind = function
  | DNull -> "null" | DBool _ -> "bool" | DInt _ -> "int" | DFloat _ -> "float" | DString _ -> "string"
  | DBytes _ -> "bytes" | DLink _ -> "link" | DList _ -> "list" | DMap _ -> "map"

let spec_assoc (m : (n list * dm) list) (k : string) : dm option =
  let rec go = function
    | [] -> None
    | (k', v) :: r -> if str_of_bytes k' = k then Some v else go r in
  go m

(* decimal int64 per strconv.ParseInt(s, 10, 64), written independently of the Coq model *)
let spec_parse_index (s : string) : int64 option =
  let len = String.length s in
  if len = 0 then None else
    let (neg, start) = if s.[0] = '-' then (true, 1) else if s.[0] = '+' then (false, 1) else (false, 0) in
    if start >= len then None else begin
      let ok = ref true in
      for i = start to len - 1 do if s.[i] < '0' || s.[i] > '9' then ok := false done;
      if not !ok then None else begin
        (* strip leading zeros, then compare by length / lexicographically with the bound *)
        let i = ref start in
        while !i < len - 1 && s.[!i] = '0' do incr i done;
        let digits = String.sub s !i (len - !i) in
        let bound = if neg then "9223372036854775808" else "9223372036854775807" in
        let fits = String.length digits < String.length bound
                   || (String.length digits = String.length bound && compare digits bound <= 0) in
        if not fits then None
        else if neg && digits = "9223372036854775808" then Some Int64.min_int
        else let v = Int64.of_string digits in Some (if neg then Int64.neg v else v)
      end
    end

let spec_by_index (v : dm) (i : int64) : string =
  match v with
  | DList l ->
    if Int64.compare i 0L < 0 || Int64.compare i (Int64.of_int (List.length l)) >= 0 then "!e"
    else "=" ^ sdump (List.nth l (Int64.to_int i))
  | _ -> "!w"

let spec_by_string (v : dm) (k : string) : string =
  match v with
  | DMap m -> (match spec_assoc m k with Some x -> "=" ^ sdump x | None -> "?!e/!k")
  | _ -> "!w"

let spec_api : dm api = {
  kind_name = spec_kind;
  len = (function DList l -> string_of_int (List.length l) | DMap m -> string_of_int (List.length m) | _ -> "-1");
  asl = (function
      | DNull -> "wwwwww" | DBool _ -> ".wwwww"
      | DInt z -> if z_lt z two63_z then "w.wwww" else "wowwww"   (* AsInt cannot carry it: an error, not a wrong kind *)
      | DFloat _ -> "ww.www" | DString _ -> "www.ww" | DBytes _ -> "wwww.w" | DLink _ -> "wwwww."
      | DList _ | DMap _ -> "wwwwww");
  mi = (function DMap m -> Some (List.map (fun (k, x) -> (str_of_bytes k, x)) m, "v") | _ -> None);
  li = (function DList l -> Some (List.mapi (fun i x -> (string_of_int i, x)) l, "v") | _ -> None);
  dump = sdump;
  by_string = spec_by_string;
  by_node_string = (fun v k -> match v with DMap _ -> spec_by_string v k | _ -> "!w");
  by_node_int = (fun v i -> match v with
      | DList _ -> "?!w/" ^ spec_by_index v i     (* LookupByNode is the map form; lists may support int keys *)
      | _ -> "!w");
  by_index = spec_by_index;
  by_seg_string = (fun v s -> match v with
      | DMap _ -> spec_by_string v s
      | DList _ -> (match spec_parse_index s with Some i -> spec_by_index v i | None -> "?!g/!o")
      | _ -> "!w");
  by_seg_int = (fun v i -> match v with
      | DMap _ -> spec_by_string v (if Int64.compare i 0L < 0 then "" else Int64.to_string i)
      | DList _ -> if Int64.compare i 0L < 0 then "?!g/!o" else spec_by_index v i
      | _ -> "!w");
  rebuild = (fun v -> if dm_goeq v v then "T" else "F");
}

(* ---------------------------------------------------------------- alternatives *)
(* resolve "?a/b" cells of [s] against the implementation's observation [impl] *)
let resolve (s : string) (impl : string) : string =
  let sc = String.split_on_char ';' s and ic = String.split_on_char ';' impl in
  if List.length sc <> List.length ic then
    String.concat ";" (List.map (fun c ->
        if String.length c > 0 && c.[0] = '?' then
          List.hd (String.split_on_char '/' (String.sub c 1 (String.length c - 1))) else c) sc)
  else
    String.concat ";" (List.map2 (fun c i ->
        (* a cell may carry a prefix "name:" before the alternative marker *)
        match String.index_opt c '?' with
        | Some p when (p = 0 || c.[p - 1] = ':') ->
          let pre = String.sub c 0 p in
          let alts = String.split_on_char '/' (String.sub c (p + 1) (String.length c - p - 1)) in
          if List.exists (fun a -> pre ^ a = i) alts then i else pre ^ List.hd alts
        | _ -> c) sc ic)

(* ---------------------------------------------------------------- sections *)
let copy_targets (v : dm) : string list =
  let kp = match v with
    | DNull -> [] | DBool _ -> ["bool"] | DInt _ -> ["int"] | DFloat _ -> ["float"] | DString _ -> ["string"]
    | DBytes _ -> ["bytes"] | DLink _ -> ["link"] | DList _ -> ["list"] | DMap _ -> ["map"] in
  let wrong = match v with DString _ -> ["int"] | _ -> ["string"] in
  let null_child = match v with
    | DList l -> List.exists (fun x -> x = DNull) l
    | DMap m -> List.exists (fun (_, x) -> x = DNull) m
    | _ -> false in
  let bind = match v with
    | DMap _ when not null_child -> ["bindmap"]
    | DList _ when not null_child -> ["bindlist"]
    | _ -> [] in
  ["any"] @ kp @ wrong @ bind

let rec has_uint (v : dm) : bool =
  match v with
  | DInt z -> not (z_lt z two63_z)
  | DList l -> List.exists has_uint l
  | DMap m -> List.exists (fun (_, x) -> has_uint x) m
  | _ -> false

let letter_of_sres = function
  | SOk -> "." | SErr e -> err_letter e | SPanic -> "P" | SNoMethod -> "X"

let sections (s : string) : string list = String.split_on_char '|' s

(* the quirk setting of the model: what the probes at the head of the run found on this tree *)
let qr_pmap = ref true and qr_eq = ref true and qr_copy = ref true and qr_stream = ref true
let current_quirks () : quirks =
  { q_pmap_nilmap = !qr_pmap; q_eq_asint = !qr_eq; q_copy_asint = !qr_copy; q_stream_oneshot = !qr_stream }
let () = quirks_hook := current_quirks


(* ---- Build, Reset, build again with the same builder (records "c01r") *)
let rec cut_trace = function [] -> [] | SOk :: r -> SOk :: cut_trace r | x :: _ -> [x]

(* run a script on the model from a fresh builder state: trace letters and the built node *)
let model_build (q : quirks) (proto : string) (ops : aop list) : string * node option * bool =
  let (tr, fin) = run_tol q (init (proto_of proto)) ops in
  let tr = cut_trace tr in
  let all_ok = List.for_all (fun x -> x = SOk) tr && List.length tr = List.length ops in
  let trs = String.concat "" (List.map letter_of_sres tr) in
  if not all_ok then (trs, None, false)
  else (trs, (match fin with Some s -> build s | None -> None), true)

let split_hash (s : string) : string list = String.split_on_char '#' s

(* alternatives are resolved piece by piece, so that a piece that changed shape does not disturb the others *)
let resolve_pieces (s : string) (impl : string) : string =
  let sp = split_hash s and ip = split_hash impl in
  if List.length sp <> List.length ip then resolve s impl
  else String.concat "#" (List.map2 resolve sp ip)

let () =
  iter_lines (fun line ->
    match split_tab line with
    | id :: "probe" :: name :: obs :: _ ->
      let v = (obs = "1") in
      (match name with
       | "pmap_nilmap" -> qr_pmap := v | "eq_asint" -> qr_eq := v | "copy_asint" -> qr_copy := v
       | "stream_oneshot" -> qr_stream := v | _ -> ());
      print_string id; print_char '\t'; print_string obs; print_char '\t'; print_endline "ok"
    | id :: "c01r" :: proto :: v1text :: script1 :: v2text :: script2 :: obs :: _ ->
      let v1 = dm_of_string v1text and v2 = dm_of_string v2text in
      let ops1 = List.map fst (parse_script script1) and ops2 = List.map fst (parse_script script2) in
      let q = current_quirks () in
      (* ---- model: Reset gives a fresh builder state; the first node is a value and cannot change
         (aliasing between the builder and built nodes is the subject of C11's heap model) *)
      let core n = "t=" ^ mdump n ^ "|r=" ^ render_reads model_api n in
      let seg (trs, n, live) = match n with
        | _ when not live -> ("tr=" ^ trs ^ "|b=-|t=-|r=-", None)
        | None -> ("tr=" ^ trs ^ "|b=P|t=-|r=-", None)
        | Some n -> ("tr=" ^ trs ^ "|b=ok|" ^ core n, Some n) in
      let (s1, n1) = seg (model_build q proto ops1) in
      let model_obs = match n1 with
        | None -> s1
        | Some n1 ->
          let (s2, n2) = seg (model_build q proto ops2) in
          (match n2 with
           | None -> s1 ^ "#rs=.#" ^ s2
           | Some n2 ->
             s1 ^ "#rs=.#" ^ s2 ^ "#again:" ^ core n1 ^ "#eq=" ^
             (match deep_equal q n1 n2 with ROk true -> "T" | ROk false -> "F" | _ -> "P")) in
      let model_obs = resolve_pieces model_obs obs in
      (* ---- oracle, from the two values alone *)
      let score v = "t=" ^ sdump v ^ "|r=" ^ render_reads spec_api v in
      let sseg ops v = "tr=" ^ String.make (List.length ops) '.' ^ "|b=ok|" ^ score v in
      let spec_obs = sseg ops1 v1 ^ "#rs=.#" ^ sseg ops2 v2 ^ "#again:" ^ score v1 ^ "#eq=" ^
                     (if dm_goeq v1 v2 then "T" else "F") in
      let spec_obs = resolve_pieces spec_obs obs in
      let verdict =
        if spec_obs = obs then "ok" else begin
          let ss = split_hash spec_obs and is = split_hash obs in
          let cls = ref "" in
          let set c = if !cls = "" then cls := c in
          List.iteri (fun i w ->
              match List.nth_opt is i with
              | None -> set (match i with 1 -> "reset" | 2 -> "second_build" | _ -> "truncated")
              | Some o when o = w -> ()
              | Some o ->
                (match i with
                 | 0 -> set "readback"
                 | 1 -> set "reset_fails"
                 | 2 -> set "second_build_readback"
                 | 3 -> set "first_node_changed_after_reset"
                 | _ ->
                   let big = has_uint v1 || has_uint v2 in
                   if o = "eq=P" && big then set "deepequal_uint_panic"
                   else set "deepequal_after_reset")) ss;
          "fail:" ^ (if !cls = "" then "observation" else !cls)
        end in
      print_string id; print_char '\t'; print_string model_obs; print_char '\t'; print_endline verdict
    | id :: "c01" :: proto :: vtext :: script :: mutants :: obs :: _ ->
      let v = dm_of_string vtext in
      let ops = List.map fst (parse_script script) in
      let muts = if mutants = "" then [] else List.map dm_of_string (String.split_on_char ';' mutants) in
      (* a bindnode {String:Any} / [Any] builder: its Any-typed positions are basicnode builders, so the
         script runs as on Prototype.Any; the root is a foreign container and container children handed
         over by AssignNode are copied into fresh basicnode containers *)
      let bind_root = (proto = "bindmap" || proto = "bindlist") in
      let rehome = function NFMap t -> NMap (t, List.rev t) | NFList x -> NList x | n -> n in
      let wrap n = if not bind_root then n else match n with
          | NMap (t, _) -> NFMap (List.map (fun (k, c) -> (k, rehome c)) t)
          | NList x -> NFList (List.map rehome x)
          | n -> n in
      let p = if bind_root then PAny else proto_of proto in
      let stream_case = (proto = "bytes") && (match ops with AssignNode _ :: _ -> true | _ -> false) in
      let targets = copy_targets v in
      (* ---- model observation (pinned quirks = the code as it is) *)
      let q = current_quirks () in
      let (tr, fin) = run_tol q (init p) ops in
      let rec cut = function [] -> [] | SOk :: r -> SOk :: cut r | x :: _ -> [x] in
      let tr = cut tr in
      let all_ok = List.for_all (fun x -> x = SOk) tr && List.length tr = List.length ops in
      let trs = String.concat "" (List.map letter_of_sres tr) in
      let model_obs =
        if not all_ok then "tr=" ^ trs ^ "|b=-|t=-|r=-|e=-|c=-|y=-"
        else match (match fin with Some s -> (match build s with Some n -> Some (wrap n) | None -> None) | None -> None) with
          | None -> "tr=" ^ trs ^ "|b=P|t=-|r=-|e=-|c=-|y=-"
          | Some n ->
            let head = "tr=" ^ trs ^ "|b=ok|t=" ^ mdump n in
            if stream_case then
              head ^ "|r=-|e=-|c=-|y=" ^
              (match as_bytes_again q n with Ok s -> "b" ^ hex_of_bytes s | Err _ -> "!asbytes")
            else begin
              let e = String.concat "" (List.map (fun o ->
                  match deep_equal q n (plain_of o) with
                  | ROk true -> "T" | ROk false -> "F" | _ -> "P") (v :: muts)) in
              let c = String.concat "" (List.map (fun t ->
                  let cell =
                    if t = "bindmap" || t = "bindlist" then
                      (match copy_script q n with Ok _ -> "=" ^ mdump n | Err e -> "!" ^ err_letter e)
                    else match copy q (proto_of t) n with
                      | ROk n' -> "=" ^ mdump n'
                      | RErr e -> "!" ^ err_letter e
                      | RPanic -> "!P" in
                  t ^ ">" ^ cell ^ ";") targets) in
              head ^ "|r=" ^ render_reads model_api n ^ "|e=" ^ e ^ "|c=" ^ c ^ "|y=-"
            end in
      let model_obs = resolve model_obs obs in
      (* ---- oracle: what the property demands, from the value alone *)
      let spec_obs =
        let head = "tr=" ^ String.make (List.length ops) '.' ^ "|b=ok|t=" ^ sdump v in
        if stream_case then head ^ "|r=-|e=-|c=-|y=" ^ sdump v
        else begin
          let e = String.concat "" (List.map (fun o -> if dm_goeq v o then "T" else "F") (v :: muts)) in
          let kindp = (match v with DNull -> "" | _ -> List.nth targets 1) in
          let c = String.concat "" (List.map (fun t ->
              let fits = (t = "any") || (t = kindp) || (t = "bindmap") || (t = "bindlist") in
              let big = (match v with DInt z -> not (z_lt z two63_z) | _ -> false) in
              t ^ ">" ^ (if big && t = "int" then "?!o/!w"       (* an int64 builder cannot hold it *)
                         else if fits then "=" ^ sdump v else "!w") ^ ";") targets) in
          head ^ "|r=" ^ render_reads spec_api v ^ "|e=" ^ e ^ "|c=" ^ c ^ "|y=-"
        end in
      let spec_obs = resolve spec_obs obs in
      let verdict =
        if spec_obs = obs then "ok" else begin
          let ss = sections spec_obs and is = sections obs in
          if List.length ss <> List.length is then "fail:malformed_obs" else begin
            let get l name =
              let pre = name ^ "=" in
              let pl = String.length pre in
              match List.find_opt (fun x -> String.length x >= pl && String.sub x 0 pl = pre) l with
              | Some x -> String.sub x pl (String.length x - pl) | None -> "" in
            let classes = ref [] in
            let addc c = classes := c :: !classes in
            let itr = get is "tr" in
            if get ss "tr" <> itr then begin
              let foreign_nonempty_map = match ops with
                | [AssignNode (NFMap (_ :: _))] -> true | _ -> false in
              if proto = "map" && foreign_nonempty_map && itr = "P" then addc "pmap_assignnode_foreign_panic"
              else addc "script_rejected"
            end else if get ss "b" <> get is "b" then addc "build_panic"
            else begin
              if get ss "t" <> get is "t" then addc "readback";
              if get ss "r" <> get is "r" then begin
                let sc = String.split_on_char ';' (get ss "r") and ic = String.split_on_char ';' (get is "r") in
                let only_retained =
                  List.length sc = List.length ic &&
                  List.for_all2 (fun a b -> a = b || (String.length a >= 3 && String.sub a 0 3 = "rk:")) sc ic in
                (* generated maps: LookupByNode with a key node that is not of the generated key type panics *)
                let only_bynode_panics =
                  List.length sc = List.length ic &&
                  List.for_all2 (fun a b -> a = b || b = "n:!P" || b = "ni:!P") sc ic in
                let has_gen_map =
                  List.exists (fun t -> String.length t >= 2 && t.[0] = 'Q' && t.[1] >= '0' && t.[1] <= '9')
                    (String.split_on_char ' ' script) in
                addc (if only_retained then "iter_key_retained"
                      else if only_bynode_panics && has_gen_map then "gen_map_lookupbynode_foreign_key_panic"
                      else "views_disagree")
              end;
              let se = get ss "e" and ie = get is "e" in
              if se <> ie then begin
                let only_panics = String.length se = String.length ie &&
                                  (let ok = ref true in
                                   String.iteri (fun i c -> if c <> ie.[i] && ie.[i] <> 'P' then ok := false) se; !ok) in
                if only_panics && List.exists has_uint (v :: muts) then addc "deepequal_uint_panic"
                else addc "deepequal"
              end;
              let sc = get ss "c" and ic = get is "c" in
              if sc <> ic then begin
                let all_o = List.for_all (fun cell -> cell = "" ||
                                                      (let l = String.length cell in l >= 2 && String.sub cell (l - 2) 2 = "!o"))
                    (String.split_on_char ';' ic) in
                (match v with
                 | DInt z when not (z_lt z two63_z) && all_o -> addc "copy_uint_fails"
                 | _ -> addc "copy")
              end;
              if get ss "y" <> get is "y" then begin
                if stream_case then addc "streambytes_second_read" else addc "second_read"
              end
            end;
            "fail:" ^ String.concat "," (List.rev !classes)
          end
        end in
      print_string id; print_char '\t'; print_string model_obs; print_char '\t'; print_endline verdict
    | _ -> ())
